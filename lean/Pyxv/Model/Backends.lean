import Pyxv.Model.Base
import Pyxv.Generated.Tables
/-!
# Backends: model of `pyxform/xls2json_backends.py`

Containers → the `{sheet: rows, sheet_header: [...], sheet_names: [...]}` structure, at the level
where defects can live: Python dict = insertion-ordered association list (`dset`), partial
operations give explicit error outcomes (`Err`), strings are `List Char`.

* typed cells → canonical text: `xlsx_value_to_str`, `xls_value_to_unicode`, `is_empty`,
  `xlsx_clean_cell` / `xls_clean_cell` (xls2json_backends.py:154-168, 222-249, 262-269, 315-346)
* `trim_trailing_empty`, `get_excel_column_headers`, `get_excel_rows` (72-141)
* `csv.reader` (excel dialect, CPython `Modules/_csv.c` state machine fed by the universal-newline
  line iterator of `StringIO(newline="")`), `csv_to_dict` (381-431), a `QUOTE_ALL` writer
* `_md_strp_cell`, `_md_table_to_ss_structure`, `md_to_dict` (550-630), a Markdown renderer
* `is_markdown_table`, `is_csv`, `get_definition_data`, `definition_to_dict` (656-823)

Binary decoding (xlrd / openpyxl) and `str(float)` are parameters: a float cell carries the text
Python's `str` gives for it.
-/
namespace Pyxv.Backends
open Pyxv

/-! ## Python dict -/

/-- `d[k] = v` on an insertion-ordered dict. -/
def dset {κ β} [DecidableEq κ] (k : κ) (v : β) : List (κ × β) → List (κ × β)
  | [] => [(k, v)]
  | (k', v') :: rest => if k' = k then (k', v) :: rest else (k', v') :: dset k v rest

/-- `d.get(k)` -/
def dget {κ β} [DecidableEq κ] (k : κ) : List (κ × β) → Option β
  | [] => none
  | (k', v') :: rest => if k' = k then some v' else dget k rest

/-- `k in d` -/
def dhas {κ β} [DecidableEq κ] (k : κ) (d : List (κ × β)) : Bool := (dget k d).isSome

/-- keys of `{str(i): None for i in items}`: first occurrences, in order. -/
def dedup : List Str → List Str
  | [] => []
  | x :: xs => x :: (dedup xs).filter (· ≠ x)

/-- `_list_to_dict_list` (62-69): `[]` or a one-element list holding the header dict (its keys). -/
def l2dl (items : List Str) : List (List Str) := if items.isEmpty then [] else [dedup items]

inductive Err
  | readError            -- PyXFormReadError (the next parser is tried / "not recognized")
  | keyError | indexError | typeError | attributeError   -- escape as internal errors
  | dupHeader (h : Str)  -- PyXFormError("Duplicate column header")
  | unsupported          -- outside the modelled fragment
  deriving Repr, DecidableEq

/-! ## typed cells → text -/

/-- A spreadsheet cell value as delivered by openpyxl / xlrd.  `float i r`: `i = some n` iff the
float is integral with value `n`; `r` is Python's `str(value)`. -/
inductive Cell
  | none
  | text (s : Str)
  | int (n : Int)
  | float (i : Option Int) (repr : Str)
  | bool (b : Bool)
  deriving Repr, DecidableEq

def nbsp : Char := Char.ofNat 160

def allSpace (s : Str) : Bool := s.all pyIsSpace

/-- `is_empty` (339-346) -/
def isEmptyCell : Cell → Bool
  | .none => true
  | .text s => allSpace s
  | _ => false

def intText (n : Int) : Str := (toString n).toList

/-- `value.replace(chr(160), " ")` -/
def replaceNbsp (s : Str) : Str := s.map fun c => if c = nbsp then ' ' else c

/-- `xlsx_value_to_str` (315-336) = `xls_value_to_unicode` (222-249) on the cell kinds both have. -/
def valueToStr : Cell → Str
  | .bool true => "TRUE".toList
  | .bool false => "FALSE".toList
  | .float (some n) _ => intText n
  | .float .none r => r
  | .int n => intText n
  | .text s => replaceNbsp s
  | .none => "None".toList

/-- `xlsx_clean_cell` / `xls_clean_cell` (154-168, 262-269): strip text, `None` when empty. -/
def cellText (c : Cell) : Option Str :=
  let c' := match c with | .text s => Cell.text (strip s) | c => c
  if isEmptyCell c' then .none else some (valueToStr c')

/-! ## trimming, headers, rows -/

/-- `trim_trailing_empty` (72-79) -/
def trimTrailing {α} (l : List α) (n : Nat) : List α := if 0 < n then l.take (l.length - n) else l

/-- drop the trailing elements satisfying `p` (and nothing else): `while l and p(l[-1]): l.pop()` -/
def stripTrailing {α} (p : α → Bool) (l : List α) : List α := (l.reverse.dropWhile p).reverse

def isEmptyVal : Option Str → Bool
  | .none => true
  | some s => allSpace s

/-- `RE_WHITESPACE.sub(" ", s)`: every run of U+0020 becomes one space. -/
def collapseSpaces : Str → Str
  | ' ' :: ' ' :: rest => collapseSpaces (' ' :: rest)
  | c :: rest => c :: collapseSpaces rest
  | [] => []

def cleanHeader (s : Str) : Str := collapseSpaces (strip s)

/-- the loop of `get_excel_column_headers` (85-102); state = (adjacent_empty_cols, column_header_list).
Note the duplicate test compares the *raw* header with the *cleaned* earlier ones, and the `None`
is appended before the limit test. -/
def headersLoop (lim : Nat) : Nat → List (Option Str) → List (Option Str) → Except Err (List (Option Str) × Nat)
  | adj, acc, [] => .ok (acc, adj)
  | adj, acc, h :: rest =>
    if isEmptyVal h then
      if lim = adj then .ok (acc ++ [.none], adj) else headersLoop lim (adj + 1) (acc ++ [.none]) rest
    else
      match h with
      | some s => if acc.contains (some s) then .error (.dupHeader s) else headersLoop lim 0 (acc ++ [some (cleanHeader s)]) rest
      | .none => .ok (acc, adj)

/-- `get_excel_column_headers` (82-104) -/
def getHeaders (firstRow : List (Option Str)) : Except Err (List (Option Str)) :=
  match headersLoop Gen.maxEmptyHeaderRun 0 [] firstRow with
  | .ok (acc, adj) => .ok (trimTrailing acc adj)
  | .error e => .error e

abbrev Row := List (Str × Str)

/-- the inner loop of `get_excel_rows` (118-127): `row[col_n]` beyond the row is skipped. -/
def rowDict : List (Option Str) → List Cell → Row → Row
  | [], _, acc => acc
  | _ :: _, [], acc => acc
  | .none :: hs, _ :: cs, acc => rowDict hs cs acc
  | some k :: hs, c :: cs, acc =>
    rowDict hs cs (match cellText c with | some v => dset k v acc | .none => acc)

/-- the outer loop of `get_excel_rows` (117-139) over the row dicts; the break happens *before*
the append. -/
def rowsLoop {α} (lim : Nat) : Nat → List (List α) → List (List α) → List (List α) × Nat
  | adj, acc, [] => (acc, adj)
  | adj, acc, r :: rest =>
    if r.isEmpty then
      if lim = adj then (acc, adj) else rowsLoop lim (adj + 1) (acc ++ [r]) rest
    else rowsLoop lim 0 (acc ++ [r]) rest

def getRowsOf {α} (lim : Nat) (ds : List (List α)) : List (List α) :=
  let r := rowsLoop lim 0 [] ds
  trimTrailing r.1 r.2

/-- `get_excel_rows` (107-141) -/
def getRows (hdr : List (Option Str)) (rows : List (List Cell)) : List Row :=
  getRowsOf Gen.maxEmptyRowRun (rows.map fun r => rowDict hdr r [])

/-! ## the workbook structure returned by every `*_to_dict` -/

abbrev KRow := List (Option Str × Str)

inductive Val
  | names (l : List Str)
  | rows (l : List KRow)
  | header (l : List (List Str))
  deriving Repr, DecidableEq

abbrev Book := List (Str × Val)

def sheetNamesKey : Str := "sheet_names".toList
def headerSuffix : Str := "_header".toList
def supported : List Str := Gen.supportedSheetNames.map String.toList
def surveyKey : Str := "survey".toList

def isAscii (s : Str) : Bool := s.all fun c => c.toNat < 128

def bookNames (b : Book) : List Str := match dget sheetNamesKey b with | some (.names l) => l | _ => []

/-! ## csv.reader (excel dialect) -/

inductive CsvMode
  | startRecord | startField | inField | inQuoted | quoteInQuoted | eatCrnl | failed
  deriving Repr, DecidableEq

structure CsvSt where
  mode : CsvMode
  pendingCR : Bool
  fld : Str
  flds : List Str
  out : List (List Str)
  deriving Repr, DecidableEq

def csvInit : CsvSt := ⟨.startRecord, false, [], [], []⟩

def isNl (c : Char) : Bool := c = '\n' || c = '\r'

/-- `parse_save_field` -/
def saveField (s : CsvSt) : CsvSt := { s with flds := s.flds ++ [s.fld], fld := [] }

/-- case START_FIELD of `parse_process_char` -/
def stepField (s : CsvSt) (c : Char) : CsvSt :=
  if isNl c then { saveField s with mode := .eatCrnl }
  else if c = '"' then { s with mode := .inQuoted }
  else if c = ',' then { saveField s with mode := .startField }
  else { s with fld := s.fld ++ [c], mode := .inField }

/-- `parse_process_char` for a character of the line (excel dialect: delimiter `,`, quotechar `"`,
doublequote, no escapechar, not strict). -/
def stepChar (s : CsvSt) (c : Char) : CsvSt :=
  match s.mode with
  | .startRecord => if isNl c then { s with mode := .eatCrnl } else stepField s c
  | .startField => stepField s c
  | .inField =>
    if isNl c then { saveField s with mode := .eatCrnl }
    else if c = ',' then { saveField s with mode := .startField }
    else { s with fld := s.fld ++ [c] }
  | .inQuoted => if c = '"' then { s with mode := .quoteInQuoted } else { s with fld := s.fld ++ [c] }
  | .quoteInQuoted =>
    if c = '"' then { s with fld := s.fld ++ [c], mode := .inQuoted }
    else if c = ',' then { saveField s with mode := .startField }
    else if isNl c then { saveField s with mode := .eatCrnl }
    else { s with fld := s.fld ++ [c], mode := .inField }
  | .eatCrnl => if isNl c then s else { s with mode := .failed }
  | .failed => s

def emit (s : CsvSt) : CsvSt := { s with mode := .startRecord, out := s.out ++ [s.flds], flds := [], fld := [] }

/-- `parse_process_char(EOL)` at the end of a line, then the `while (state != START_RECORD)` test
of `Reader_iternext`: a record is complete when the state is START_RECORD again. -/
def stepEol (s : CsvSt) : CsvSt :=
  match s.mode with
  | .startRecord => emit s
  | .startField | .inField | .quoteInQuoted => emit (saveField s)
  | .inQuoted => s
  | .eatCrnl => emit s
  | .failed => s

def feed1 (s : CsvSt) (c : Char) : CsvSt :=
  if c = '\r' then { stepChar s c with pendingCR := true }
  else if c = '\n' then stepEol (stepChar s c)
  else stepChar s c

/-- one character of the text; lines end after `\n`, `\r\n` or a lone `\r`
(`StringIO(newline="")` iteration), and after every line the reader gets an EOL event. -/
def feed (s : CsvSt) (c : Char) : CsvSt :=
  if s.pendingCR then
    if c = '\n' then stepEol { stepChar s c with pendingCR := false }
    else feed1 (stepEol { s with pendingCR := false }) c
  else feed1 s c

/-- end of input: the EOL of an unterminated last line, then the `field_len != 0 || state ==
IN_QUOTED_FIELD` rule. -/
def csvFinish (s : CsvSt) : List (List Str) :=
  let s := if s.mode = .startRecord then s else stepEol { s with pendingCR := false }
  match s.mode with
  | .inQuoted => s.out ++ [s.flds ++ [s.fld]]
  | _ => s.out

/-- `list(csv.reader(StringIO(text, newline="")))` -/
def csvRead (t : Str) : List (List Str) := csvFinish (t.foldl feed csvInit)

/-- `csv.writer(quoting=QUOTE_ALL)` field -/
def csvQuote (f : Str) : Str := '"' :: (f.flatMap fun c => if c = '"' then ['"', '"'] else [c]) ++ ['"']

def csvRecord (r : List Str) : Str := joinWith [','] (r.map csvQuote) ++ ['\r', '\n']

/-- `csv.writer(quoting=QUOTE_ALL).writerows(rows)` -/
def csvWrite (rows : List (List Str)) : Str := rows.flatMap csvRecord

/-! ## csv_to_dict -/

/-- `count_characters_limit(data[:5000], ch, lim) >= lim` -/
def hasAtLeast (ch : Char) (lim : Nat) (data : Str) : Bool := lim ≤ ((data.take 5000).filter (· = ch)).length

def isCsv (data : Str) : Bool := hasAtLeast ',' 4 data
def isMarkdownTable (data : Str) : Bool := hasAtLeast '|' 5 data

/-- `first_column_as_sheet_name` (382-395) -/
def firstColumn : List Str → Option Str × Option (List Str)
  | [] => (.none, .none)
  | [x] => (some x, .none)
  | x :: rest =>
    let name := strip x
    let content := rest.map strip
    (if name.isEmpty then .none else some name, if content.any (· ≠ []) then some content else .none)

structure CsvAcc where
  book : Book
  sheet : Option Str
  headers : Option (List Str)
  deriving Repr, DecidableEq

/-- `{k: v.replace(chr(160), " ") for k, v in zip(current_headers, content, strict=False) if v != ""}` -/
def zipDict : List Str → List Str → KRow → KRow
  | h :: hs, v :: vs, acc => zipDict hs vs (if v = [] then acc else dset (some h) (replaceNbsp v) acc)
  | _, _, acc => acc

/-- `str(sheet_name)` / f-string of a `str | None` -/
def optStr : Option Str → Str
  | some s => s
  | .none => "None".toList

/-- names on which the dict keys of `process_csv_data` collide with each other (the model does not
follow Python into a list that holds both rows and names) -/
def weirdName (n : Str) : Bool :=
  !isAscii n || lowerAscii n = sheetNamesKey || endsWith (lowerAscii n) headerSuffix

/-- one iteration of the loop of `process_csv_data` (401-420) -/
def csvRow (a : CsvAcc) (row : List Str) : Except Err CsvAcc :=
  let (maybe, content) := firstColumn row
  let a1 : Except Err CsvAcc :=
    match maybe with
    | .none => .ok a
    | some nm =>
      if weirdName nm then .error .unsupported
      else if !nm.isEmpty && !dhas nm a.book then
        let low := lowerAscii nm
        let b := dset sheetNamesKey (.names (bookNames a.book ++ [nm])) a.book
        .ok { book := dset low (.rows []) b, sheet := some low, headers := .none }
      else .ok { a with sheet := some nm, headers := .none }
  match a1 with
  | .error e => .error e
  | .ok a =>
    match content with
    | .none =>
      -- a blank row amongst the data (`len(row) > 1`, no sheet title): kept as `{}`
      if maybe.isNone && decide (1 < row.length) && a.headers.isSome then
        match a.sheet with
        | .none => .ok a
        | some sn =>
          match dget sn a.book with
          | some (.rows l) => .ok { a with book := dset sn (.rows (l ++ [[]])) a.book }
          | some _ => .error .unsupported
          | .none => .ok a
      else .ok a
    | some c =>
      match a.headers with
      | .none => .ok { a with headers := some c, book := dset (optStr a.sheet ++ headerSuffix) (.header (l2dl c)) a.book }
      | some hs =>
        match a.sheet with
        | .none => .error .keyError
        | some sn =>
          match dget sn a.book with
          | some (.rows l) => .ok { a with book := dset sn (.rows (l ++ [zipDict hs c []])) a.book }
          | some _ => .error .unsupported
          | .none => .error .keyError

/-- the final loop of `process_csv_data`: trailing blank rows of every sheet are popped -/
def csvTrim (b : Book) : Book :=
  b.map fun (k, v) =>
    match v with
    | .rows l => if k = sheetNamesKey || endsWith k headerSuffix then (k, v) else (k, .rows (stripTrailing (·.isEmpty) l))
    | _ => (k, v)

def csvProcess : CsvAcc → List (List Str) → Except Err Book
  | a, [] => .ok (csvTrim a.book)
  | a, r :: rest => match csvRow a r with
    | .ok a' => csvProcess a' rest
    | .error e => .error e

def csvAcc0 : CsvAcc := ⟨[(sheetNamesKey, .names [])], .none, .none⟩

/-- `csv_to_dict` (381-431) on the decoded text -/
def csvToDict (t : Str) : Except Err Book :=
  if !isCsv t then .error .readError else csvProcess csvAcc0 (csvRead t)

/-! ## Markdown -/

/-- `MD_COMMENT = ^\s*#` -/
def mdIsComment (l : Str) : Bool :=
  match l.dropWhile pyIsSpace with
  | '#' :: _ => true
  | _ => false

/-- `MD_COMMENT_INLINE = ^(.*)(#[^|]+)$`, group 1: the text before the last `#` that lies after
the last pipe and is not the last character of the line. -/
def mdInline (l : Str) : Option Str :=
  let r := l.reverse
  let tailRev := r.takeWhile (· ≠ '|')
  let headRev := r.dropWhile (· ≠ '|')
  match tailRev with
  | [] => .none
  | _ :: rest =>
    match rest.dropWhile (· ≠ '#') with
    | [] => .none
    | _ :: beforeRev => some ((beforeRev ++ headRev).reverse)

/-- `re.match(MD_CELL = \s*\|(.*)\|\s*, line)`, group 1: between the first pipe (which must follow
the leading whitespace) and the last pipe. -/
def mdCellGroup (l : Str) : Option Str :=
  match l.dropWhile pyIsSpace with
  | '|' :: rest =>
    match rest.reverse.dropWhile (· ≠ '|') with
    | [] => .none
    | _ :: beforeRev => some beforeRev.reverse
  | _ => .none

/-- `MD_SEPARATOR = ^[\|-]+$` -/
def mdSeparator (g : Str) : Bool := !g.isEmpty && g.all fun c => c = '|' || c = '-'

/-- `re.split(MD_PIPE_OR_ESCAPE = (?<!\\)\|, s)`; the flag says whether the previous character is a backslash. -/
def splitPipes : Bool → Str → List Str
  | _, [] => [[]]
  | pb, c :: cs =>
    if c = '|' && !pb then [] :: splitPipes false cs
    else match splitPipes (c = '\\') cs with
      | f :: fs => (c :: f) :: fs
      | [] => [[c]]

/-- `s.replace(r"\|", "|")` -/
def unescPipe : Str → Str
  | '\\' :: '|' :: rest => '|' :: unescPipe rest
  | c :: rest => c :: unescPipe rest
  | [] => []

/-- `_md_strp_cell` (557-560) -/
def mdStrp (cell : Str) : Option Str := if allSpace cell then .none else some (unescPipe (strip cell))

abbrev MdRow := List (Option Str)

/-- loop state of `_md_table_to_ss_structure`: `sheet_name` / `sheet_arr` (`none` = `False`), `sheets`. -/
structure MdSt where
  name : Option Str
  arr : Option (List MdRow)
  sheets : List (Option Str × Option (List MdRow))
  deriving Repr, DecidableEq

/-- one line of `_md_table_to_ss_structure` (567-590) -/
def mdLine (st : MdSt) (line0 : Str) : MdSt :=
  if mdIsComment line0 then st else
  let line := (mdInline line0).getD line0
  match mdCellGroup line with
  | .none => st
  | some g =>
    let st1 :=
      if mdSeparator g then st else
      match splitPipes false g with
      | [] => st
      | c0 :: cs =>
        let row := cs.map mdStrp
        let st2 := match mdStrp c0 with
          | some f => { st with name := some f, arr := some [] }
          | .none => st
        -- a blank row amongst the data (`first_col is None and sheet_arr`) is kept
        let arrTruthy := match st2.arr with | some (_ :: _) => true | _ => false
        if st2.name.isSome && (row.any Option.isSome || ((mdStrp c0).isNone && arrTruthy)) then
          { st2 with arr := st2.arr.map (· ++ [row]) } else st2
    { st1 with sheets := dset st1.name st1.arr st1.sheets }

def mdStructure (t : Str) : List (Option Str × Option (List MdRow)) :=
  ((splitOnChar '\n' t).foldl mdLine ⟨.none, .none, []⟩).sheets

/-- `{arr[0][i]: v.replace(chr(160), " ") for i, v in enumerate(row[:n_cols]) if v not in {None, ""}}`
with `n_cols = len(arr[0])`: cells beyond the header row have no column name and are ignored. -/
def mdRowDict : MdRow → MdRow → KRow → KRow
  | [], _, acc => acc
  | _ :: _, [], acc => acc
  | _ :: hs, .none :: vs, acc => mdRowDict hs vs acc
  | h :: hs, some v :: vs, acc => mdRowDict hs vs (dset h (replaceNbsp v) acc)

def mdRows (hdr : MdRow) (rows : List MdRow) : List KRow := rows.map fun r => mdRowDict hdr r []

/-- `list_to_dicts(contents)` and `header_of(contents)` (md_to_dict): a sheet without any row has no
rows and an empty header list. -/
def mdSheet (key : Str) (contents : List MdRow) (b : Book) : Book :=
  match contents with
  | [] => dset (key ++ headerSuffix) (.header []) (dset key (.rows []) b)
  | hdr :: rows =>
    -- `while len(arr) > 1 and not any(c is not None for c in arr[-1]): arr = arr[:-1]`
    let rows' := stripTrailing (fun r : MdRow => !r.any Option.isSome) rows
    dset (key ++ headerSuffix) (.header (l2dl (hdr.map optStr))) (dset key (.rows (mdRows hdr rows')) b)

/-- the loop of `process_md_data` (605-620) -/
def mdProcess (single : Bool) : List (Option Str × Option (List MdRow)) → Book → Except Err Book
  | [], b => .ok b
  | (.none, _) :: _, _ => .error .readError          -- `False.lower()` → AttributeError → PyXFormReadError
  | (some _, .none) :: _, _ => .error .readError     -- not reachable
  | (some nm, some contents) :: rest, b =>
    if !isAscii nm then .error .unsupported else
    let b1 := dset sheetNamesKey (.names (bookNames b ++ [nm])) b
    let low := lowerAscii nm
    if supported.contains low then mdProcess single rest (mdSheet low contents b1)
    else if single then mdProcess single rest (mdSheet surveyKey contents b1)
    else mdProcess single rest b1

/-- `md_to_dict` (595-630) on the decoded text -/
def mdToDict (t : Str) : Except Err Book :=
  if !isMarkdownTable t then .error .readError else
  let ss := mdStructure t
  -- pipes but no table row: "not Markdown" (PyXFormError → PyXFormReadError, the next parser is tried)
  if ss.isEmpty then .error .readError else
  mdProcess (ss.length = 1) ss [(sheetNamesKey, .names [])]

/-! ## abstract workbooks and their renderings -/

structure Sheet where
  name : Str
  header : List Str
  rows : List (List Str)
  deriving Repr, DecidableEq

abbrev Workbook := List Sheet

def csvRows (wb : Workbook) : List (List Str) :=
  wb.flatMap fun s => [s.name] :: ([] :: s.header) :: s.rows.map ([] :: ·)

def renderCsv (wb : Workbook) : Str := csvWrite (csvRows wb)

def mdEscape (c : Str) : Str := c.flatMap fun ch => if ch = '|' then ['\\', '|'] else [ch]

def mdCellPad (c : Str) : Str := ' ' :: mdEscape c ++ [' ']

/-- `| c1 | c2 |` -/
def mdLineOf (cells : List Str) : Str := '|' :: joinWith ['|'] (cells.map mdCellPad) ++ ['|']

def mdLines (wb : Workbook) : List Str :=
  wb.flatMap fun s => mdLineOf [s.name] :: mdLineOf ([] :: s.header) :: s.rows.map fun r => mdLineOf ([] :: r)

def renderMd (wb : Workbook) : Str := joinWith ['\n'] (mdLines wb)

/-- the dict container: what the workbook *means* (non-empty cells keyed by their header). -/
def sheetRow (hdr : List Str) (r : List Str) : KRow := zipDict hdr r []

def sheetEntries (s : Sheet) : Book :=
  [(lowerAscii s.name, .rows (s.rows.map (sheetRow s.header))),
   (lowerAscii s.name ++ headerSuffix, .header (l2dl s.header))]

def toBook (wb : Workbook) : Book :=
  (sheetNamesKey, .names (wb.map (·.name))) :: wb.flatMap sheetEntries

/-! ## a decoded spreadsheet: `x*_to_dict_normal_sheet`, `process_workbook` (170-209, 271-300)

The third-party decoder (xlrd / openpyxl) is a parameter: the model starts from the typed cell grid
it delivers, one grid per sheet, rows padded or ragged as delivered. -/

abbrev Grid := List (List Cell)

/-- `c.value for c in first_row`: a header value is `None` or a string; a typed (numeric / boolean)
header cell makes `column_header.strip()` raise — outside the modelled fragment. -/
def headerValues : List Cell → Except Err (List (Option Str))
  | [] => .ok []
  | .none :: cs => match headerValues cs with | .ok l => .ok (.none :: l) | .error e => .error e
  | .text s :: cs => match headerValues cs with | .ok l => .ok (some s :: l) | .error e => .error e
  | _ :: _ => .error .unsupported

/-- a row dict of `get_excel_rows` as a row of the workbook structure (all keys are strings) -/
def liftRow (r : Row) : KRow := r.map fun (k, v) => (some k, v)

/-- `xlsx_to_dict_normal_sheet` / `xls_to_dict_normal_sheet`: headers from the first row, data rows
limited to `len(headers)` columns (`max_col=len(headers)` / `range(len(headers))`), the header dict
list from the non-`None` headers. -/
def sheetOfGrid (grid : Grid) : Except Err (List Row × List (List Str)) :=
  match grid with
  | [] => .ok ([], [])
  | first :: rest =>
    match headerValues first with
    | .error e => .error e
    | .ok hv =>
      match getHeaders hv with
      | .error e => .error e
      | .ok hs => .ok (getRows hs (rest.map fun r => r.take hs.length), l2dl (hs.filterMap id))

/-- the tuple assignment `result_book[name], result_book[f"{name}_header"] = …normal_sheet(…)` -/
def excelSheet (key : Str) (grid : Grid) (b : Book) : Except Err Book :=
  match sheetOfGrid grid with
  | .error e => .error e
  | .ok (rows, hdr) => .ok (dset (key ++ headerSuffix) (.header hdr) (dset key (.rows (rows.map liftRow)) b))

/-- the loop of `process_workbook` (189-209, 280-300) over the decoded sheets `(title, grid)` -/
def excelProcess (single : Bool) : List (Str × Grid) → Book → Except Err Book
  | [], b => .ok b
  | (nm, grid) :: rest, b =>
    if !isAscii nm then .error .unsupported else
    let b1 := dset sheetNamesKey (.names (bookNames b ++ [nm])) b
    let low := lowerAscii nm
    if supported.contains low then
      match excelSheet low grid b1 with
      | .error e => .error e
      | .ok b2 => excelProcess single rest b2
    else if single then
      match excelSheet surveyKey grid b1 with
      | .error e => .error e
      | .ok b2 => excelProcess single rest b2
    else excelProcess single rest b1

/-- `xlsx_to_dict` / `xls_to_dict` after decoding -/
def excelToDict (sheets : List (Str × Grid)) : Except Err Book :=
  excelProcess (sheets.length = 1) sheets [(sheetNamesKey, .names [])]

/-! ## delivery channels: `get_definition_data`, `definition_to_dict` (716-823) -/

inductive FileType | xlsx | xlsm | xls | md | csv
  deriving Repr, DecidableEq

def FileType.ofSuffix (s : Str) : Option FileType :=
  if s = ".xlsx".toList then some .xlsx else if s = ".xlsm".toList then some .xlsm
  else if s = ".xls".toList then some .xls else if s = ".md".toList then some .md
  else if s = ".csv".toList then some .csv else .none

/-- the last `.` of a file name: `(name[:i], name[i+1:])` for `i = name.rfind(".")` -/
def splitLastDot (n : Str) : Option (Str × Str) :=
  let r := n.reverse
  match r.dropWhile (· ≠ '.') with
  | [] => .none
  | _ :: beforeRev => some (beforeRev.reverse, (r.takeWhile (· ≠ '.')).reverse)

/-- `PurePath.stem` of a final path component (pathlib, Python 3.12): `name[:i]` if `0 < i < len(name) - 1`
for `i = name.rfind(".")`, else the whole name — a leading dot (`.hidden`) and a trailing dot (`a.`)
are not suffix separators, only the *last* suffix is removed (`a.tar.gz` → `a.tar`). -/
def pathStem (n : Str) : Str :=
  match splitLastDot n with
  | some (b, a) => if b.isEmpty || a.isEmpty then n else b
  | .none => n

/-- `PurePath.suffix`: `name[i:]` under the same condition, else `""`. -/
def pathSuffix (n : Str) : Str :=
  match splitLastDot n with
  | some (b, a) => if b.isEmpty || a.isEmpty then [] else '.' :: a
  | .none => []

/-- the final component of a POSIX path (`PurePath.name`; the path of an existing file does not
end in `/`) -/
def pathName (p : Str) : Str := (p.reverse.takeWhile (· ≠ '/')).reverse

/-- How a definition reaches `convert`: an existing file (`str` / `PathLike`: its whole path `p`, of
any length, in any directory), `bytes`, a `BytesIO` whose stream position is `pos`, an open binary file at position `pos`, or
`str` text that is not a file name. -/
inductive Channel
  | path (p : Str)
  | bytes
  | bytesIO (pos : Nat)
  | file (pos : Nat)
  | text
  deriving Repr, DecidableEq

/-- `Definition` (709-713): `(data, file_type, file_path_stem)` -/
structure Definition where
  data : Str
  fileType : Option FileType
  stem : Option Str
  deriving Repr, DecidableEq

/-- `get_definition_data` (753-809): every channel is normalised to a `BytesIO`; only a path adds a
suffix hint and a stem.  A caller's `BytesIO` is passed through as it is and the readers use
`getvalue()` / zip seeking, so its position does not matter; any other stream is copied with
`definition.read()`, i.e. from its current position. -/
def getDefinitionData (ch : Channel) (content : Str) : Definition :=
  match ch with
  | .path p => ⟨content, FileType.ofSuffix (pathSuffix (pathName p)), some (pathStem (pathName p))⟩
  | .file pos => ⟨content.drop pos, .none, .none⟩
  | _ => ⟨content, .none, .none⟩

/-- processors in the order of `SupportedFileTypes.get_processors()` (regenerated table) -/
def allTypes : List FileType := Gen.fileTypeOrder.filterMap fun s => FileType.ofSuffix s.toList

/-- the text parsers; the binary ones are parameters (`bin`) -/
def parser (bin : FileType → Str → Except Err Book) : FileType → Str → Except Err Book
  | .md => mdToDict
  | .csv => csvToDict
  | t => bin t

def tryParsers (bin : FileType → Str → Except Err Book) (d : Str) : List FileType → Except Err Book
  | [] => .error .readError      -- "Argument 'definition' was not recognized as a supported type"
  | t :: ts => match parser bin t d with
    | .error .readError => tryParsers bin d ts
    | r => r

/-- the field names of `DefinitionData` that the parsed book may supply (`fallback_form_name` is passed
separately and filtered out) -/
def definitionFields : List Str :=
  (Gen.definitionDataFields.map String.toList).filter (· ≠ "fallback_form_name".toList)

/-- `{k: v for k, v in book.items() if k in fields}` before `DefinitionData(fallback_form_name=…, **data)`:
sheets that have nothing to do with XLSForm are dropped. -/
def toDefinition (b : Book) : Book := b.filter fun (k, _) => definitionFields.contains k

/-- `get_xlsform` / `definition_to_dict` (716-750, 812-823): explicit `file_type` wins over the
suffix hint; the result is the parsed book together with `fallback_form_name`. -/
def getXlsform (bin : FileType → Str → Except Err Book) (ch : Channel) (content : Str)
    (fileType : Option FileType) : Except Err (Book × Option Str) :=
  let d := getDefinitionData ch content
  let ft := match fileType with | some t => some t | .none => d.fileType
  let types := match ft with | some t => [t] | .none => allTypes
  match tryParsers bin d.data types with
  | .error e => .error e
  | .ok b => .ok (toDefinition b, d.stem)

end Pyxv.Backends
