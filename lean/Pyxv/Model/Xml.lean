import Pyxv.Model.Base
/-!
# XML: the DOM pyxform builds, its writer, and an XML 1.0 reader

Mirrors `pyxform/utils.py`:
* `DetachableElement.writexml` (lines 49-79)  → `render` on `.elem`
* `PatchedText.writexml` / `escape_text_for_xml` (82-96) → `escText`
* `xml.dom.minidom._write_data` (attribute values, and the text of nodes cloned from
  `parseString` in `node(..., toParseString=True)`) → `escAttr`
* `Survey._to_ugly_xml` / `_to_pretty_xml` (survey.py) → `renderDoc`

`parseDoc` is an independent XML 1.0 reader (declaration, PIs, comments, CDATA, the five
predefined entities, numeric character references, both quote styles, whitespace inside
tags, line-end and attribute-value normalisation).  It reads the *implementation's* output in
the checks and is the `parse` of the round-trip theorems in `Pyxv/Proofs/XmlRoundTrip.lean`.
-/
namespace Pyxv.Xml

inductive Node where
  /-- an element: tag, attributes in document order, children -/
  | elem (tag : Str) (attrs : List (Str × Str)) (kids : List Node)
  /-- a text node; `stock = true` for a `minidom.Text` cloned from `parseString`
      (its writer also escapes `"`), `false` for pyxform's `PatchedText` -/
  | text (stock : Bool) (s : Str)
deriving Repr, BEq, Inhabited

def escTextChar : Char → Str
  | '&' => ['&', 'a', 'm', 'p', ';']
  | '<' => ['&', 'l', 't', ';']
  | '>' => ['&', 'g', 't', ';']
  | c => [c]

def escAttrChar : Char → Str
  | '&' => ['&', 'a', 'm', 'p', ';']
  | '<' => ['&', 'l', 't', ';']
  | '>' => ['&', 'g', 't', ';']
  | '"' => ['&', 'q', 'u', 'o', 't', ';']
  | c => [c]

/-- `escape_text_for_xml`: `str.translate({"&": "&amp;", "<": "&lt;", ">": "&gt;"})` -/
def escText (s : Str) : Str := s.flatMap escTextChar
/-- minidom `_write_data` (Python 3.12.1): `& < " >` -/
def escAttr (s : Str) : Str := s.flatMap escAttrChar

def isText : Node → Bool
  | .text _ _ => true
  | .elem _ _ _ => false

def renderAttrs : List (Str × Str) → Str
  | [] => []
  | (k, v) :: rest => ' ' :: k ++ '=' :: '"' :: escAttr v ++ '"' :: renderAttrs rest

mutual
/-- `writexml(writer, indent, addindent, newl)` -/
def render (ind add nl : Str) : Node → Str
  | .text stock s => if stock then escAttr (ind ++ s ++ nl) else escText (ind ++ s ++ nl)
  | .elem tag attrs [] => ind ++ '<' :: tag ++ renderAttrs attrs ++ '/' :: '>' :: nl
  | .elem tag attrs (k :: ks) =>
    ind ++ '<' :: tag ++ renderAttrs attrs ++ '>' ::
      (if (k :: ks).any isText then
         -- text or mixed content: no indents or newlines; boundary spaces when > 1 child
         (if ks.isEmpty then [] else if isText k then [' '] else []) ++
         renderKids [] [] [] (k :: ks) ++
         (if ks.isEmpty then [] else [' '])
       else
         nl ++ renderKids (ind ++ add) add nl (k :: ks) ++ ind)
      ++ '<' :: '/' :: tag ++ '>' :: nl
def renderKids (ind add nl : Str) : List Node → Str
  | [] => []
  | k :: ks => render ind add nl k ++ renderKids ind add nl ks
end

def xmlDecl : Str := "<?xml version=\"1.0\"?>".toList

/-- `Survey._to_ugly_xml` (pretty = false) / `_to_pretty_xml` (pretty = true, indent two spaces) -/
def renderDoc (pretty : Bool) (n : Node) : Str :=
  if pretty then xmlDecl ++ '\n' :: render [] [' ', ' '] ['\n'] n
  else xmlDecl ++ render [] [] [] n

/-! ## Reader -/

def isXmlChar (c : Char) : Bool :=
  let n := c.toNat
  n == 9 || n == 10 || n == 13 || (0x20 ≤ n && n ≤ 0xD7FF) || (0xE000 ≤ n && n ≤ 0xFFFD) ||
  (0x10000 ≤ n && n ≤ 0x10FFFF)

def isWs (c : Char) : Bool := c == ' ' || c == '\t' || c == '\n' || c == '\r'

def nameStartChar (c : Char) : Bool :=
  let n := c.toNat
  c == ':' || c == '_' || ('A' ≤ c && c ≤ 'Z') || ('a' ≤ c && c ≤ 'z') ||
  (0xC0 ≤ n && n ≤ 0xD6) || (0xD8 ≤ n && n ≤ 0xF6) || (0xF8 ≤ n && n ≤ 0x2FF) ||
  (0x370 ≤ n && n ≤ 0x37D) || (0x37F ≤ n && n ≤ 0x1FFF) || (0x200C ≤ n && n ≤ 0x200D) ||
  (0x2070 ≤ n && n ≤ 0x218F) || (0x2C00 ≤ n && n ≤ 0x2FEF) || (0x3001 ≤ n && n ≤ 0xD7FF) ||
  (0xF900 ≤ n && n ≤ 0xFDCF) || (0xFDF0 ≤ n && n ≤ 0xFFFD) || (0x10000 ≤ n && n ≤ 0xEFFFF)

def nameChar (c : Char) : Bool :=
  let n := c.toNat
  nameStartChar c || c == '-' || c == '.' || ('0' ≤ c && c ≤ '9') || n == 0xB7 ||
  (0x300 ≤ n && n ≤ 0x36F) || (0x203F ≤ n && n ≤ 0x2040)

/-- longest prefix of name characters -/
def takeName : Str → Str × Str
  | [] => ([], [])
  | c :: cs => if nameChar c then let (n, r) := takeName cs; (c :: n, r) else ([], c :: cs)

def isName (s : Str) : Bool :=
  match s with
  | [] => false
  | c :: cs => nameStartChar c && cs.all nameChar

def skipWs : Str → Str
  | [] => []
  | c :: cs => if isWs c then skipWs cs else c :: cs

def hexVal (c : Char) : Option Nat :=
  if '0' ≤ c ∧ c ≤ '9' then some (c.toNat - 48)
  else if 'a' ≤ c ∧ c ≤ 'f' then some (c.toNat - 87)
  else if 'A' ≤ c ∧ c ≤ 'F' then some (c.toNat - 55)
  else none

/-- digits up to `;` in the given base; returns (value, rest after `;`) -/
def takeNum (base : Nat) : Nat → Bool → Str → Option (Nat × Str)
  | acc, seen, ';' :: r => if seen then some (acc, r) else none
  | acc, _, c :: r =>
    match hexVal c with
    | some d => if d < base then takeNum base (acc * base + d) true r else none
    | none => none
  | _, _, [] => none

/-- after `&`: one reference; returns (character, rest) -/
def takeRef : Str → Option (Char × Str)
  | 'a' :: 'm' :: 'p' :: ';' :: r => some ('&', r)
  | 'l' :: 't' :: ';' :: r => some ('<', r)
  | 'g' :: 't' :: ';' :: r => some ('>', r)
  | 'q' :: 'u' :: 'o' :: 't' :: ';' :: r => some ('"', r)
  | 'a' :: 'p' :: 'o' :: 's' :: ';' :: r => some ('\'', r)
  | '#' :: 'x' :: r =>
    match takeNum 16 0 false r with
    | some (n, r') => let c := Char.ofNat n; if n ≠ 0 ∧ c.toNat = n ∧ isXmlChar c then some (c, r') else none
    | none => none
  | '#' :: r =>
    match takeNum 10 0 false r with
    | some (n, r') => let c := Char.ofNat n; if n ≠ 0 ∧ c.toNat = n ∧ isXmlChar c then some (c, r') else none
    | none => none
  | _ => none

/-- character data up to the next `<` (references resolved, line ends normalised,
    `]]>` and non-XML characters rejected); fuel ≥ length of the input suffices -/
def takeText : Nat → Str → Option (Str × Str)
  | 0, _ => none
  | _ + 1, [] => some ([], [])
  | _ + 1, '<' :: r => some ([], '<' :: r)
  | fuel + 1, '&' :: r =>
    match takeRef r with
    | some (c, r') =>
      match takeText fuel r' with
      | some (t, r'') => some (c :: t, r'')
      | none => none
    | none => none
  | _ + 1, ']' :: ']' :: '>' :: _ => none
  | fuel + 1, '\r' :: '\n' :: r =>
    match takeText fuel r with
    | some (t, r') => some ('\n' :: t, r')
    | none => none
  | fuel + 1, '\r' :: r =>
    match takeText fuel r with
    | some (t, r') => some ('\n' :: t, r')
    | none => none
  | fuel + 1, c :: r =>
    if isXmlChar c then
      match takeText fuel r with
      | some (t, r') => some (c :: t, r')
      | none => none
    else none

/-- attribute value up to the closing quote `q` (references resolved, whitespace normalised to
    spaces, `<` rejected); fuel ≥ length of the input suffices -/
def takeAttrVal (q : Char) : Nat → Str → Option (Str × Str)
  | 0, _ => none
  | _ + 1, [] => none
  | fuel + 1, c :: r =>
    if c = q then some ([], r)
    else if c = '<' then none
    else if c = '&' then
      match takeRef r with
      | some (d, r') =>
        match takeAttrVal q fuel r' with
        | some (t, r'') => some (d :: t, r'')
        | none => none
      | none => none
    else if c = '\r' then
      match r with
      | '\n' :: r' =>
        match takeAttrVal q fuel r' with
        | some (t, r'') => some (' ' :: t, r'')
        | none => none
      | _ =>
        match takeAttrVal q fuel r with
        | some (t, r') => some (' ' :: t, r')
        | none => none
    else if c = '\t' ∨ c = '\n' then
      match takeAttrVal q fuel r with
      | some (t, r') => some (' ' :: t, r')
      | none => none
    else if isXmlChar c then
      match takeAttrVal q fuel r with
      | some (t, r') => some (c :: t, r')
      | none => none
    else none

/-- attributes of a start tag; stops at `>` or `/>`; returns (attrs, selfClosing, rest) -/
def takeAttrs : Nat → Str → Option (List (Str × Str) × Bool × Str)
  | 0, _ => none
  | fuel + 1, inp =>
    match skipWs inp with
    | '>' :: r => some ([], false, r)
    | '/' :: '>' :: r => some ([], true, r)
    | r0 =>
      -- an attribute must be preceded by whitespace
      if r0.length = inp.length then none else
      match takeName r0 with
      | ([], _) => none
      | (k, r1) =>
        if !isName k then none else
        match skipWs r1 with
        | '=' :: r2 =>
          match skipWs r2 with
          | q :: r3 =>
            if q = '"' ∨ q = '\'' then
              match takeAttrVal q (r3.length + 1) r3 with
              | some (v, r4) =>
                match takeAttrs fuel r4 with
                | some (rest, sc, r5) => some ((k, v) :: rest, sc, r5)
                | none => none
              | none => none
            else none
          | [] => none
        | _ => none

/-- skip to just after the terminator `t0 t1 t2` (comments: `-->`, PIs: `?>` via `skipPI`) -/
def skipComment : Str → Option Str
  | '-' :: '-' :: '>' :: r => some r
  | '-' :: '-' :: _ => none            -- `--` is not allowed inside a comment
  | c :: r => if isXmlChar c then skipComment r else none
  | [] => none

def skipPI : Str → Option Str
  | '?' :: '>' :: r => some r
  | c :: r => if isXmlChar c then skipPI r else none
  | [] => none

/-- after `<?`: the PI target is a name other than `xml` (any case; XML 1.0 §2.6 reserves it for
    the declaration, which `skipDecl` reads at the very start only), followed by white space or `?>` -/
def piTargetOk (r : Str) : Bool :=
  match takeName r with
  | (t, rest) =>
    isName t && lowerAscii t != ['x', 'm', 'l'] &&
    (match rest with
     | '?' :: '>' :: _ => true
     | c :: _ => isWs c
     | [] => false)

def takeCData : Str → Option (Str × Str)
  | ']' :: ']' :: '>' :: r => some ([], r)
  | '\r' :: '\n' :: r => match takeCData r with | some (t, r') => some ('\n' :: t, r') | none => none
  | '\r' :: r => match takeCData r with | some (t, r') => some ('\n' :: t, r') | none => none
  | c :: r =>
    if isXmlChar c then match takeCData r with | some (t, r') => some (c :: t, r') | none => none
    else none
  | [] => none

def attrKeysNodup : List (Str × Str) → Bool
  | [] => true
  | (k, _) :: rest => !(rest.any fun p => p.1 == k) && attrKeysNodup rest

mutual
/-- one content item at the head of the input: element, comment/PI (`none` node), CDATA or text -/
def pNode : Nat → Str → Option (Option Node × Str)
  | 0, _ => none
  | _ + 1, '<' :: '!' :: '-' :: '-' :: r =>
    match skipComment r with
    | some r' => some (none, r')
    | none => none
  | _ + 1, '<' :: '!' :: '[' :: 'C' :: 'D' :: 'A' :: 'T' :: 'A' :: '[' :: r =>
    match takeCData r with
    | some (t, r') => some (some (.text false t), r')
    | none => none
  | _ + 1, '<' :: '?' :: r =>
    if !piTargetOk r then none else
    match skipPI r with
    | some r' => some (none, r')
    | none => none
  | fuel + 1, '<' :: r =>
    match takeName r with
    | ([], _) => none
    | (tag, r1) =>
      if !isName tag then none else
      match takeAttrs (r1.length + 1) r1 with
      | some (attrs, true, r2) => if attrKeysNodup attrs then some (some (.elem tag attrs []), r2) else none
      | some (attrs, false, r2) =>
        if !attrKeysNodup attrs then none else
        match pNodes fuel r2 with
        | some (kids, '<' :: '/' :: r3) =>
          match takeName r3 with
          | (tag', r4) =>
            match skipWs r4 with
            | '>' :: r5 => if tag' = tag then some (some (.elem tag attrs kids), r5) else none
            | _ => none
        | _ => none
      | none => none
  | _ + 1, [] => none
  | _ + 1, c :: r =>
    match takeText (r.length + 2) (c :: r) with
    | some (t, r') => some (some (.text false t), r')
    | none => none
/-- content items until `</` or end of input -/
def pNodes : Nat → Str → Option (List Node × Str)
  | 0, _ => none
  | _ + 1, [] => some ([], [])
  | _ + 1, '<' :: '/' :: r => some ([], '<' :: '/' :: r)
  | fuel + 1, inp =>
    match pNode fuel inp with
    | some (k, r) =>
      match pNodes fuel r with
      | some (ks, r') =>
        match k with
        | some n => some (n :: ks, r')
        | none => some (ks, r')
      | none => none
    | none => none
end

/-- merge adjacent text nodes and drop empty ones (what a DOM/SAX reader reports) -/
def mergeText : List Node → List Node
  | [] => []
  | .text _ [] :: rest => mergeText rest
  | .text _ a :: rest =>
    match mergeText rest with
    | .text _ b :: rest' => .text false (a ++ b) :: rest'
    | rest' => .text false a :: rest'
  | n :: rest => n :: mergeText rest

mutual
def normNode : Node → Node
  | .elem t a ks => .elem t a (mergeText (normKids ks))
  | .text _ s => .text false s
def normKids : List Node → List Node
  | [] => []
  | k :: ks => normNode k :: normKids ks
end

/-- skip whitespace, comments and PIs around the root element -/
def skipMisc : Nat → Str → Option Str
  | 0, _ => none
  | fuel + 1, inp =>
    match skipWs inp with
    | '<' :: '!' :: '-' :: '-' :: r => match skipComment r with | some r' => skipMisc fuel r' | none => none
    | '<' :: '?' :: r =>
      if !piTargetOk r then none else match skipPI r with | some r' => skipMisc fuel r' | none => none
    | r => some r

/-- `<?xml version="1.0" …?>` (optional) -/
def skipDecl : Str → Option Str
  | '<' :: '?' :: 'x' :: 'm' :: 'l' :: c :: r =>
    if isWs c then skipPI r else some ('<' :: '?' :: 'x' :: 'm' :: 'l' :: c :: r)   -- e.g. `<?xml-stylesheet …?>`: an ordinary PI
  | r => some r

/-- a whole document: the root element (children text-merged) -/
def parseDoc (inp : Str) : Option Node :=
  let fuel := inp.length + 2
  match skipDecl inp with
  | none => none
  | some r0 =>
    match skipMisc fuel r0 with
    | some ('<' :: r1) =>
      match r1 with
      | '!' :: _ => none              -- DOCTYPE (or stray markup): rejected
      | _ =>
        match pNode fuel ('<' :: r1) with
        | some (some (.elem t a ks), r2) =>
          match skipMisc fuel r2 with
          | some [] => some (normNode (.elem t a ks))
          | _ => none
        | _ => none
    | _ => none

/-! ## Namespaces -/

def splitQName (s : Str) : Option Str × Str :=
  match splitOnChar ':' s with
  | [p, l] => (some p, l)
  | _ => (none, s)

/-- a QName: at most one colon, non-empty NCName parts -/
def isQName (s : Str) : Bool :=
  match splitOnChar ':' s with
  | [l] => isName l
  | [p, l] => isName p && isName l
  | _ => false

def declaredPrefixes (attrs : List (Str × Str)) : List Str :=
  attrs.filterMap fun (k, _) =>
    match splitOnChar ':' k with
    | [x, p] => if x = "xmlns".toList then some p else none
    | _ => none

mutual
/-- every element and attribute prefix is bound by an `xmlns:p` declaration in scope
    (`xml` and `xmlns` are predeclared); names are QNames -/
def prefixesBound (scope : List Str) : Node → Bool
  | .text _ _ => true
  | .elem tag attrs kids =>
    let scope' := declaredPrefixes attrs ++ scope
    let ok (q : Str) : Bool :=
      isQName q &&
      match splitQName q with
      | (some p, _) => p = "xml".toList || p = "xmlns".toList || scope'.contains p
      | (none, _) => true
    ok tag && attrs.all (fun kv => ok kv.1) && prefixesBoundKids scope' kids
def prefixesBoundKids (scope : List Str) : List Node → Bool
  | [] => true
  | k :: ks => prefixesBound scope k && prefixesBoundKids scope ks
end

/-! ## Whitespace-insensitive comparison (C15) -/

def isWsOnly (s : Str) : Bool := s.all isWs

mutual
/-- drop whitespace-only text children of elements that have an element child and no
    non-whitespace text child ("whitespace-only text between elements") -/
def stripWs : Node → Node
  | .text k s => .text k s
  | .elem t a ks =>
    let ks' := stripWsKids ks
    let hasElem := ks.any fun k => !isText k
    let hasRealText := ks.any fun k => match k with | .text _ s => !isWsOnly s | _ => false
    if hasElem && !hasRealText then .elem t a (ks'.filter fun k => !isText k) else .elem t a ks'
def stripWsKids : List Node → List Node
  | [] => []
  | k :: ks => stripWs k :: stripWsKids ks
end

end Pyxv.Xml
