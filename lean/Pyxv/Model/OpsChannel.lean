import Pyxv.Model.Json
import Pyxv.Model.Channel
/-! Driver operations for the text-channel model (C06). -/
namespace Pyxv.Chan
open Lean Pyxv.Xml

def opsChannel (op : String) (j : Json) : Option (Except String Json) :=
  match op with
  | "chan.run" => some do
      let kind ← getStr j "kind"
      let tag ← getStr j "tag"
      let s ← getStr j "s"
      let refs ← pairList (← j.getObjVal? "refs")
      let xmlOf (n : Node) : Json := jstr (render [] [] [] n)
      match String.ofList kind with
      | "text" => pure (Json.mkObj [("xml", xmlOf (nodeText tag s))])
      | "attr" => pure (Json.mkObj [("xml", xmlOf (nodeAttr tag (getStrD j "attr" "v") s))])
      | "attrx" =>
        match insertXpaths refs s with
        | some v => pure (Json.mkObj [("xml", xmlOf (nodeAttr tag (getStrD j "attr" "v") v)), ("value", jstr v)])
        | none => pure (Json.mkObj [("err", "pyxform")])
      | "mixed" =>
        let ins := insertOutputValues refs s
        match ins, mixedChannel refs tag s with
        | .ok (x, ch), .ok n =>
          pure (Json.mkObj [("xml", xmlOf n), ("inserted", jstr x), ("changed", Json.bool ch)])
        | _, .pyxformError => pure (Json.mkObj [("err", "pyxform")])
        | _, .reparseError => pure (Json.mkObj [("err", "reparse")])
        | _, .unsupported w => pure (Json.mkObj [("unsupported", Json.str w)])
        | _, _ => throw "inconsistent outcome"
      | k => throw s!"unknown channel kind {k}"
  | "chan.validchars" => some do
      let s ← getStr j "s"
      pure (Json.bool (validChars s))
  | _ => none

end Pyxv.Chan
