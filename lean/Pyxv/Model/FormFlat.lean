import Pyxv.Model.Json
import Pyxv.Model.Rows
/-!
# Row-level `flat` groups (C02 growth)

A `begin group` row whose `flat` cell is non-empty becomes a `GroupedSection(flat=…)` (the cell is copied
verbatim into the section dict; any non-empty string is truthy).  In the current code (after fix commits
`eaf6d76`, `ce2cfa5`):

* `Section.xml_instance` / `xml_instance_array` (section.py 127-181): a flat group contributes **no instance
  node**; its children are spliced in at the parent's level (recursively through nested flat groups);
* `SurveyElement.get_xpath` (survey_element.py 255-282): a flat group contributes **no path segment**;
* `SurveyElement.xml_bindings` (survey_element.py 555-557): a flat group has **no bind**;
* `GroupedSection.xml_control` (section.py 286-291): a flat group's `<group>` carries **no ref**;
* `Section._instance_level_children` / `_validate_uniqueness_of_element_names` (section.py 105-122): sibling
  uniqueness **looks through** flat groups; `Survey._validate_uniqueness_of_section_names` still counts the
  flat group's own name.

The model keeps the flag on the section (`FItem.sec … flat kids`), parses rows with the same begin/end stack as
`Form.step`, and expresses the four "contributes nothing" facts by one function, `liftL`, that splices the
children of every flat group into the parent's level: instance, bind nodesets and body refs of the flat-aware
tree are those of `Form.instanceOf` / `bindPathsL` / `bodyPathsL` on the lifted tree.

Guards (answer `unsupported`): a flat group inside a repeat or containing a repeat (open finding
C02-flat-group-in-repeat: `generate_repeating_template` does not look through flat groups), `flat` on a row
that is not `begin group`, and generated `*_count` helpers.
-/
namespace Pyxv.FormFlat
open Pyxv Pyxv.Form Pyxv.Rows

inductive FItem where
  | q (d : QData)
  | sec (ct : Ctl) (name : Str) (bind : Bool) (flat : Bool) (kids : List FItem)
deriving Repr, Inhabited

structure FFrame where
  ct : Ctl
  name : Str
  bind : Bool
  flat : Bool
  kids : List FItem
deriving Repr

abbrev FSt := List FItem × List FFrame

def fpush (t : FItem) : FSt → FSt
  | (root, []) => (root ++ [t], [])
  | (root, f :: fs) => (root, { f with kids := f.kids ++ [t] } :: fs)

def fpushOpt (t : Option QData) (st : FSt) : FSt :=
  match t with
  | some d => fpush (.q d) st
  | none => st

/-- `Form.step` with the row's `flat` flag kept on the frame -/
def fstep (st : FSt) (n : Nat) (flat : Bool) : RowK → Except Err FSt
  | .skip => .ok st
  | .bad e => .error (.row n e)
  | .q d other => .ok (fpushOpt other (fpush (.q d) st))
  | .begin_ ct name bind helper =>
    let (root, fs) := fpushOpt helper st
    .ok (root, ⟨ct, name, bind, flat, []⟩ :: fs)
  | .end_ ct =>
    match st with
    | (_, []) => .error (.unmatchedEnd n)
    | (root, f :: fs) =>
      if f.ct = ct then .ok (fpush (.sec f.ct f.name f.bind f.flat f.kids) (root, fs))
      else .error (.unmatchedEnd n)

def frun : FSt → List (Nat × Bool × RowK) → Except Err FSt
  | st, [] => .ok st
  | st, (n, fl, r) :: rs =>
    match fstep st n fl r with
    | .ok st' => frun st' rs
    | .error e => .error e

def fparse (rows : List (Nat × Bool × RowK)) : Except Err (List FItem) :=
  match frun ([], []) rows with
  | .ok (root, []) => .ok root
  | .ok (_, f :: _) => .error (.unmatchedBegin f.ct f.name)
  | .error e => .error e

/-! ## Lifting: the instance-level view of the tree -/

mutual
/-- a flat group is replaced by its (lifted) children; everything else keeps its place -/
def liftItem : FItem → List Item
  | .q d => [.q d]
  | .sec ct n b fl ks => if fl then liftL ks else [.sec ct n b (liftL ks)]
def liftL : List FItem → List Item
  | [] => []
  | k :: ks => liftItem k ++ liftL ks
end

mutual
/-- names of all sections, flat ones included (`iter_descendants(isinstance Section)`) -/
def secNames : FItem → List Str
  | .q _ => []
  | .sec _ n _ _ ks => n :: secNamesL ks
def secNamesL : List FItem → List Str
  | [] => []
  | k :: ks => secNames k ++ secNamesL ks
end

mutual
/-- every question satisfies `bind → node` and `control → node` (what `Rows.classify` produces) -/
def wfItem : FItem → Bool
  | .q d => (!d.bind || d.node) && (!d.control || d.node)
  | .sec _ _ _ _ ks => wfFL ks
def wfFL : List FItem → Bool
  | [] => true
  | k :: ks => wfItem k && wfFL ks
end

mutual
/-- no flat section inside a repeat (`inRep`), no repeat inside a flat group (`inFlat`), `flat` only on groups -/
def safeItem (inRep inFlat : Bool) : FItem → Bool
  | .q _ => true
  | .sec ct _ _ fl ks =>
    (!fl || (ct == .group && !inRep)) && (!(ct == .rep) || (!inFlat && !fl)) &&
      safeL (inRep || ct == .rep) (inFlat || fl) ks
def safeL (inRep inFlat : Bool) : List FItem → Bool
  | [] => true
  | k :: ks => safeItem inRep inFlat k && safeL inRep inFlat ks
end

mutual
/-- some section (flat or not) has no children: `Section.validate` rejects it ("has no questions or groups inside it",
    section.py 76-83) -/
def emptySec : FItem → Bool
  | .q _ => false
  | .sec _ _ _ _ ks => ks.isEmpty || emptySecL ks
def emptySecL : List FItem → Bool
  | [] => false
  | k :: ks => emptySec k || emptySecL ks
end

/-- `flat` cell of a row: any non-empty value is truthy in Python -/
def flatCell (r : Cells) : Bool :=
  match get r "flat" with
  | some v => !v.isEmpty
  | none => false

def dropFlat (r : Cells) : Cells := r.filter fun kv => kv.1 ≠ "flat".toList

def flagRows : List Cells → List (Nat × RowK) → List (Nat × Bool × RowK)
  | r :: rs, (n, k) :: ks => (n, flatCell r, k) :: flagRows rs ks
  | _, _ => []

/-- a `flat` cell on a row that is not `begin group` -/
def strayFlat : List (Nat × Bool × RowK) → Bool
  | [] => false
  | (_, _, .begin_ .group _ _ _) :: rest => strayFlat rest
  | (_, fl, _) :: rest => fl || strayFlat rest

def withMetaF (rows : List Cells) (settings : Cells) (items : List FItem) : List FItem :=
  let mk := metaKids rows settings
  if mk.isEmpty then items else items ++ [FItem.sec .group "meta".toList false false (mk.map FItem.q)]

structure FlatOut where
  items : List FItem
  inst : NT
  binds : List (List Str)
  body : List (List Str)
deriving Repr

/-- the structural pipeline with row-level `flat` groups -/
def formOutFlat (root : Str) (lists : List Str) (rows : List Cells) (settings : Cells) : Except FormErr FlatOut :=
  let rows' := rows.map dropFlat
  match classifyAll lists 2 rows' with
  | .error w => .error (.unsupported w)
  | .ok ks =>
    let fks := flagRows rows ks
    if strayFlat fks then .error (.unsupported "flat on a row that is not begin group") else
    if !(helperNames ks).isEmpty then .error (.unsupported "flat with repeat count helper") else
    match fparse fks with
    | .error e => .error (.err e)
    | .ok items =>
      match unknownTypeRows lists 2 rows' with
      | n :: _ => .error (.unknownType n)
      | [] =>
        let all := withMetaF rows' settings items
        if !(safeL false false all) then .error (.unsupported "flat group inside / around a repeat") else
        if !(wfFL all) then .error (.unsupported "ill-formed question data") else
        if emptySecL all then .error (.err (.row 0 (.other "empty section".toList))) else
        match validateKids root (liftL all) with
        | .error e => .error (.err e)
        | .ok () =>
          match firstDupStr [] (root :: secNamesL all) with
          | some s => .error (.err (.dupSection s))
          | none =>
            .ok { items := items, inst := instanceOf root (liftL all), binds := bindPathsL [root] (liftL all),
                  body := bodyPathsL [root] (liftL items) }

/-! ## Code-shaped bind nodesets and body refs

`get_xpath` drops the segment of every flat ancestor (and of a flat element itself); `xml_bindings` returns nothing
for a flat group; `GroupedSection.xml_control` gives a flat group's `<group>` no `ref`.  These two functions walk the
flat-aware tree the way the code does; `Pyxv.C02.bindPathsFL_eq_lift` / `bodyPathsFL_eq_lift` prove them equal to the
paths of the lifted tree, for every tree. -/

mutual
def bindPathsF (pre : List Str) : FItem → List (List Str)
  | .q d => if d.bind then [pre ++ [d.name]] else []
  | .sec _ n b fl ks =>
    if fl then bindPathsFL pre ks else (if b then [pre ++ [n]] else []) ++ bindPathsFL (pre ++ [n]) ks
def bindPathsFL (pre : List Str) : List FItem → List (List Str)
  | [] => []
  | k :: ks => bindPathsF pre k ++ bindPathsFL pre ks
end

mutual
def bodyPathsF (pre : List Str) : FItem → List (List Str)
  | .q d => if d.control then [pre ++ [d.name]] else []
  | .sec ct n _ fl ks =>
    if fl then bodyPathsFL pre ks
    else if ct = .rep then (pre ++ [n]) :: (pre ++ [n]) :: bodyPathsFL (pre ++ [n]) ks
    else (pre ++ [n]) :: bodyPathsFL (pre ++ [n]) ks
def bodyPathsFL (pre : List Str) : List FItem → List (List Str)
  | [] => []
  | k :: ks => bodyPathsF pre k ++ bodyPathsFL pre ks
end

/-- what the driver reports: instance of the lifted tree, code-shaped bind nodesets and body refs -/
def shapeOut (root : Str) (rows : List Cells) (settings : Cells) (o : FlatOut) : FlatOut :=
  { o with binds := bindPathsFL [root] (withMetaF (rows.map dropFlat) settings o.items),
           body := bodyPathsFL [root] o.items }

/-! ## Driver op -/
open Lean in
partial def ntJ : NT → Json
  | .node n t ks => Json.mkObj [("n", jstr n), ("t", Json.bool t), ("k", Json.arr (ks.map ntJ).toArray)]

open Lean in
def flatModel (root : Str) (lists : List Str) (rows : List Cells) (settings : Cells) : Json :=
  let pj (ps : List (List Str)) : Json := Json.arr (ps.map fun p => jstr (xpathStr p)).toArray
  match formOutFlat root lists rows settings with
  | .error (.unsupported w) => Json.mkObj [("outcome", "unsupported"), ("why", Json.str w)]
  | .error (.err e) => Json.mkObj [("outcome", "error"), ("err", Json.str (reprStr e))]
  | .error (.unknownType n) => Json.mkObj [("outcome", "error"), ("err", Json.str s!"unknownType {n}")]
  | .ok o0 =>
    let o := shapeOut root rows settings o0
    Json.mkObj [("outcome", "ok"), ("instance", ntJ o.inst), ("binds", pj o.binds), ("body", pj o.body),
      ("closed", Json.bool ((o.binds ++ o.body).all (resolves o.inst)))]

open Lean in
def opsFlat (op : String) (j : Json) : Option (Except String Json) :=
  match op with
  | "flat.model_lifted" => some do
      let rows ← (← getArr j "rows").toList.mapM pairList
      let lists ← getStrList j "lists"
      let settings ← pairList (← j.getObjVal? "settings")
      pure (flatModel (getStrD j "root" "data") lists rows settings)
  | _ => none

end Pyxv.FormFlat
