import Pyxv.Model.ItextOutput
import Pyxv.Model.Refs
/-!
# ItextOutputRepeat: the `<value>` DOM of itext texts whose element sits at or below a repeat

`Pyxv.ItextOut` leaves a value unstated when the element owning the text is at or below a repeat, because
`_var_repl_function(matchobj, context)` (survey.py:1146-1264) may then return a *relative* path.  That decision is
C03's model `Refs.refFor` (proved in `Pyxv.Proofs.C03`).  This file composes the two:

* the survey tree as C03's list of chains (`iter_descendants`, names and kinds)            → `chainsOf`, `els`
* the element owning the text id `p` (`"output_context": self`, survey_element.py:379-461) → `ctxOf`
* `_var_repl_function` with `context=<that element>`, `use_current=False`, `reference_parent=False`, for every
  name of `_setup_xpath_dictionary`: `Refs.refFor (els x) (some c) name {}`                  → `refPath`, `ctxRefs`
* `itext()` per content type with that per-element reference table                          → `domEntryR`, `outDomsR`

Guards of the repeat context (such values stay unstated: `none`): the text holds `last-saved#` (the marker is
resolved by `Chan.varRepl` from the same table entry, which is wrong for a relative entry), `indexed-repeat(`
(`Refs.Flags.indexedArg` is lexer-level) or `instance` (`_in_secondary_instance_predicate` ⇒ `current()/`), or the
id has no unique owner (element names holding a colon).
-/
namespace Pyxv.ItextOut
open Pyxv Pyxv.Itext Pyxv.Xml

def kindOf : Cls → Refs.Kind
  | .repeat => .rep
  | .group => .group
  | _ => .q

mutual
/-- `iter_descendants` with the lineage as C03's chain (tags of an osm question are not in `_xpath`) -/
def chainsOf (pre : Refs.Chain) : Elem → List (Refs.Chain × ElemD)
  | .node d kids => (pre ++ [(d.name, kindOf d.cls)], d) :: chainsOfL (pre ++ [(d.name, kindOf d.cls)]) kids
def chainsOfL (pre : Refs.Chain) : List Elem → List (Refs.Chain × ElemD)
  | [] => []
  | e :: es => chainsOf pre e ++ chainsOfL pre es
end

/-- the chains of `_setup_xpath_dictionary`'s walk: survey root first, `Question | Section` only -/
def els (x : Survey) : List Refs.Chain :=
  match chainsOf [] x.root with
  | r :: rest => r.1 :: (rest.filter fun cd => cd.2.cls != .inert && cd.2.cls != .tag).map (·.1)
  | [] => []

/-- the element owning text id `p` = `xpath:display`; `none` unless exactly one element qualifies -/
def ctxOf (x : Survey) (p : Str) : Option Refs.Chain :=
  match ((chainsOf [] x.root).drop 1).filter fun cd => startsWith p (cd.1.xpath ++ [':']) with
  | [cd] => some cd.1
  | _ => none

/-- the path `_var_repl_function(m, context=c)` puts between the blanks for `${name}` -/
def refPath (es : List Refs.Chain) (c : Refs.Chain) (name : Str) : Option Str :=
  match Refs.refFor es (some c) name {} with
  | .ok _ e => some e.render
  | _ => none

/-- reference table of one context element: every resolving name with C03's emitted path -/
def ctxRefsOf (es : List Refs.Chain) (c : Refs.Chain) : List (Str × Str) :=
  (Refs.setupXpathDict es).filterMap fun kv => (refPath es c kv.1).map fun r => (kv.1, r)

def ctxRefs (x : Survey) (c : Refs.Chain) : List (Str × Str) := ctxRefsOf (els x) c

/-- the texts whose repeat-context substitution is inside the model -/
def repText (t : Str) : Bool :=
  !isInfix "last-saved#".toList t && !isInfix "indexed-repeat(".toList t && !isInfix "instance".toList t

/-- the reference table `itext()` substitutes with for text `t` under id `p`; `none` = not stated -/
def refsFor (x : Survey) (p t : Str) : Option (List (Str × Str)) :=
  if stated x p || !isInfix "${".toList t then some (nameRefs x)
  else if repText t then (ctxOf x p).map (ctxRefs x)
  else none

def domEntryR (x : Survey) (p : Str) (fb : Str × Str) : Option (Option Str × Option (Chan.Outcome Node)) :=
  match refsFor x p fb.2 with
  | some refs => domEntry refs true p fb
  | none => domEntry (nameRefs x) false p fb

/-- the itext block at DOM level, repeat contexts included -/
def outDomsR (x : Survey) : List (Str × List TextDoms) :=
  (table x).map fun lps => (lps.1, lps.2.map fun pf => (pf.1, pf.2.filterMap (domEntryR x pf.1)))

end Pyxv.ItextOut
