import Pyxv.Model.Json
import Pyxv.Model.Assemble
/-! Driver operations for the document-assembly model and the C01 oracle. -/
namespace Pyxv.Asm
open Lean Pyxv.Xml

def fieldsOfJson (j : Json) : Except String Fields := do
  let attrib0 ← match j.getObjVal? "attribute" with
    | .ok v => pairList v
    | .error _ => pure []
  let inst0 ← match j.getObjVal? "instance" with
    | .ok v => pairList v
    | .error _ => pure []
  pure {
    instAttrs := inst0,
    name := getStrD j "name" "data", title := getStrD j "title" "", idString := getStrD j "id_string" "",
    namespaces := getStrD j "namespaces" "", entityFeatures := getBoolD j "entity_features" false,
    style := getStrD j "style" "", attrib := attrib0, instanceXmlns := getStrD j "instance_xmlns" "",
    version := getStrD j "version" "", pfx := getStrD j "prefix" "", delimiter := getStrD j "delimiter" "",
    submissionUrl := getStrD j "submission_url" "", publicKey := getStrD j "public_key" "",
    autoSend := getStrD j "auto_send" "", autoDelete := getStrD j "auto_delete" "" }

def nodeList (j : Json) (k : String) : Except String (List Node) := do
  let a ← getArr j k
  a.toList.mapM nodeOfJson

def optJson (o : Option Str) : Json := match o with | some s => jstr s | none => Json.null

def opsAsm (op : String) (j : Json) : Option (Except String Json) :=
  match op with
  | "xml.c01" => some do
      -- the C01 oracle on a document: parse ∧ prefixes bound ∧ skeleton (∧ root id = fid)
      let s ← getStr j "text"
      let fid ← getStr j "fid"
      match parseDoc s with
      | some n => pure (Json.mkObj [("ok", true), ("bound", prefixesBound [] n), ("declsOk", declsOk n), ("skeleton", Skeleton n fid),
                   ("holds", holds s fid), ("rootId", optJson (rootId n)), ("frame", nodeToJson (frame n)),
                   ("tree", if getBoolD j "tree" false then nodeToJson n else Json.null)])
      | none => pure (Json.mkObj [("ok", false), ("holds", holds s fid)])
  | "asm.doc" => some do
      -- the model: fields + opaque parts → document → Lean writer → Lean reader → frame
      let f ← fieldsOfJson (← j.getObjVal? "fields")
      let itext ← match j.getObjVal? "itext" with
        | .ok (.arr a) => do let ks ← a.toList.mapM nodeOfJson; pure (some ks)
        | _ => pure none
      let rootKids ← nodeList j "rootKids"
      let rest ← nodeList j "rest"
      let body ← nodeList j "body"
      let doc := assemble f itext rootKids rest body
      let text := renderDoc (getBoolD j "pretty" false) doc
      let fid ← getStr j "fid"
      match parseDoc text with
      | some n => pure (Json.mkObj [("ok", true), ("bound", prefixesBound [] n), ("skeleton", Skeleton n fid),
                   ("rootId", optJson (rootId n)), ("frame", nodeToJson (frame n)),
                   ("text", if getBoolD j "wantText" false then jstr text else Json.null)])
      | none => pure (Json.mkObj [("ok", false)])
  | "asm.valid" => some do
      -- the model's verdict on the whole conversion tail: fields + (deep) parts → assemble → validate_xml_document
      let f ← fieldsOfJson (← j.getObjVal? "fields")
      let itext ← match j.getObjVal? "itext" with
        | .ok (.arr a) => do let ks ← a.toList.mapM nodeOfJson; pure (some ks)
        | _ => pure none
      let rootKids ← nodeList j "rootKids"
      let rest ← nodeList j "rest"
      let body ← nodeList j "body"
      pure (Json.mkObj [("valid", validDoc [] (assemble f itext rootKids rest body))])
  | "xml.validdoc" => some do
      -- the model of validate_xml_document on a DOM tree, and what the XML spec says about the same tree
      let n ← nodeOfJson (← j.getObjVal? "tree")
      pure (Json.mkObj [("valid", validDoc [] n), ("bound", prefixesBound [] n), ("declsOk", declsOk n)])
  | "xml.isname" => some do
      let s ← getStr j "s"
      pure (Json.mkObj [("isName", isName s), ("isQName", isQName s), ("isXmlTag", Pyxv.Rows.isXmlTag s)])
  | "asm.nsmap" => some do
      let f ← fieldsOfJson (← j.getObjVal? "fields")
      pure (pairsToJson (getNsmap f))
  | _ => none

end Pyxv.Asm
