import Pyxv.Model.ToJson
/-!
# FromJson: the builder's reading of an element dict (`builder.create_survey_element_from_dict`)

Modelled fragment (anything else is `none` = unsupported, said by the model itself):
sections (`survey`, `group`, `repeat`: `_create_section_from_dict`, builder.py:203-224, incl. the
survey title rule `d[TITLE] = d[NAME]` and the two trigger tables the builder installs) and questions
(`_create_question_from_dict`, builder.py:131-164; `Question.__init__`'s type-table merge,
question.py:104-135: dict-valued defaults are templates updated by the given dict and remembered in
`_qtd_kwargs`, other defaults are used when the key is absent; `_get_question_class`;
`MultipleChoiceQuestion.__init__`'s itemset/list_name requirement).  Outside the fragment: survey
`choices` and selects that carry their options (`children`/`choices` on a question), `trigger`
(the trigger tables are then non-empty), `add_none_option`, loop / include / xml-external /
csv-external / entity / osm elements, elements whose `name` is not a non-empty string (their dump raises
in `validate`), a survey dict with an empty `title` (its dump would gain `title = name` on the next load).

Slots hold the value found in the dict or `null`; the constructors replace a falsy given value by
the falsy initial value, which `to_json_dict` cannot tell apart (see ToJson.reloadSlots).
-/
namespace Pyxv.ToJson
open Pyxv Pyxv.JV

/-- what the builder needs from the source tables (regenerated: `Pyxv.Gen`, see OpsToJson). -/
structure Cfg where
  surveyNames : List Str      -- Survey.get_slot_names() without parent / children / choices
  sectionNames : List Str     -- Section
  questionNames : List Str    -- Question
  selectNames : List Str      -- MultipleChoiceQuestion (without `choices`)
  qtd : List (Str × Dict)     -- QUESTION_TYPE_DICT: type ↦ entry, values are dicts (templates) or strings
  selectTags : List Str       -- control tags whose class is MultipleChoiceQuestion
  knownTags : List Str        -- keys of QUESTION_CLASSES except "osm"

/-- `_qtd_kwargs`: for every dict-valued default whose key is given, the given value. -/
def kwOf (entry kvs : Dict) : Dict :=
  entry.filterMap fun kv => match kv.2 with
    | .obj _ => (lookup kv.1 kvs).map fun u => (kv.1, u)
    | _ => none

/-- the non-dict defaults (strings in the source table). -/
def scalarsOf (entry : Dict) : List (Str × Str) :=
  entry.filterMap fun kv => match kv.2 with
    | .str s => some (kv.1, s)
    | _ => none

/-- `template.update(given)` -/
def pyUpdate (a b : Dict) : Dict := b.foldl (fun acc kv => dictInsert kv.1 kv.2 acc) a

/-- one step of the type-table loop of `Question.__init__` on the kwargs. -/
def mergeStep (kvs acc : Dict) (kv : Str × J) : Dict :=
  match kv.2 with
  | .obj t =>
    match lookup kv.1 kvs with
    | some (.obj u) => setKey kv.1 (.obj (pyUpdate t u)) acc
    | some _ => acc   -- `template.update(non-dict)` raises; excluded by `mergeOk`
    | none => setKey kv.1 (.obj t) acc
  | v => if (lookup kv.1 kvs).isSome then acc else setKey kv.1 v acc

/-- kwargs after the type-table loop. -/
def mergeQtd (entry kvs : Dict) : Dict := entry.foldl (mergeStep kvs) kvs

/-- a given value for a dict-valued default must itself be a dict (`dict.update` raises otherwise). -/
def mergeOk (entry kvs : Dict) : Bool :=
  entry.all fun kv => match kv.2, lookup kv.1 kvs with
    | .obj _, some (.obj _) => true
    | .obj _, some _ => false
    | _, _ => true

/-- the control tag of a type-table entry (`_get_question_class`). -/
def tagOf (entry : Dict) : Option Str :=
  match lookup k!"control" entry with
  | some (.obj c) =>
    match lookup k!"tag" c with
    | some (.str t) =>
      let osm : Bool := match lookup k!"mediatype" c with
        | some (.str m) => t = k!"upload" ∧ m = k!"osm/*"
        | _ => false
      if osm then none else some t
    | some _ => none
    | none => some []
  | some _ => none
  | none => some []

def hasKey (k : Str) (kvs : Dict) : Bool := (lookup k kvs).isSome

def isTruthyAt (k : Str) (kvs : Dict) : Bool :=
  match lookup k kvs with
  | some v => truthy v
  | none => false

/-- replace the value of slot `k` (the builder assigns the attribute after construction). -/
def overrideSlot (k : Str) (v : J) (slots : Dict) : Dict :=
  slots.map fun kv => if kv.1 = k then (kv.1, v) else kv

/-- `SurveyElement.validate` (called by `to_json_dict`) raises unless the name is an XML tag; the model needs
    only that it is a non-empty string (so that it is not dropped from the dump). -/
def nameOk (kvs : Dict) : Bool :=
  match lookup k!"name" kvs with
  | some (.str s) => !s.isEmpty
  | _ => false

def unsupportedTypes : List Str :=
  [k!"loop", k!"include", k!"xml-external", k!"csv-external", k!"entity", k!"osm"]

/-- a question element from its dict. -/
def questionFromJson (cfg : Cfg) (t : Str) (kvs : Dict) : Option El :=
  if unsupportedTypes.contains t ∨ t.isEmpty ∨ !nameOk kvs then none
  else if hasKey k!"trigger" kvs ∨ hasKey k!"children" kvs ∨ hasKey k!"choices" kvs then none
  else
    match lookup t cfg.qtd with
    | none => none                                  -- Unknown question type
    | some entry =>
      if !mergeOk entry kvs then none
      else
        match tagOf entry with
        | none => none
        | some tag =>
          if !cfg.knownTags.contains tag then none
          else
            let isSel := cfg.selectTags.contains tag
            if isSel ∧ !(isTruthyAt k!"itemset" kvs ∨ isTruthyAt k!"list_name" kvs) then none
            else
              let names := if isSel then cfg.selectNames else cfg.questionNames
              some (.mk .question (reloadSlots names (mergeQtd entry kvs)) (entry.map Prod.fst)
                (kwOf entry kvs) (scalarsOf entry) [] none [])

def mapOpt {α β} (f : α → Option β) : List α → Option (List β)
  | [] => some []
  | x :: xs =>
    match f x with
    | none => none
    | some y =>
      match mapOpt f xs with
      | none => none
      | some ys => some (y :: ys)

/-- `create_survey_element_from_dict(d)` on the modelled fragment. -/
def fromJson (cfg : Cfg) : Nat → J → Option El
  | 0, _ => none
  | f + 1, .obj kvs =>
    match lookup k!"type" kvs with
    | some (.str t) =>
      if t = k!"survey" ∨ t = k!"group" ∨ t = k!"repeat" then
        if hasKey k!"choices" kvs ∨ isTruthyAt k!"add_none_option" kvs ∨ !nameOk kvs
            ∨ (hasKey k!"title" kvs ∧ !isTruthyAt k!"title" kvs) then none
        else
          let kidsJ : Option (List J) :=
            match lookup k!"children" kvs with
            | none => some []
            | some (.arr cs) => some cs
            | some v => if truthy v then none else some []
          match kidsJ with
          | none => none
          | some cs =>
            match mapOpt (fromJson cfg f) cs with
            | none => none
            | some kids =>
              if t = k!"survey" then
                match lookup k!"name" kvs with
                | none => none
                | some nm =>
                  let kvs' := if hasKey k!"title" kvs then kvs else kvs ++ [(k!"title", nm)]
                  let slots := overrideSlot k!"setgeopoint_by_triggering_ref" (.obj [])
                    (overrideSlot k!"setvalues_by_triggering_ref" (.obj []) (reloadSlots cfg.surveyNames kvs'))
                  some (.mk .survey slots [] [] [] kids none [])
              else
                some (.mk (if t = k!"group" then .group else .repeat) (reloadSlots cfg.sectionNames kvs)
                  [] [] [] kids none [])
      else questionFromJson cfg t kvs
    | _ => none
  | _ + 1, _ => none

end Pyxv.ToJson
