import Pyxv.Model.Json
/-! Driver operations for the XML model. -/
namespace Pyxv.Xml
open Lean

def opsXml (op : String) (j : Json) : Option (Except String Json) :=
  match op with
  | "xml.esc" => some do
      let s ← getStr j "s"
      pure (jstr (if getBoolD j "attr" false then escAttr s else escText s))
  | "xml.render" => some do
      let n ← nodeOfJson (← j.getObjVal? "tree")
      pure (jstr (renderDoc (getBoolD j "pretty" false) n))
  | "xml.parse" => some do
      let s ← getStr j "text"
      match parseDoc s with
      | some n => pure (Json.mkObj [("ok", true), ("bound", prefixesBound [] n),
                   ("tree", if getBoolD j "tree" true then nodeToJson n else Json.null)])
      | none => pure (Json.mkObj [("ok", false)])
  | "xml.c15" => some do
      let a ← getStr j "compact"
      let b ← getStr j "pretty"
      match parseDoc a, parseDoc b with
      | some x, some y => pure (Json.mkObj [("ok", true), ("equal", stripWs x == stripWs y)])
      | _, _ => pure (Json.mkObj [("ok", false)])
  | _ => none

end Pyxv.Xml
