import Pyxv.Model.Json
import Pyxv.Model.Rows
import Pyxv.Model.Defaults
import Pyxv.Model.DefaultsRefs
/-! Driver operations for the defaults / triggers mechanism (`defaults.*`). -/
namespace Pyxv.Defaults
open Lean Pyxv

def xp (p : Path) : Str := Form.xpathStr p

/-- `insert_xpaths` with absolute paths (the case without a shared repeat ancestor): every
    `${name}` → ` /path/to/name ` -/
def insertAbs (tbl : List (Str × Path)) : Nat → Str → Str
  | 0, s => s
  | _, [] => []
  | f + 1, '$' :: '{' :: r =>
    let nm := r.takeWhile fun c => c != '}' && c != '\n'
    match r.drop nm.length with
    | '}' :: r2 => ' ' :: xp (pathOf tbl nm) ++ ' ' :: insertAbs tbl f r2
    | _ => '$' :: insertAbs tbl f ('{' :: r)
  | f + 1, c :: r => c :: insertAbs tbl f r

partial def elOfJson (j : Json) : Except String El := do
  let k ← getStr j "k"
  let name ← getStr j "name"
  if k == "q".toList then
    let ty ← getStr j "type"
    let entry := Rows.typeEntry ty
    let tag := match entry with
      | some e =>
        let t := (Rows.entryGet e "control" "tag").getD ""
        if t = "upload" && Rows.entryGet e "control" "mediatype" = some "osm/*" then "osm" else t
      | none => ""
    let calcv := getStrD j "calc" ""
    let typeBind := match entry with | some e => Rows.entryHas e "bind" | none => false
    let typeHint := match entry with | some e => (Rows.entryGet e "" "hint").isSome | none => false
    pure (.q { name, type := ty, default := getStrD j "default" "", calcu := calcv,
               trigger := getStrD j "trigger" "", labelled := getBoolD j "labelled" true || typeHint,
               hasCtl := Rows.tagHasControl tag, tag := tag.toList, hasBind := typeBind || !calcv.isEmpty })
  else
    let kids ← (← getArr j "kids").toList.mapM elOfJson
    if k == "rep".toList then pure (.rep name kids) else pure (.grp name kids)

def optStr : Option Str → Json
  | some s => jstr s
  | none => Json.null

def setToJson (s : SetV) : List Json := [jstr s.tag, jstr (xp s.ref), jstr s.event, optStr s.value]

def errStr : Err → String
  | .missingCalculation n => "missingCalculation " ++ String.ofList n
  | .geoTrigger n => "geoTrigger " ++ String.ofList n
  | .geoCalculation n => "geoCalculation " ++ String.ofList n
  | .triggerNoRef k => "triggerNoRef " ++ String.ofList k
  | .unknownRef n => "unknownRef " ++ String.ofList n
  | .hiddenTrigger t q => "hiddenTrigger " ++ String.ofList t ++ " " ++ String.ofList q
  | .noLabel n => "noLabel " ++ String.ofList n
  | .unusableTrigger k => "unusableTrigger " ++ String.ofList k
  | .unsupported w => "unsupported " ++ w

partial def ctlsOf : List Body → List (Str × Path)
  | [] => []
  | .ctl t r _ :: rest => (t, r) :: ctlsOf rest
  | .group r ks :: rest => ("group".toList, r) :: (ctlsOf ks ++ ctlsOf rest)
  | .rep r ks _ :: rest => ("repeat".toList, r) :: (ctlsOf ks ++ ctlsOf rest)

def model (root : Str) (els0 : List El) : Json :=
  let els := prep els0
  match Lexer.activeRules with
  | none => Json.mkObj [("outcome", "unsupported"), ("why", "lexer rule table is not the pinned one")]
  | some rules =>
    let dyn : Q → Bool := fun d => Lexer.dynamicWith rules d.default d.type
    let ptbl := qPaths [root] els
    let sub : Path → Str → Str := subRefs root els
    -- `clean_text_values` → `validate_pyxform_reference_syntax` on every survey cell
    if (questions els).any (fun d => [d.default, d.calcu, d.trigger].any fun c =>
        !(Lexer.refLoop none (Lexer.scanWith rules c).1) && c.length > 2 && isInfix ['$', '{'] c) then
      Json.mkObj [("outcome", "error"), ("err", "reference syntax")]
    else
    match run dyn sub root els with
    | .error (.unsupported w) => Json.mkObj [("outcome", "unsupported"), ("why", Json.str w)]
    | .error e => Json.mkObj [("outcome", "error"), ("err", Json.str (errStr e))]
    | .ok o =>
      Json.mkObj [("outcome", "ok"),
        ("leaves", Json.arr ((leaves [] false o.inst).map fun l =>
            Json.arr #[jstr (xp l.path), Json.bool l.tmpl, jstr l.text]).toArray),
        ("sets", Json.arr ((setFacts o).map fun f =>
            Json.arr ((match f.loc with | none => Json.null | some r => jstr (xp r)) :: setToJson f.set).toArray).toArray),
        ("trigs", Json.arr ((trigFacts o).map fun f =>
            Json.arr (jstr (xp f.ctl) :: setToJson f.set).toArray).toArray),
        ("binds", Json.arr (o.binds.map fun b => Json.arr #[jstr (xp b.path), optStr b.calculate]).toArray),
        ("ctls", Json.arr ((ctlsOf o.body).map fun (t, r) => Json.arr #[jstr t, jstr (xp r)]).toArray),
        ("dyn", Json.arr ((questions els).map fun d => Json.arr #[jstr d.name, Json.bool (hasDynDefault dyn d)]).toArray)]

def opsDefaults (op : String) (j : Json) : Option (Except String Json) :=
  match op with
  | "defaults.model" => some do
      let els ← (← getArr j "els").toList.mapM elOfJson
      pure (model (getStrD j "root" "data") els)
  | _ => none

end Pyxv.Defaults
