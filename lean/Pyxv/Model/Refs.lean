import Pyxv.Model.Base
/-!
# Refs: `${name}` → XPath  (property C03)

## Part 1 — specification side: emitted paths and their segment-level evaluation

`Emitted` is the shape of what `Survey._var_repl_function` returns for one `${…}` occurrence;
`resolve` evaluates it from the referrer's node (XPath child / parent steps on the instance
*shape*: `..` drops the last segment of the context path, a name appends a segment).
The check parses every hole of the implementation's output with `parseHole` and evaluates it
with `resolve`; the theorems of `Pyxv.Proofs.C03` are about the same `resolve`.
-/
namespace Pyxv.Refs

/-- what is emitted for one reference -/
inductive Emitted where
  /-- `/a/b/c` -/
  | abs (p : List Str)
  /-- `../../d1/d2` (`k` parent steps, then down) -/
  | rel (k : Nat) (down : List Str)
  /-- `instance('__last-saved')/a/b/c` -/
  | lastSaved (p : List Str)
deriving DecidableEq, Repr, Inhabited

/-- Segment-level XPath evaluation from the context node `ctx` (path of the referrer, root first).
Stepping above the document node yields nothing. -/
def resolve (ctx : List Str) : Emitted → Option (List Str)
  | .abs p => some p
  | .rel k d => if k ≤ ctx.length then some (ctx.take (ctx.length - k) ++ d) else none
  | .lastSaved p => some p

def Emitted.isRel : Emitted → Bool
  | .rel _ _ => true
  | _ => false

/-- `/`-joined absolute path string, as `SurveyElement.get_xpath` builds it (survey_element.py 255-282):
`f'/{"/".join(n.name for n in lineage)}'`. -/
def pathStr (p : List Str) : Str := '/' :: joinWith ['/'] p

/-- rendering of an emitted path *without* the surrounding blanks / `current()/` prefix -/
def Emitted.render : Emitted → Str
  | .abs p => pathStr p
  | .rel k d => joinWith ['/'] (List.replicate k "..".toList) ++ pathStr d
  | .lastSaved p => "instance('__last-saved')".toList ++ pathStr p

/-! ### reading a hole of the implementation's output -/

def dotdot : Str := ['.', '.']

def countLeadingDotDot : List Str → Nat
  | s :: rest => if s = dotdot then countLeadingDotDot rest + 1 else 0
  | [] => 0

def goodSeg (s : Str) : Bool := !s.isEmpty && s != dotdot && s != ['.']

/-- absolute path text → segments -/
def parseAbs (s : Str) : Option (List Str) :=
  match splitOnChar '/' s with
  | [] :: seg :: rest => if (seg :: rest).all goodSeg then some (seg :: rest) else none
  | _ => none

structure Hole where
  current : Bool
  e : Emitted
deriving Repr

/-- `[current()/](../)^k name/…`, `/abs/path`, or `instance('__last-saved')/abs/path` -/
def parseHole (s0 : Str) : Option Hole :=
  let s := strip s0
  let cur := "current()/".toList
  let ls := "instance('__last-saved')".toList
  let (current, s) := if startsWith s cur then (true, s.drop cur.length) else (false, s)
  if startsWith s ls then
    if current then none else (parseAbs (s.drop ls.length)).map fun p => ⟨false, .lastSaved p⟩
  else match s with
    | '/' :: _ => if current then none else (parseAbs s).map fun p => ⟨false, .abs p⟩
    | _ =>
      let segs := splitOnChar '/' s
      let k := countLeadingDotDot segs
      let down := segs.drop k
      if k > 0 && !down.isEmpty && down.all goodSeg then some ⟨current, .rel k down⟩ else none

end Pyxv.Refs
