import Pyxv.Model.Base
/-!
# Refs: `${name}` → XPath  (property C03)

## Part 1 — specification side: emitted paths and their segment-level evaluation

`Emitted` is the shape of what `Survey._var_repl_function` returns for one `${…}` occurrence;
`resolve` evaluates it from the referrer's node (XPath child / parent steps on the instance
*shape*: `..` drops the last segment of the context path, a name appends a segment).
The check parses every hole of the implementation's output with `parseHole` and evaluates it
with `resolve`; the theorems of `Pyxv.Proofs.C03` are about the same `resolve`.
-/
namespace Pyxv.Refs

/-- what is emitted for one reference -/
inductive Emitted where
  /-- `/a/b/c` -/
  | abs (p : List Str)
  /-- `../../d1/d2` (`k` parent steps, then down) -/
  | rel (k : Nat) (down : List Str)
  /-- `instance('__last-saved')/a/b/c` -/
  | lastSaved (p : List Str)
deriving DecidableEq, Repr, Inhabited

/-- Segment-level XPath evaluation from the context node `ctx` (path of the referrer, root first).
Stepping above the document node yields nothing. -/
def resolve (ctx : List Str) : Emitted → Option (List Str)
  | .abs p => some p
  | .rel k d => if k ≤ ctx.length then some (ctx.take (ctx.length - k) ++ d) else none
  | .lastSaved p => some p

def Emitted.isRel : Emitted → Bool
  | .rel _ _ => true
  | _ => false

/-- `/`-joined absolute path string, as `SurveyElement.get_xpath` builds it (survey_element.py 255-282):
`f'/{"/".join(n.name for n in lineage)}'`. -/
def pathStr (p : List Str) : Str := '/' :: joinWith ['/'] p

/-- rendering of an emitted path *without* the surrounding blanks / `current()/` prefix -/
def Emitted.render : Emitted → Str
  | .abs p => pathStr p
  | .rel k d => joinWith ['/'] (List.replicate k "..".toList) ++ pathStr d
  | .lastSaved p => "instance('__last-saved')".toList ++ pathStr p

/-! ### reading a hole of the implementation's output -/

def dotdot : Str := ['.', '.']

def countLeadingDotDot : List Str → Nat
  | s :: rest => if s = dotdot then countLeadingDotDot rest + 1 else 0
  | [] => 0

def goodSeg (s : Str) : Bool := !s.isEmpty && s != dotdot && s != ['.']

/-- absolute path text → segments -/
def parseAbs (s : Str) : Option (List Str) :=
  match splitOnChar '/' s with
  | [] :: seg :: rest => if (seg :: rest).all goodSeg then some (seg :: rest) else none
  | _ => none

structure Hole where
  current : Bool
  e : Emitted
deriving Repr, DecidableEq

def curTag : Str := "current()/".toList
def lsTag : Str := "instance('__last-saved')".toList

/-- the hole after an optional `current()/` has been taken off -/
def parseCore (current : Bool) (s : Str) : Option Hole :=
  if startsWith s lsTag then
    if current then none else (parseAbs (s.drop lsTag.length)).map fun p => ⟨false, .lastSaved p⟩
  else if s.head? = some '/' then
    if current then none else (parseAbs s).map fun p => ⟨false, .abs p⟩
  else
    let segs := splitOnChar '/' s
    let k := countLeadingDotDot segs
    let down := segs.drop k
    if k > 0 && !down.isEmpty && down.all goodSeg then some ⟨current, .rel k down⟩ else none

/-- `[current()/](../)^k name/…`, `/abs/path`, or `instance('__last-saved')/abs/path` -/
def parseHole (s0 : Str) : Option Hole :=
  let s := strip s0
  if startsWith s curTag then parseCore true (s.drop curTag.length) else parseCore false s

end Pyxv.Refs

/-!
## Part 2 — the model of the code

Elements are identified by their **chain**: the `(name, kind)` pairs from the survey root down to
the element itself (Python: object identity + `parent` pointers; under `Section.validate`'s
sibling-uniqueness a chain determines the object).  A survey is the list of the chains of all its
elements in `iter_descendants` order (`El.chains`).  XPaths are kept as the code keeps them: as
`/`-joined strings that are `split("/")` again wherever the code splits them.
-/
namespace Pyxv.Refs

inductive Kind where
  | q | group | rep
deriving DecidableEq, Repr, Inhabited

/-- element tree: `Question` (no kids), `GroupedSection`/`Survey` (`group`), `RepeatingSection` (`rep`) -/
inductive El where
  | mk (kind : Kind) (name : Str) (kids : List El)
deriving Repr, Inhabited

abbrev Seg := Str × Kind
abbrev Chain := List Seg

def Chain.path (c : Chain) : List Str := c.map (·.1)
/-- `SurveyElement.get_xpath` (survey_element.py 255-282; the `flat` setting is outside the fragment) -/
def Chain.xpath (c : Chain) : Str := pathStr c.path
def Chain.isRep (c : Chain) : Bool :=
  match c.getLast? with
  | some (_, .rep) => true
  | _ => false

mutual
/-- `iter_descendants`: the element, then its children's subtrees in order (section.py 81-97) -/
def El.chains (pre : Chain) : El → List Chain
  | .mk k n kids => (pre ++ [(n, k)]) :: chainsL (pre ++ [(n, k)]) kids
def chainsL (pre : Chain) : List El → List Chain
  | [] => []
  | e :: es => e.chains pre ++ chainsL pre es
end

/-- xpaths of all `RepeatingSection`s: what the loop of `is_parent_a_repeat` compares against -/
def repeatXpaths (els : List Chain) : List Str := (els.filter Chain.isRep).map Chain.xpath

/-- `"/".join(xpath.split("/")[:-1])` (survey.py 84) -/
def parentXpath (x : Str) : Str := joinWith ['/'] (splitOnChar '/' x).dropLast

/-- `is_parent_a_repeat` (survey.py 78-93): xpath of the nearest ancestor that is a repeat, or `False`.
Fuel: every recursive call is on a strictly shorter string; callers pass `x.length + 1`. -/
def isParentARepeatF (reps : List Str) : Nat → Str → Option Str
  | 0, _ => none
  | fuel + 1, x =>
    let p := parentXpath x
    if p.isEmpty then none
    else if reps.contains p then some p
    else isParentARepeatF reps fuel p

def isParentARepeat (reps : List Str) (x : Str) : Option Str := isParentARepeatF reps (x.length + 1) x

/-- length of the common prefix: the `for … zip(…): if a != b: break; common += 1` loop (survey.py 121-124) -/
def lcpLen : List Str → List Str → Nat
  | a :: as, b :: bs => if a = b then lcpLen as bs + 1 else 0
  | _, _ => 0

/-- `_get_steps_and_target_xpath` (survey.py 108-131). Returns the steps and the *parts* of the path
down (the code returns `"/" + "/".join(parts)`, rebuilt by the caller here). -/
def getStepsAndTarget (xpath contextXpath xpathParent : Str) (includeParent : Bool) : Nat × List Str :=
  let splitIdx := (splitOnChar '/' xpathParent).length - (if includeParent then 1 else 0)
  let contextParts := (splitOnChar '/' contextXpath).drop splitIdx
  let xpathParts := (splitOnChar '/' xpath).drop splitIdx
  let common := if includeParent then 0 else lcpLen contextParts.dropLast xpathParts
  let common := if common = xpathParts.length ∧ common > 0 then common - 1 else common
  (contextParts.length - common, xpathParts.drop common)

/-- `share_same_repeat_parent` (survey.py 95-170), branch for branch. `none` = `(None, None)`. -/
def shareSameRepeatParent (reps : List Str) (xpath contextXpath : Str) (referenceParent : Bool) :
    Option (Nat × List Str) :=
  match isParentARepeat reps contextXpath, isParentARepeat reps xpath with
  | some cp, some xp =>
    if startsWith (cp ++ ['/']) (xp ++ ['/']) then
      let cpp := isParentARepeat reps cp
      if (cp != xp && referenceParent) || cpp.isSome then
        if cpp == some xp then
          -- context_parent := context_shared_ancestor (unused by the helper)
          some (getStepsAndTarget xpath contextXpath xp referenceParent)
        else if cp == xp && cpp.isSome then
          some (getStepsAndTarget xpath contextXpath xp false)
        else some (getStepsAndTarget xpath contextXpath xp referenceParent)
      else some (getStepsAndTarget xpath contextXpath xp referenceParent)
    else
      match isParentARepeat reps cp, isParentARepeat reps xp with
      | some csa, some xsa =>
        if xsa == csa then some (getStepsAndTarget xpath contextXpath xsa false) else none
      | _, _ => none
  | _, _ => none

/-- proper ancestors of an element, nearest first (`iter_ancestors` / the `.parent` walk) -/
def ancestors (c : Chain) : List Chain :=
  (List.range (c.length - 1)).reverse.map fun i => c.take (i + 1)

/-- the `while self_current or other_current` loop of `has_common_repeat_parent`
(survey_element.py 219-250) over the two ancestor walks; `true` = "Common Ancestor Repeat".
`hcrpRest`: the iterations after the self walk has reached the top. -/
def hcrpRest : List Chain → List Chain → List Chain → Bool
  | [], _, _ => false
  | o :: os', seenS, seenO =>
    if o.isRep && seenS.contains o then true else hcrpRest os' seenS (o :: seenO)

def hcrpLoop : List Chain → List Chain → List Chain → List Chain → Bool
  | [], os, seenS, seenO => hcrpRest os seenS seenO
  | s :: ss, os, seenS, seenO =>
    if s.isRep && seenO.contains s then true
    else match os with
      | o :: os' =>
        if o.isRep && (s :: seenS).contains o then true else hcrpLoop ss os' (s :: seenS) (o :: seenO)
      | [] => hcrpLoop ss [] (s :: seenS) seenO

/-- `has_common_repeat_parent(...)[0] != "Unrelated"` (survey_element.py 204-253) -/
def related (c t : Chain) : Bool :=
  (!c.dropLast.isEmpty && c.dropLast == t) || (!t.dropLast.isEmpty && t.dropLast == c)
    || hcrpLoop (ancestors c) (ancestors t) [] []

/-! ### `_setup_xpath_dictionary` (survey.py 1060-1070) -/

def dictInsert (d : List (Str × Option Chain)) (c : Chain) : List (Str × Option Chain) :=
  match c.getLast? with
  | none => d
  | some (n, _) =>
    if (lookup n d).isSome then d.map fun (k, v) => if k = n then (k, none) else (k, v)
    else d ++ [(n, some c)]

def setupXpathDict (els : List Chain) : List (Str × Option Chain) := els.foldl dictInsert []

/-! ### `_var_repl_function` (survey.py 1072-1195) -/

/-- what the model does not compute itself about one `${…}` occurrence and its call site -/
structure Flags where
  /-- `matchobj.group(1) is not None` (`${last-saved#name}`) -/
  lastSaved : Bool := false
  /-- the occurrence sits at an absolute-by-design argument position of `indexed-repeat(`:
  `is_indexed_repeat ∧ ¬(verdict of the loop in _is_return_relative_path)` (the lexer-level part, survey.py 1130-1170) -/
  indexedArg : Bool := false
  /-- `_in_secondary_instance_predicate()` (survey.py 1084-1100) -/
  inPredicate : Bool := false
  /-- call-site arguments of `insert_xpaths` -/
  useCurrent : Bool := false
  referenceParent : Bool := false
deriving DecidableEq, Repr, Inhabited

inductive Out where
  | ok (current : Bool) (e : Emitted)
  /-- PyXFormError "There is no survey element with this name." (message contains the reference) -/
  | unknown (name : Str)
  /-- PyXFormError "There are multiple survey elements with this name." -/
  | ambiguous (name : Str)
deriving DecidableEq, Repr, Inhabited

/-- `_relative_path` (survey.py 1102-1127; `len(xpath.split("/")) > 2` guards the index since fb6aa8f, so a
reference to the survey root falls through to the absolute path) -/
def relativePath (reps : List Str) (c t : Chain) (name : Str) (referenceParent : Bool) :
    Option (Nat × List Str) :=
  let cs := splitOnChar '/' c.xpath
  let ts := splitOnChar '/' t.xpath
  if cs.length > 2 && ts.length > 2 then
    match ts[2]?, cs[2]? with
    | some a, some b =>
      if a = b then
        if !related c t then none
        else match shareSameRepeatParent reps t.xpath c.xpath referenceParent with
          | some (steps, parts) =>
            if steps = 0 then none
            else
              -- ref_path if ref_path.endswith(ref_name) else f"/{name}"
              some (steps, if endsWith (pathStr parts) name then parts else [name])
          | none => none
      else none
    | _, _ => none
  else none

/-- `_var_repl_function`: the structured result for context element `ctx` (`none`: no context given). -/
def refFor (els : List Chain) (ctx : Option Chain) (name : Str) (fl : Flags) : Out :=
  match lookup name (setupXpathDict els) with
  | none => .unknown name
  | some none => .ambiguous name
  | some (some t) =>
    let absOut : Out := if fl.lastSaved then .ok false (.lastSaved t.path) else .ok false (.abs t.path)
    match ctx with
    | none => absOut
    | some c =>
      if !fl.lastSaved && !fl.indexedArg then
        match relativePath (repeatXpaths els) c t name fl.referenceParent with
        | some (steps, down) => .ok (fl.useCurrent || fl.inPredicate) (.rel steps down)
        | none => absOut
      else absOut

/-- the replacement text: `" " + [current()/] + path + " "` (survey.py 1123-1124, 1195) -/
def Out.text : Out → Option Str
  | .ok cur e => some (' ' :: (if cur then "current()/".toList else []) ++ e.render ++ [' '])
  | _ => none

/-! ### validity of a survey (what `Survey.validate` enforces), decidable so that the driver reports it -/

/-- element names are XML names: in particular non-empty and without `/` (survey_element.py 159-164) -/
def GoodNames (p : List Str) : Prop := ∀ s ∈ p, '/' ∉ s ∧ s ≠ []

instance (p : List Str) : Decidable (GoodNames p) := by unfold GoodNames; exact inferInstance

/-- What a survey accepted by `Survey.validate` guarantees about the list of its elements' chains:
names are XML names (non-empty, no `/`); every ancestor of an element is an element (with the kinds
recorded in the chain); sibling names are unique, so a path belongs to one element; the survey root is
not a repeat. -/
structure Valid (els : List Chain) : Prop where
  good : ∀ c ∈ els, GoodNames c.path
  prefixClosed : ∀ c ∈ els, ∀ i, i < c.length → c.take (i + 1) ∈ els
  uniquePath : ∀ c ∈ els, ∀ d ∈ els, c.path = d.path → c = d
  rootNotRep : ∀ c ∈ els, Chain.isRep (c.take 1) = false

instance (els : List Chain) : Decidable (Valid els) :=
  decidable_of_iff
    ((∀ c ∈ els, GoodNames c.path) ∧ (∀ c ∈ els, ∀ i, i < c.length → c.take (i + 1) ∈ els) ∧
      (∀ c ∈ els, ∀ d ∈ els, c.path = d.path → c = d) ∧ (∀ c ∈ els, Chain.isRep (c.take 1) = false))
    ⟨fun ⟨a, b, c, d⟩ => ⟨a, b, c, d⟩, fun h => ⟨h.good, h.prefixClosed, h.uniquePath, h.rootNotRep⟩⟩


end Pyxv.Refs
