import Pyxv.Model.OpsItext
import Pyxv.Model.ItextOutput
/-! Driver operation for the DOM level of the itext model (C07): `itext.doms`. -/
namespace Pyxv.ItextOut
open Lean Pyxv Pyxv.Itext Pyxv.Xml

/-- children of a `<value>`: `["t", text]` for a text node, `["o", tag, [[k, v] …]]` for an element -/
def kidsToJson (ks : List Node) : Json :=
  Json.arr (ks.map fun k => match k with
    | .text _ s => Json.arr #[Json.str "t", jstr s]
    | .elem t a _ => Json.arr #[Json.str "e", jstr t, pairsToJson a]).toArray

def domToJson : Option (Chan.Outcome Node) → Json
  | none => Json.null
  | some (.ok (.elem t a ks)) =>
    Json.mkObj [("tag", jstr t), ("attrs", pairsToJson a), ("kids", kidsToJson ks),
      -- `writexml` of the element as it stands in the compact XForm (`Xml.render`, the serialiser of C05 / C06)
      ("xml", jstr (render [] [] [] (.elem t a ks)))]
  | some (.ok (.text _ _)) => Json.mkObj [("err", "text-node")]
  | some .pyxformError => Json.mkObj [("err", "pyxform")]
  | some .reparseError => Json.mkObj [("err", "reparse")]
  | some (.unsupported w) => Json.mkObj [("unsupported", Json.str w)]

def opsItextOut (op : String) (j : Json) : Option (Except String Json) :=
  match op with
  | "itext.doms" => some do
      let x ← surveyOfJson (← j.getObjVal? "survey")
      match run x with
      | .ok _ =>
        pure (Json.mkObj [("outcome", "ok"),
          ("refs", pairsToJson (nameRefs x)),
          ("translations", Json.arr ((outDoms x).map fun lt =>
            Json.mkObj [("lang", jstr lt.1),
              ("texts", Json.arr (lt.2.map fun td =>
                Json.mkObj [("id", jstr td.1), ("stated", Json.bool (stated x td.1)),
                  ("values", Json.arr (td.2.map fun fv =>
                    Json.mkObj [("form", match fv.1 with | some f => jstr f | none => Json.null),
                                ("dom", domToJson fv.2)]).toArray)]).toArray)]).toArray)])
      | .error _ => pure (Json.mkObj [("outcome", "error")])
      | .unsupported w => pure (Json.mkObj [("outcome", "unsupported"), ("why", Json.str w)])
  | _ => none

end Pyxv.ItextOut
