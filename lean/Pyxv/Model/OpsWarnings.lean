import Pyxv.Model.Json
import Pyxv.Model.Warnings
import Pyxv.Model.WarningsExt
import Pyxv.Model.WarningsItext
import Pyxv.Model.OpsItext
/-! Driver operations for the warnings slice (C20). -/
namespace Pyxv.Warn
open Lean Pyxv

def jstrs (l : List Str) : Json := Json.arr (l.map jstr).toArray

def wToJson : W → Json
  | .dupId => Json.arr #["dup_id"]
  | .misspell k c => Json.arr #["misspell", jstr k, jstrs c]
  | .choiceHeader c => Json.arr #["choice_header", jstr c]
  | .choiceNoLabel n => Json.arr #["choice_no_label", n]
  | .missingTr s l c => Json.arr #["missing_tr", jstr s, jstr l, jstr c]
  | .disabled n => Json.arr #["disabled", n]
  | .skipped n => Json.arr #["skipped", n]
  | .deprecated n t => Json.arr #["deprecated", n, jstr t]
  | .noLabel n ct => Json.arr #["no_label", n, jstr ct]
  | .extNoFilter n => Json.arr #["ext_no_filter", n]
  | .noMaxPixels n => Json.arr #["no_max_pixels", n]
  | .orOther => Json.arr #["or_other"]
  | .iana l => Json.arr #["iana", jstrs l]

def wsToJson (ws : List W) : Json := Json.arr (ws.map wToJson).toArray

def isAscii (s : Str) : Bool := s.all fun c => c.toNat < 128

def rowsOfJson (j : Json) (k : String) : Except String (List (List (Str × Str))) := do
  let a ← getArr j k
  a.toList.mapM pairList

def wbOfJson (j : Json) : Except String WB := do
  pure {
    sheetNames := ← getStrList j "sheet_names"
    surveyHeader := ← getStrList j "survey_header"
    survey := ← rowsOfJson j "survey"
    choicesHeader := ← getStrList j "choices_header"
    choices := ← rowsOfJson j "choices"
    settingsHeader := ← getStrList j "settings_header"
    settingsRows := getNatD j "settings_rows" 0
    hasEntities := getBoolD j "has_entities" false }

def stopToJson : Stop → Json
  | .error n w => Json.mkObj [("outcome", "error"), ("row", n), ("what", Json.str w)]
  | .unsupported w => Json.mkObj [("outcome", "unsupported"), ("why", Json.str w)]

def strLists (j : Json) (k : String) : Except String (List (List Str)) := do
  let a ← getArr j k
  a.toList.mapM strList

def missingToJson (m : List (Str × List Str)) : Json :=
  Json.arr (m.map fun e => Json.arr #[jstr e.1, jstrs e.2]).toArray

def opsWarn (op : String) (j : Json) : Option (Except String Json) :=
  match op with
  | "warn.lev" => some do
      let a ← getStr j "a"
      let b ← getStr j "b"
      pure (Json.num (levenshtein a b))
  | "warn.lev_spec" => some do
      let a ← getStr j "a"
      let b ← getStr j "b"
      pure (Json.num (Spec.lev a b))
  | "warn.misspell" => some do
      let key ← getStr j "key"
      let keys ← getStrList j "keys"
      if !keys.all isAscii then pure (Json.mkObj [("outcome", "unsupported")]) else
      pure (Json.mkObj [("outcome", "ok"),
        ("model", match findSheetMisspellings lowerAscii supported key keys with | some c => jstrs c | none => Json.null),
        ("spec", jstrs (keys.filter (Spec.isMisspelling levenshtein lowerAscii supported key)))])
  | "warn.header" => some do
      let h ← getStr j "header"
      let (al, cols) := if getStrD j "sheet" "survey" = "survey".toList then (surveyAliases, surveyCols) else (listAliases, choicesCols)
      -- phase 8: the complete `process_header` (single-colon delimiter, `jr:` rewrite)
      pure (match processHeader2 (getBoolD j "use_dc" false) al cols h with
        | .ok t => jstrs t
        | .raises => Json.arr #["<exception>", "IndexError"]
        | .outside => Json.null)
  | "warn.header_old" => some do
      let h ← getStr j "header"
      let (al, cols) := if getStrD j "sheet" "survey" = "survey".toList then (surveyAliases, surveyCols) else (listAliases, choicesCols)
      pure (match processHeader (getBoolD j "use_dc" false) al cols h with
        | some t => jstrs t
        | none => Json.null)
  | "warn.translations" => some do
      let sv := findTranslations surveyTrTable (← strLists j "survey")
      let ch := findTranslations choicesTrTable (← strLists j "choices")
      pure (Json.mkObj [("survey", missingToJson (findMissing sv)), ("choices", missingToJson (findMissing ch)),
        ("survey_default_only", Json.bool (seenDefaultOnly sv)), ("choices_default_only", Json.bool (seenDefaultOnly ch)),
        ("spec", wsToJson (Spec.missingDue "survey" (Spec.trPairs surveyTrTable (← strLists j "survey")) ++
                           Spec.missingDue "choices" (Spec.trPairs choicesTrTable (← strLists j "choices"))))])
  | "warn.iana" => some do
      let langs ← getStrList j "langs"
      let tags ← getStrList j "tags"
      let isTag := fun c => tags.contains c
      pure (Json.mkObj [("bad", jstrs (languagesWithBadTags isTag langs)),
        ("model", wsToJson (ianaWarning isTag langs)), ("spec", wsToJson (Spec.ianaDueW isTag langs)),
        ("codes", Json.arr (langs.map fun l => match langCode l with | some c => jstr c | none => Json.null).toArray)])
  | "warn.iana_survey" => some do
      -- the language set comes from the itext model run on the built survey
      let x ← Itext.surveyOfJson (← j.getObjVal? "survey")
      let tags ← getStrList j "tags"
      let isTag := fun c => tags.contains c
      match surveyLanguages x with
      | none => pure (Json.mkObj [("outcome", "unsupported")])
      | some langs =>
        pure (Json.mkObj [("outcome", "ok"), ("langs", jstrs langs),
          ("model", wsToJson (ianaOfSurvey isTag x)), ("spec", wsToJson (Spec.ianaDueOfSurvey isTag x))])
  | "warn.workbook" => some do
      let wb ← wbOfJson j
      if !wb.sheetNames.all isAscii then pure (Json.mkObj [("outcome", "unsupported"), ("why", "non-ASCII sheet name")]) else
      -- phase 8: `workbookToJson2` = `convertOn` on the view of the complete header processing
      match workbookToJson2 lowerAscii wb [] with
      | .error e => pure (stopToJson e)
      | .ok (res, ws) =>
        let spec := match Spec.workbookDue2 levenshtein lowerAscii wb with | .ok d => d | .error _ => []
        pure (Json.mkObj [("outcome", "ok"), ("model", wsToJson ws), ("spec", wsToJson spec),
          ("old_fragment", Json.bool (match workbookToJson lowerAscii wb [] with | .ok _ => true | .error (.error _ _) => true | .error (.unsupported _) => false)),
          ("or_other", Json.bool res.orOther),
          ("kept", Json.arr (res.kept.map fun (n, t) => Json.arr #[n, jstr t]).toArray)])
  | _ => none

end Pyxv.Warn
