import Pyxv.Model.RefsText
import Pyxv.Generated.Tables
/-!
# Refs, part 4: which context and flags each call site of `insert_xpaths` passes

`Survey.insert_xpaths(text, context, use_current=False, reference_parent=False)` is called from sixteen places of
the package; what the property observes of a cell depends on which of them the cell travels through.  The table
of those call sites is regenerated from the Python AST on every run (`Pyxv.Gen.insertXpathsSites`,
`Pyxv.Gen.varReplSites`, `Pyxv.Gen.insertOutputValuesSites`; harness/translate_tables.py `c03_sites`).  This
file holds the model's side: for every cell kind of the check the call site it goes through (`cellSite`) and
the flags the model passes to `insertXpathsText` / `refFor` for it (`cellFlags`).  The check asks the driver
(`refs.cellflags`) for these flags; `Proofs/C03Sites.lean` pins them to the regenerated table.
-/
namespace Pyxv.Refs
open Pyxv

/-- the context argument of a call site, as the model reads it -/
inductive CtxArg
  /-- the element the cell belongs to (`self`; for a trigger's value the calculated question, which owns the cell) -/
  | owner
  /-- the survey itself: no repeat encloses it, so every path is absolute -/
  | survey
  deriving DecidableEq, Repr

/-- what the model passes for one cell kind -/
structure CellFlags where
  ctx : CtxArg
  useCurrent : Bool
  referenceParent : Bool
  deriving DecidableEq, Repr

/-- The model's table: context and flags per cell kind of the check (harness/props/c03.py `probes`).
`choice_filter` is evaluated inside the predicate of a secondary instance, so it asks for `current()`;
the target of a trigger (`trigger`) is resolved from the survey and therefore absolute; everything else
is resolved from the cell's own element with both flags off. -/
def cellFlags (cell : String) : CellFlags :=
  if cell = "choice_filter" then ⟨.owner, true, false⟩
  else if cell = "trigger" then ⟨.survey, false, false⟩
  else ⟨.owner, false, false⟩

/-- a call site as the regenerated tables show it, without the name of the text argument:
(file, scope, context, use_current, reference_parent) -/
abbrev SiteKey := String × String × String × String × String

def siteKey (s : String × String × List String) : SiteKey :=
  (s.1, s.2.1, s.2.2.getD 1 "?", s.2.2.getD 2 "?", s.2.2.getD 3 "?")

/-- the call sites each cell kind of the check may travel through (`[]`: the cell does not reach `insert_xpaths`
directly — label-type cells go through `insert_output_values`, pinned separately).  For `choice_filter` of a select
the `reference_parent` argument is the variable `is_previous_question`, false on every itemset that is a choice
list (select-from-repeat itemsets are outside the model); a `choice_filter` beside a `query` parameter of a text
question goes through `InputQuestion.build_xml`.  `body::custom` is an attribute of the control: of a question,
a group or a repeat. -/
def cellSites (cell : String) : List SiteKey :=
  let bind : SiteKey := ("survey_element.py", "SurveyElement.xml_bindings", "self", "False", "False")
  match cell with
  | "relevant" | "constraint" | "required" | "read_only" | "calculation" | "bind::custom" | "repeat_count-expr" => [bind]
  | "body::custom" => [("question.py", "Question._build_xml", "self", "False", "False"),
                       ("section.py", "GroupedSection.xml_control", "self", "False", "False"),
                       ("section.py", "RepeatingSection.xml_control", "self", "False", "False")]
  | "default" => [("survey_element.py", "SurveyElement.get_setvalue_node_for_dynamic_default", "self", "False", "False")]
  | "choice_filter" => [("question.py", "MultipleChoiceQuestion.build_xml", "self", "True", "is_previous_question"),
                        ("question.py", "InputQuestion.build_xml", "self", "True", "False")]
  | "seed" => [("question.py", "MultipleChoiceQuestion.build_xml", "self", "False", "False")]
  | "repeat_count" | "repeat_count-ptr" => [("section.py", "RepeatingSection.xml_control", "self", "False", "False")]
  | "trigger" => [("question.py", "Question.nest_set_nodes", "survey", "False", "False")]
  | "trigger-value" => [("question.py", "Question.nest_set_nodes", "target if target is not None else self", "False", "False")]
  | _ => []

/-- call sites no cell kind of the check travels through (the summary's "outside" list): entity expressions,
`instance::` attributes of questions and sections, the select-from-repeat itemset, and the trigger reference the
survey resolves to find the triggering question.  All but the itemset pass the element itself and both flags off. -/
def outsideSites : List SiteKey :=
  [("entities/entity_declaration.py", "EntityDeclaration._get_id_bind_node", "self", "False", "False"),
   ("entities/entity_declaration.py", "EntityDeclaration._get_bind_node", "self", "False", "False"),
   ("question.py", "Question.xml_instance", "self", "False", "False"),
   ("section.py", "Section.xml_instance", "self", "False", "False"),
   ("question.py", "MultipleChoiceQuestion.build_xml", "self", "False", "True"),
   ("survey.py", "Survey.xml", "self", "False", "False")]

/-- the cell kinds that reach `insert_xpaths` -/
def siteCells : List String :=
  ["relevant", "constraint", "required", "read_only", "calculation", "bind::custom", "repeat_count-expr", "body::custom",
   "default", "choice_filter", "seed", "repeat_count", "repeat_count-ptr", "trigger", "trigger-value"]

/-- the label-type cell kinds: `insert_output_values` → `_var_repl_output_function` / `replace_with_output` -/
def textCells : List String := ["label", "hint", "guidance_hint", "constraint_message", "required_message"]

/-- does a site of the regenerated table agree with the model's flags for the cell?  The context source text is
read as: `self` and the trigger's `target …` are the owner, `survey` is the survey; `reference_parent` may be the
variable `is_previous_question` (false inside the model's fragment) only where the model says `False`. -/
def siteAgrees (k : SiteKey) (f : CellFlags) : Bool :=
  let (_, _, c, uc, rp) := k
  (match f.ctx with
    | .owner => c = "self" || c = "target if target is not None else self"
    | .survey => c = "survey")
  && uc = (if f.useCurrent then "True" else "False")
  && (rp = (if f.referenceParent then "True" else "False") || (rp = "is_previous_question" && !f.referenceParent))

/-- the model's `insert_xpaths` for a cell kind: the flags come from `cellFlags`, the context is the cell's element
(or none for the survey) -/
def insertXpathsCell (els : List Chain) (owner : Chain) (cell : String) (text : Str) : Option Str :=
  let f := cellFlags cell
  insertXpathsText els (match f.ctx with | .owner => some owner | .survey => none) f.useCurrent f.referenceParent text

end Pyxv.Refs
