import Pyxv.Model.Rows
import Pyxv.Generated.Tables
/-!
# Itext: the translation table pipeline of `pyxform/survey.py`

Input: the *built* survey (after `builder.create_survey_element_from_dict`, before `xml()`): per
element the Python values of the translatable slots (`label`, `hint`, `guidance_hint`: `None | str |
dict lang→str`; `media`: `dict type → str | dict lang→str`; the three bind messages), and the choice
lists (`Survey.choices`: list name → options with `label` / `media`).

Pipeline mirrored here (file:lines of the pinned /repo):

* `SurveyElement.get_translations`                 survey_element.py:365-466   → `elemEntries`
* `Survey._setup_translations` (`get_choice_content`, `get_choices`, the element loop,
  search bookkeeping)                              survey.py:795-884           → `choiceEntries`, `entries`, `errors`
* `Survey._redirect_is_search_itext`               survey.py:755-793           → `isSearch`, `usedBySearch`, `searchItemRefs`
* `Survey._setup_media`                            survey.py:905-963           → `mediaEntries`
* the nested dict `_translations[lang][path]` with Python's insert-if-absent key order
  (`_add_to_nested_dict`, `defaultdict`, `dict.update`)                          → `ins`, `setup`
* `Survey._add_empty_translations`                 survey.py:886-903           → `allPaths`, `pad`
* `Survey.itext` (one `<translation lang default?>` per language, one `<text id>` per path)
                                                   survey.py:965-1041          → `itext`
* `needs_itext_ref`, `xml_label`, `xml_hint`, `xml_label_and_hint`, `xml_bindings`
                                                   survey_element.py:468-581   → `labelRef`, `hintRef`, `labelAndHint`, `bindRefs`
* `Question.xml_control`, `GroupedSection/RepeatingSection.xml_control`,
  `MultipleChoiceQuestion.build_xml` (in-line items of search() selects)
                                                   question.py:147-186,365-454; section.py:192-283 → `bodyRefs`
* `Itemset.get_options` (`requires_itext`)         question.py:308-340         → `requiresItext`
* `Survey._generate_static_instances` (`itextId`)  survey.py:371-408           → `itemIds`

The innermost level of `_translations` (content type → text) keeps the text itself; the bookkeeping
key `type` is dropped (`itext()` skips it); `<output>` substitution inside a text is not modelled
(`plainText`: such a value's content is not stated).  Key order of all three dict levels is modelled exactly
(it is what the implementation's XForm shows).
-/
namespace Pyxv.Itext
open Pyxv

/-- Python value of a translatable slot: `None | str | dict[lang → str]`. -/
inductive Txt where
  | none
  | str (s : Str)
  | dict (d : List (Str × Str))
deriving Repr, DecidableEq, Inhabited

/-- Python truthiness (`if x:`) of such a value. -/
def Txt.truthy : Txt → Bool
  | .none => false
  | .str s => !s.isEmpty
  | .dict d => !d.isEmpty

/-- `isinstance(x, dict)` -/
def Txt.isDict : Txt → Bool
  | .dict _ => true
  | _ => false

/-- media dict: type → `str | dict lang→str` -/
abbrev Media := List (Str × Txt)

/-- `if media:` / `isinstance(self.media, dict) and self.media` -/
def mediaTruthy : Option Media → Bool
  | some (_ :: _) => true
  | _ => false

structure Opt where
  label : Txt
  media : Option Media
deriving Repr, Inhabited

structure CList where
  name : Str
  options : List Opt
deriving Repr, Inhabited

/-- Python class of an element (decided by `builder.QUESTION_CLASSES` / `SECTION_CLASSES`):
`question` = base `Question` (`build_xml` returns None), `control` = Input/Trigger/Upload/Range
question (`build_xml = _build_xml`), `select` = `MultipleChoiceQuestion`, `inert` = a survey element
that is neither Question nor Section (ExternalInstance, EntityDeclaration), `osm` = `OsmUploadQuestion`
(an upload question whose `Tag` children render a `<tag><label/></tag>` each), `tag` = such a `Tag` (it has
only `name` and `label`; visited by `_setup_translations` since eb9b6f4), `other` = not modelled. -/
inductive Cls where
  | question | control | select | group | repeat | inert | osm | tag | other
deriving Repr, DecidableEq, Inhabited

structure ElemD where
  cls : Cls
  name : Str
  type : Str
  label : Txt
  hint : Txt
  guidance : Txt
  media : Option Media
  /-- `jr:constraintMsg` / `jr:requiredMsg` / `jr:noAppErrorString` entries of `bind`, in dict order -/
  msgs : List (Str × Txt)
  hasCalc : Bool
  trigger : Bool
  bodyless : Bool
  flat : Bool
  appearance : Option Str
  itemset : Option Str
  list : Str
  hasChoices : Bool
  /-- `Tag` children of an osm question: (name, label) -/
  tags : List (Str × Txt) := []
deriving Repr, Inhabited

inductive Elem where
  | node (d : ElemD) (kids : List Elem)
deriving Repr, Inhabited

structure Survey where
  defaultLanguage : Str
  lists : List CList
  root : Elem
deriving Repr, Inhabited

/-- an element with its xpath (`get_xpath`), in document order; `hidden` = inside (or being) a
`bodyless` group, whose `xml_control` returns None (section.py:257-258) -/
structure Flat where
  xpath : Str
  d : ElemD
  hidden : Bool
deriving Repr, Inhabited

/-- the `Tag` child of an osm question as an element of its own: name and label, nothing else -/
def tagD (nl : Str × Txt) : ElemD :=
  { cls := .tag, name := nl.1, type := [], label := nl.2, hint := .none, guidance := .none, media := none,
    msgs := [], hasCalc := false, trigger := false, bodyless := false, flat := false, appearance := none,
    itemset := none, list := [], hasChoices := false }

/-- the `Tag` children of an osm question (`OsmUploadQuestion.iter_descendants` with
`iter_into_section_items=True`, question.py:527-541), xpath = question xpath + tag name -/
def tagFlats (x : Str) (h : Bool) (d : ElemD) : List Flat :=
  d.tags.map fun nl => ⟨x ++ '/' :: nl.1, tagD nl, h⟩

mutual
/-- `iter_descendants` (pre-order) with `get_xpath` = "/".join(names of the lineage) -/
def flatten (pre : Str) (hid : Bool) : Elem → List Flat
  | .node d kids =>
    let x := pre ++ '/' :: d.name
    let h := hid || (d.cls == .group && d.bodyless)
    ⟨x, d, h⟩ :: (tagFlats x h d ++ flattenL x h kids)
def flattenL (pre : Str) (hid : Bool) : List Elem → List Flat
  | [] => []
  | e :: es => flatten pre hid e ++ flattenL pre hid es
end

/-! ### regular expressions and `os.path.splitext` -/

/-- `re.search(open + ".*?" + close, s)` for a literal `open` and a one-character `close`
(`.` excludes newline): some occurrence of `open` is followed by `close` before any newline. -/
def matchOC (op : Str) (cl : Char) : Str → Bool
  | [] => false
  | c :: cs =>
    (startsWith (c :: cs) op && (((c :: cs).drop op.length).takeWhile (· != '\n')).contains cl)
      || matchOC op cl cs

/-- `re.search(BRACKETED_TAG_REGEX, s)`, utils.py:24 `\${(last-saved#)?(.*?)}` -/
def hasBracketedTag (s : Str) : Bool := matchOC "${".toList '}' s

/-- the `PYXFORM_REF` lexer rule matched at the start of `s` (expression.py:47) -/
def refAt : Str → Bool
  | '$' :: '{' :: r =>
    let r' := if startsWith r "last-saved#".toList then r.drop 11 else r
    (match Rows.ncName r' with
     | some ('}' :: _) => true
     | some (':' :: r2) => (match Rows.ncName r2 with | some ('}' :: _) => true | _ => false)
     | _ => false)
  | _ => false

/-- `re.search(RE_ANY_PYXFORM_REF, s) is not None` -/
def hasPyxformRef : Str → Bool
  | [] => false
  | c :: cs => refAt (c :: cs) || hasPyxformRef cs

/-- part after the last `/` -/
def baseName (s : Str) : Str := (splitOnChar '/' s).getLast?.getD []

/-- `os.path.splitext(s)[1]` (posixpath / genericpath._splitext): the extension starts at the last
dot of the base name, provided a non-dot character precedes it there. -/
def splitExt (s : Str) : Str :=
  let parts := splitOnChar '.' (baseName s)
  match parts.reverse with
  | [] => []
  | [_] => []
  | last :: before => if (joinWith ['.'] before.reverse).any (· != '.') then '.' :: last else []

/-- survey.py:770-776: `appearance and len(appearance) > 7 and SEARCH_FUNCTION_REGEX.search(appearance)` -/
def isSearch (d : ElemD) : Bool :=
  match d.appearance with
  | some a => a.length > 7 && matchOC "search(".toList ')' a
  | none => false

def isExternalExt (e : Str) : Bool :=
  !e.isEmpty && Pyxv.Gen.externalInstanceExtensions.any (·.toList == e)

/-! ### choices -/

/-- `Itemset.get_options`, question.py:317-340 -/
def optRequiresItext (o : Opt) : Bool :=
  mediaTruthy o.media || o.label.isDict ||
    (match o.label with
     | .str s => !s.isEmpty && hasPyxformRef s
     | _ => false)

def requiresItext (l : CList) : Bool := l.options.any optRequiresItext

/-- `f"{list_name}-{idx}"` -/
def choiceId (name : Str) (idx : Nat) : Str := name ++ '-' :: (toString idx).toList

/-- one leaf assignment `_translations[lang][path][form] = text` -/
structure Ent where
  lang : Str
  path : Str
  form : Str
  text : Str
deriving Repr, DecidableEq, Inhabited

/-- the padding value of `_add_empty_translations` -/
def dashStr : Str := ['-']

/-- (language, text) pairs under which a `str | dict` value is filed (`default_language`
for a plain string) -/
def langsOf (dl : Str) : Txt → List (Str × Str)
  | .none => []
  | .str s => [(dl, s)]
  | .dict d => d

def entsOf (dl : Str) (p form : Str) (v : Txt) : List Ent :=
  (langsOf dl v).map fun lb => ⟨lb.1, p, form, lb.2⟩

def mediaEnts (dl : Str) (p : Str) (m : Media) : List Ent := m.flatMap fun kv => entsOf dl p kv.1 kv.2

/-- `get_choice_content`, survey.py:801-823: the (language, itext id) pairs one option contributes -/
def optEntries (dl : Str) (id : Str) (o : Opt) : List Ent :=
  (if o.label.truthy then entsOf dl id "long".toList o.label else []) ++
  (match o.media with
   | some m => if mediaTruthy (some m) then mediaEnts dl id m else []
   | none => [])

def optsEntries (dl : Str) (name : Str) : Nat → List Opt → List Ent
  | _, [] => []
  | i, o :: os => optEntries dl (choiceId name i) o ++ optsEntries dl name (i + 1) os

/-- `get_choices`, survey.py:825-829 -/
def choiceEntries (dl : Str) (lists : List CList) : List Ent :=
  lists.flatMap fun l => if requiresItext l then optsEntries dl l.name 0 l.options else []

def idsFrom (name : Str) : Nat → List Opt → List Str
  | _, [] => []
  | i, _ :: os => choiceId name i :: idsFrom name (i + 1) os

/-- ids `list-0 … list-(n-1)` of a list that requires itext -/
def listIds (l : CList) : List Str := if requiresItext l then idsFrom l.name 0 l.options else []

/-! ### elements -/

/-- `needs_itext_ref`, survey_element.py:468-471 -/
def needsItextRef (d : ElemD) : Bool := d.label.isDict || mediaTruthy d.media

def path (x : Str) (display : String) : Str := x ++ ':' :: display.toList

def msgOf (d : ElemD) (k : String) : Txt := (lookup k.toList d.msgs).getD .none

/-- a bind message goes through itext: `isinstance(v, dict) or re.search(BRACKETED_TAG_REGEX, v)`;
`jr:noAppErrorString` only when it is a dict (survey_element.py:372-411, 562-573) -/
def msgUsesItext (k : Str) : Txt → Bool
  | .dict _ => true
  | .str s => k != "jr:noAppErrorString".toList && !s.isEmpty && hasBracketedTag s
  | .none => false

def msgEntries (dl : Str) (x : Str) (d : ElemD) (k : String) : List Ent :=
  let v := msgOf d k
  if msgUsesItext k.toList v then entsOf dl (path x k) "long".toList v else []

/-- `get_translations`, survey_element.py:365-466 (question / section) -/
def elemEntries (dl : Str) (f : Flat) : List Ent :=
  let d := f.d
  let x := f.xpath
  msgEntries dl x d "jr:constraintMsg" ++ msgEntries dl x d "jr:requiredMsg" ++
  msgEntries dl x d "jr:noAppErrorString" ++
  -- label: a plain non-empty string is filed under the default language when an itext ref is needed
  (match d.label with
   | .dict l => entsOf dl (path x "label") "long".toList (.dict l)
   | .str s => if needsItextRef d && !s.isEmpty then entsOf dl (path x "label") "long".toList (.str s) else []
   | .none => []) ++
  -- hint: always itext when there is a guidance hint
  (match d.hint with
   | .dict l => entsOf dl (path x "hint") "long".toList (.dict l)
   | .str s => if !s.isEmpty && d.guidance.truthy then entsOf dl (path x "hint") "long".toList (.str s) else []
   | .none => []) ++
  -- guidance_hint is filed under the *hint* path with form "guidance" (survey.py:854-856)
  (match d.guidance with
   | .dict l => entsOf dl (path x "hint") "guidance".toList (.dict l)
   | .str s => if !s.isEmpty then entsOf dl (path x "hint") "guidance".toList (.str s) else []
   | .none => [])

/-- elements visited by `_setup_translations` / `_setup_media`: `isinstance(i, Question | Section)` -/
def visited (f : Flat) : Bool := f.d.cls != .inert

/-- `_setup_media`, survey.py:905-963 -/
def mediaEntries (dl : Str) (f : Flat) : List Ent :=
  match f.d.media with
  | some m => if mediaTruthy (some m) then mediaEnts dl (path f.xpath "label") m else []
  | none => []

/-- every leaf assignment in the order the implementation makes them -/
def entries (dl : Str) (lists : List CList) (fs : List Flat) : List Ent :=
  choiceEntries dl lists ++ (fs.filter visited).flatMap (elemEntries dl) ++
    (fs.filter visited).flatMap (mediaEntries dl)

/-! ### the table `_translations` -/

/-- Python `d[k] = f(d.get(k))` on an insertion-ordered dict: an existing key keeps its position,
a new key is appended -/
def upd {β} (k : Str) (f : Option β → β) : List (Str × β) → List (Str × β)
  | [] => [(k, f none)]
  | (k', v) :: rest => if k' = k then (k', f (some v)) :: rest else (k', v) :: upd k f rest

def keys {β} (l : List (Str × β)) : List Str := l.map (·.1)

/-- content type → text -/
abbrev Forms := List (Str × Str)
/-- path → content types -/
abbrev Paths := List (Str × Forms)
/-- `_translations`: lang → path → content type; all levels in Python's insertion order -/
abbrev Table := List (Str × Paths)

/-- one leaf assignment (`_add_to_nested_dict` for choices, `dict.update` for questions, the media
assignments of `_setup_media`): the three keys are created when absent, the value is overwritten -/
def ins (T : Table) (e : Ent) : Table :=
  upd e.lang (fun o => upd e.path (fun o2 => upd e.form (fun _ => e.text) (o2.getD [])) (o.getD [])) T

def setup (es : List Ent) : Table := es.foldl ins []

/-- `{**old, **dict.fromkeys(content)}` -/
def unionForms (acc : List (Str × Unit)) (fs : Forms) : List (Str × Unit) :=
  fs.foldl (fun a fb => upd fb.1 (fun _ => ()) a) acc

/-- `paths` of `_add_empty_translations`: insertion-ordered union of the paths of all languages,
each with the insertion-ordered union of its content types -/
def allPaths (T : Table) : List (Str × List (Str × Unit)) :=
  T.foldl (fun acc lps => lps.2.foldl (fun a pf => upd pf.1 (fun o => unionForms (o.getD []) pf.2) a) acc) []

/-- pad one language: missing paths are appended, missing content types get "-" -/
def padLang (P : List (Str × List (Str × Unit))) (ps : Paths) : Paths :=
  P.foldl (fun acc pc => upd pc.1 (fun o => pc.2.foldl (fun fs c => upd c.1 (fun o3 => o3.getD dashStr) fs) (o.getD [])) acc) ps

/-- ids `list-idx` of every choice of every list that requires itext, each with the content type
`long` (`paths.setdefault(f"{list_name}-{idx}", {"long": None})`) -/
def choicePaths (lists : List CList) : List (Str × List (Str × Unit)) :=
  (lists.flatMap listIds).map fun i => (i, [("long".toList, ())])

/-- `paths` after the choice ids have joined it (`setdefault`: an id already present keeps its entry) -/
def allPathsC (lists : List CList) (T : Table) : List (Str × List (Str × Unit)) :=
  (choicePaths lists).foldl (fun a pc => upd pc.1 (fun o => o.getD pc.2) a) (allPaths T)

/-- `_add_empty_translations`, survey.py:886-912 (with no language at all there is nothing to pad) -/
def pad (lists : List CList) (T : Table) : Table :=
  T.map fun lps => (lps.1, padLang (allPathsC lists T) lps.2)

/-- one `<translation>`: language, `default="true()"` mark, and per `<text id>` the `form`
attribute (`none` = no form attribute) and text content of each `<value>` child -/
structure Tr where
  lang : Str
  isDefault : Bool
  texts : List (Str × List (Option Str × Option Str))
deriving Repr, DecidableEq, Inhabited

def Tr.ids (t : Tr) : List Str := t.texts.map (·.1)

/-- `label_name.rpartition(":")[-1]` (ac4d9ef: what follows the *last* colon) -/
def labelType (p : Str) : Str := (p.reverse.takeWhile (· != ':')).reverse

/-- does `insert_output_values` leave the text alone?  (no `${…}` to turn into `<output>`, no
`instance(` expression) — only then the model states the written value -/
def plainText (t : Str) : Bool := !t.contains '$' && !isInfix "instance(".toList t

/-- the `<value>` children of one `<text>`, survey.py:986-1037: (`form` attribute, text content).
`none` as text content = not stated (the text goes through `<output>` substitution). -/
def valueForms (p : Str) (fs : Forms) : List (Option Str × Option Str) :=
  fs.filterMap fun fb =>
    let txt (v : Str) : Option Str := if plainText fb.2 then some v else none
    if labelType p == "hint".toList then
      (if fb.1 == "guidance".toList then some (some fb.1, txt fb.2) else some (none, txt fb.2))
    else if fb.1 == "long".toList then some (none, txt fb.2)
    else if fb.2 == dashStr then none
    else if fb.1 == "image".toList || fb.1 == "big-image".toList then
      some (some fb.1, txt ("jr://images/".toList ++ fb.2))
    else some (some fb.1, txt ("jr://".toList ++ fb.1 ++ '/' :: fb.2))

/-- `itext()`, survey.py:965-1041: one translation per language, `default="true()"` iff the language
is `default_language`, one `<text id>` per path -/
def itext (dl : Str) (T : Table) : List Tr :=
  T.map fun lps => ⟨lps.1, lps.1 == dl, lps.2.map fun pf => (pf.1, valueForms pf.1 pf.2)⟩

/-! ### references -/

def labelRef (f : Flat) : List Str := if needsItextRef f.d then [path f.xpath "label"] else []

def hintRef (f : Flat) : List Str :=
  if f.d.hint.isDict || f.d.guidance.truthy then [path f.xpath "hint"] else []

/-- `xml_label_and_hint`, survey_element.py:494-531 -/
def labelAndHint (f : Flat) : List Str :=
  let la := f.d.label.truthy || mediaTruthy f.d.media
  let hi := f.d.hint.truthy || f.d.guidance.truthy
  (if la || hi then labelRef f else []) ++ (if hi then hintRef f else [])

/-- `Question.xml_control`, question.py:147-151: no control for `calculate` and for unlabeled
calculations / triggered questions -/
def hasControl (d : ElemD) : Bool :=
  !(d.type == "calculate".toList || ((d.hasCalc || d.trigger) && !(d.label.truthy || d.hint.truthy)))

def findList (lists : List CList) (n : Str) : Option CList := lists.find? (·.name == n)

/-- in-line items of a search() select: `option._choice_itext_ref` (question.py:434-454) -/
def searchItemRefs (lists : List CList) (n : Str) : List Str :=
  match findList lists n with
  | some l => listIds l
  | none => []

/-- `Tag.xml` (question.py:499-500): `xml_label` of each tag; a `Tag` has no media slot, so an itext ref is
emitted exactly when its label is a dict.  Its xpath is the question's xpath plus the tag name. -/
def tagRefs (f : Flat) : List Str :=
  f.d.tags.flatMap fun nl => if nl.2.isDict then [path (f.xpath ++ '/' :: nl.1) "label"] else []

/-- `jr:itext('…')` ids in the body contributed by one element -/
def bodyRefs (lists : List CList) (f : Flat) : List Str :=
  if f.hidden then [] else
  match f.d.cls with
  | .group => if f.d.label.truthy then labelRef f else []
  | .repeat => labelRef f
  | .control => if hasControl f.d then labelAndHint f else []
  | .osm => if hasControl f.d then labelAndHint f ++ tagRefs f else []
  | .select =>
    if hasControl f.d then
      labelAndHint f ++ (if isSearch f.d then searchItemRefs lists f.d.list else [])
    else []
  | _ => []

/-- `xml_bindings`, survey_element.py:562-573: in bind-dict order (only questions and sections
carry a `bind`) -/
def bindRefs (f : Flat) : List Str :=
  if visited f then
    f.d.msgs.flatMap fun kv => if msgUsesItext kv.1 kv.2 then [f.xpath ++ ':' :: kv.1] else []
  else []

def isSearchSelect (f : Flat) : Bool := f.d.cls == .select && isSearch f.d

/-- `itemset.used_by_search` after `_setup_translations` -/
def usedBySearch (fs : List Flat) (n : Str) : Bool := fs.any fun f => isSearchSelect f && f.d.list == n

/-- `itextId` values of the choice instances, survey.py:371-408, 616-619 -/
def itemIds (lists : List CList) (fs : List Flat) : List Str :=
  (lists.filter fun l => !usedBySearch fs l.name).flatMap listIds

/-! ### errors raised inside the mechanism (PyXFormError) -/

def labelErrors (f : Flat) : List String :=
  let d := f.d
  let rendered := !f.hidden && (d.cls == .control || d.cls == .select || d.cls == .osm) && hasControl d
  if !rendered then [] else
  (if !(d.label.truthy || mediaTruthy d.media || d.hint.truthy || d.guidance.truthy)
    then ["noLabelOrHint"] else []) ++
  (if !(d.label.truthy || mediaTruthy d.media || d.hint.truthy) && d.guidance.truthy
    then ["noLabelOrHint"] else []) ++
  (match d.media with
   | some m => if !(m.any (·.1 == "image".toList)) && m.any (·.1 == "big-image".toList) then ["bigImage"] else []
   | none => [])

def mediaErrors (f : Flat) : List String :=
  match f.d.media with
  | some m =>
    if visited f && m.any (fun kv => !(Pyxv.Gen.supportedMediaTypes.any (·.toList == kv.1)))
    then ["mediaType"] else []
  | none => []

def searchErrors (fs : List Flat) (f : Flat) : List String :=
  if !isSearchSelect f then [] else
  (match f.d.itemset with
   | some s => if isExternalExt (splitExt s) then ["searchFromFile"] else []
   | none => []) ++
  -- survey.py:831-838 (after the from-file test): a search() select needs its own Itemset
  (if !f.d.hasChoices && !isExternalExt (splitExt (f.d.itemset.getD [])) then ["searchNoChoices"] else []) ++
  (if fs.any (fun g => g.d.cls == .select && !isSearch g.d && g.d.list == f.d.list) then ["searchConflict"] else [])

def errors (fs : List Flat) : List String :=
  fs.flatMap fun f => searchErrors fs f ++ mediaErrors f ++ labelErrors f

/-! ### fragment -/

def unsupportedElem (f : Flat) : List String :=
  let d := f.d
  (if d.cls == .other then ["element class"] else []) ++
  (if d.flat then ["flat"] else []) ++
  (if isSearchSelect f && d.itemset.isNone then ["search() select without itemset"] else []) ++
  (if d.cls == .select && !isSearch d && d.hasChoices && (d.itemset.getD []).isEmpty then ["select without itemset"] else []) ++
  (if d.cls == .inert && (d.label != .none || d.hint != .none || d.media.isSome || !d.msgs.isEmpty) then ["inert element with text"] else [])

structure Out where
  translations : List Tr
  bodyRefs : List Str
  bindRefs : List Str
  itemIds : List Str
deriving Repr, Inhabited

inductive Outcome where
  | ok (o : Out)
  | error (kinds : List String)
  | unsupported (why : String)
deriving Repr, Inhabited

def rootD : Elem → ElemD
  | .node d _ => d
def rootKids : Elem → List Elem
  | .node _ ks => ks

/-- the elements below the survey root, with xpaths -/
def flats (x : Survey) : List Flat := flattenL ('/' :: (rootD x.root).name) false (rootKids x.root)

def table (x : Survey) : Table := pad x.lists (setup (entries x.defaultLanguage x.lists (flats x)))

def out (x : Survey) : Out :=
  let fs := flats x
  { translations := itext x.defaultLanguage (table x)
    bodyRefs := fs.flatMap (bodyRefs x.lists)
    bindRefs := fs.flatMap bindRefs
    itemIds := itemIds x.lists fs }

def run (x : Survey) : Outcome :=
  let r := rootD x.root
  let fs := flats x
  if r.label != .none || r.hint != .none || r.media.isSome || !r.msgs.isEmpty || r.flat then
    .unsupported "survey root with text"
  else
    match fs.flatMap unsupportedElem with
    | w :: _ => .unsupported w
    | [] =>
      match errors fs with
      | [] => .ok (out x)
      | es => .error es

/-! ### guards of the theorems (decidable; evaluated by the check on every generated input) -/

def nodupB : List Str → Bool
  | [] => true
  | a :: as => !as.contains a && nodupB as

/-- a dict-valued slot is never the empty dict (xls2json builds dicts from non-empty cells only) -/
def Txt.wf : Txt → Bool
  | .dict [] => false
  | _ => true

def mediaWf : Option Media → Bool
  | none => true
  | some m => m.all fun kv => kv.2 != .none && kv.2.wf

def msgKeys : List Str :=
  ["jr:constraintMsg".toList, "jr:requiredMsg".toList, "jr:noAppErrorString".toList]

def elemWf (d : ElemD) : Bool :=
  d.label.wf && d.hint.wf && d.guidance.wf && mediaWf d.media && nodupB (keys d.msgs) &&
    d.msgs.all fun kv => msgKeys.contains kv.1 && kv.2.wf

def optWf (o : Opt) : Bool := o.label.wf && mediaWf o.media

/-- shape invariant of the builder's output: no empty dicts, bind messages keyed uniquely -/
def wf (x : Survey) : Bool :=
  (flats x).all (fun f => elemWf f.d) && x.lists.all fun l => l.options.all optWf

def optLabeled (o : Opt) : Bool := o.label.truthy || mediaTruthy o.media

/-- complement of the open defect F6: in a list that requires itext every choice has a label or media -/
def choicesLabeled (x : Survey) : Bool :=
  x.lists.all fun l => !requiresItext l || l.options.all optLabeled

/-! ### the property, as a decidable predicate on an observation (model's or implementation's) -/

structure Obs where
  translations : List Tr
  refs : List Str
  defaultLanguage : Str
deriving Repr, Inhabited

/-- every reference names a text entry that exists in every translation (and there is an itext
block at all when something is referenced) -/
def refsExist (o : Obs) : Bool :=
  o.refs.all fun r => !o.translations.isEmpty && o.translations.all fun t => t.ids.contains r

/-- all translations contain the same set of ids -/
def uniform (o : Obs) : Bool :=
  o.translations.all fun t1 => o.translations.all fun t2 => t1.ids.all fun i => t2.ids.contains i

/-- no language and no id appears twice -/
def noDup (o : Obs) : Bool :=
  nodupB (o.translations.map (·.lang)) && o.translations.all fun t => nodupB t.ids

/-- a translation is marked default exactly when its name *is* the default language: when the default
language is one of the translations it is the only one marked, and a near miss of the setting (the name
without its `(code)`, another letter case, the code alone) marks nothing — so at most one translation is ever
marked (given `noDup`) -/
def defaultOk (o : Obs) : Bool :=
  o.translations.all fun t => t.isDefault == (t.lang == o.defaultLanguage)

def holds (o : Obs) : Bool := refsExist o && uniform o && noDup o && defaultOk o

def obsOf (dl : Str) (o : Out) : Obs :=
  { translations := o.translations, refs := o.bodyRefs ++ o.bindRefs ++ o.itemIds, defaultLanguage := dl }

end Pyxv.Itext
