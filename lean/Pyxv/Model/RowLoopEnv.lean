import Pyxv.Model.RowLoop
import Pyxv.Model.Rows
import Pyxv.Generated.Tables
/-! The row loop with explicit partial operations, instantiated with the total functions of `Pyxv.Rows`
(regexes, `is_xml_tag`, yes/no table) and a direct transcription of `parameters_generic.parse`'s splitting. -/
namespace Pyxv.RowLoop
open Pyxv

def wsTokens (s : Str) : List Str := ((s.splitOn ' ').filter (fun t => !t.isEmpty))

/-- `parameters_generic.parse`: split on `;`, else `,`, else whitespace; every part needs an `=` -/
def paramsParse (s : Str) : Bool :=
  let s' := s.map fun c => if pyIsSpace c then ' ' else c
  let parts := if (splitOnChar ';' s).length > 1 then splitOnChar ';' s
    else if (splitOnChar ',' s).length > 1 then splitOnChar ',' s else wsTokens s'
  parts.all fun p => p.contains '='

def ctlOf' (s : Str) : Option Ctl :=
  if s = k "group" then some .group else if s = k "repeat" then some .rep else if s = k "loop" then some .loop else none

/-- `os.path.splitext(list_name)[1] in EXTERNAL_INSTANCE_EXTENSIONS` for names with one dot-suffix: the extension
    list is the regenerated `constants.EXTERNAL_INSTANCE_EXTENSIONS` (pinned by `ext_table_pinned` in the proofs) -/
def fileExt (ln : Str) : Bool :=
  Pyxv.Gen.externalInstanceExtensions.any fun e => endsWith ln e.toList && ln.length > e.length

def osmOf (t : Str) : Option (Option Str) :=
  if startsWith t (k "osm") then
    (match t.drop 3 with
     | [] => some none
     | ' ' :: rest => if rest.isEmpty then some none else some (some rest)
     | _ => none)
  else none

def randomizeTrue (p : Str) : Bool := isInfix (k "randomize=true") p

/-- the environment the driver runs: `branchOk` is constantly true (the correspondence inputs are chosen so
    that the remaining total checks pass) -/
def stdEnv : Env where
  yes := Rows.yesNoTrue
  paramsParse := paramsParse
  settingsType := fun t => Rows.settingsTypes.contains t
  endCtl := fun t => (Rows.matchControl "end" false t).bind ctlOf'
  beginCtl := fun t => (Rows.matchControl "begin" true t).bind ctlOf'
  select := Rows.matchSelect
  osm := osmOf
  xmlTag := Rows.isXmlTag
  dynDefault := fun _ _ => false
  isRef := Rows.isPyxformRef
  fileExt := fileExt
  hasRef := fun ln => isInfix (k "${") ln
  randomize := randomizeTrue
  hasApp := fun p => isInfix (k "app=") p
  branchOk := fun _ _ => true

end Pyxv.RowLoop
