import Pyxv.Model.JVal
import Pyxv.Generated.Tables
/-!
# ToJson: the `to_json_dict` family and the slot-level reading of its output

An element is its class, the values of its slots in `get_slot_names()` order (`parent`,
`children`, `choices` kept apart: they are the tree), the keys of `_qtd_defaults`, `_qtd_kwargs`,
its children, a select question's `choices` Itemset (its options' slot dicts) and a survey's
`choices` dict.  `toJson` mirrors

* `SurveyElement.to_json_dict` (survey_element.py:300-347): copy of the slots; delete
  `_survey_element_xpath`, `extra_data` and the caller's `delete_keys`; children recursively (with
  `delete_keys=("parent",)`); a survey's `choices` dict / a question's Itemset options; drop every
  falsy value;
* `_delete_keys_from_dict` (survey_element.py:284-295): the key collection handed down is always a
  one-shot iterator (`itertools.chain` / generator expression), consumed by the loop over the top
  level, so the recursive calls into nested dicts delete nothing — modelled as top-level deletion;
* `Question.to_json_dict` (question.py:229-247): also deletes the slots starting with `_` and every
  key of the type-table entry, then puts back the truthy entries of `_qtd_kwargs`, then every
  non-dict type-table key (`hint` of four types) whose slot value is truthy and differs from the
  table's value;
* `Option.to_json_dict` (question.py:301-311): also deletes the slots starting with `_`; then adds
  the truthy entries of `extra_data` (extra choice columns) whose key is not already present;
* `Survey.to_json_dict` (survey.py:280-284): also deletes the slots starting with `_`;
* `GroupedSection.to_json_dict` (section.py:285-290): sets `type = "group"` (the `bind` is kept).

`reloadSlots` is the part of the builder that matters for a dump/load/dump: `SurveyElement.__init__`
(survey_element.py:100-124) and the class constructors store exactly the keys named in the class's
slot tuple; any other key goes to `extra_data`; a slot not mentioned keeps a falsy initial value
(written `null` here: `to_json_dict` cannot tell the falsy values apart).
-/
open Lean in
/-- `k!"lit"`: a string literal as an explicit `List Char` literal (`"lit".toList` is expensive to reduce
    in proofs; same value). -/
macro:max "k!" s:str : term => do
  let cs : Array (TSyntax `term) := (s.getString.toList.map fun c => (⟨(Syntax.mkCharLit c).raw⟩ : TSyntax `term)).toArray
  `(([$cs,*] : List Char))

namespace Pyxv.ToJson
open Pyxv Pyxv.JV

abbrev Dict := List (Str × J)

/-- Python truthiness of a JSON-able value (`if not v: del result[k]`). -/
def truthy : J → Bool
  | .null => false
  | .bool b => b
  | .num n => n != 0
  | .str s => !s.isEmpty
  | .arr xs => !xs.isEmpty
  | .obj kvs => !kvs.isEmpty

/-- `for key in keys: if key in dictionary: del dictionary[key]` (top level only, see above). -/
def delKeys (ks : List Str) (d : Dict) : Dict := d.filter fun kv => !ks.contains kv.1

/-- `for k, v in list(result.items()): if not v: del result[k]` -/
def dropFalsy (d : Dict) : Dict := d.filter fun kv => truthy kv.2

/-- `result[k] = v` -/
def setKey (k : Str) (v : J) (d : Dict) : Dict := dictInsert k v d

inductive Cls where
  | survey | group | repeat | question | option | other
  deriving Repr, DecidableEq, Inhabited

def underscored (names : List Str) : List Str := names.filter fun n => startsWith n ['_']

/-- the keys a class's `to_json_dict` override adds to `delete_keys`. -/
def clsDelete (cls : Cls) (names qtdKeys : List Str) : List Str :=
  match cls with
  | .question => underscored names ++ qtdKeys
  | .option => underscored names
  | .survey => underscored names
  | .group => []
  | .repeat => []
  | .other => []

/-- everything `SurveyElement.to_json_dict` deletes from the copy of the slots. -/
def allDelete (cls : Cls) (names qtdKeys extra : List Str) : List Str :=
  [k!"_survey_element_xpath", k!"extra_data"] ++ clsDelete cls names qtdKeys ++ extra

/-- the own (non-tree) part of a dump: what remains of the slots. -/
def ownDump (del : List Str) (slots : Dict) : Dict := dropFalsy (delKeys del slots)

/-- `for k, v in self.extra_data.items(): if v and k not in result: result[k] = v` -/
def restoreExtra : Dict → Dict → Dict
  | [], d => d
  | (k, v) :: rest, d =>
    restoreExtra rest (if truthy v && !(d.map Prod.fst).contains k then d ++ [(k, v)] else d)

/-- an `Option`: its slot values and its `extra_data` (the extra columns of the choices sheet). -/
abbrev Opt := Dict × Dict

/-- an `Option`'s dump (`o.to_json_dict(delete_keys=("parent",))`). -/
def optionDump (o : Opt) : Dict :=
  restoreExtra o.2 (ownDump (allDelete .option (o.1.map Prod.fst) [] [k!"parent"]) o.1)

def optionToJson (o : Opt) : J := .obj (optionDump o)

inductive El where
  | mk (cls : Cls) (slots : Dict) (qtdKeys : List Str) (qtdKwargs : Dict) (qtdScalars : List (Str × Str))
       (kids : List El) (opts : Option (List Opt)) (choices : List (Str × List Opt))

/-- put back `_qtd_kwargs`: `for k, v in self._qtd_kwargs.items(): if v: result[k] = v` -/
def restoreKwargs : Dict → Dict → Dict
  | [], d => d
  | (k, v) :: rest, d => restoreKwargs rest (if truthy v then setKey k v d else d)

/-- Python `value != v` for a string `v` (the non-dict type-table values are strings). -/
def neStr (value : J) (v : Str) : Bool :=
  match value with
  | .str s => s != v
  | _ => true

/-- put back overridden non-dict type-table keys:
    `for k, v in self._qtd_defaults.items(): if not isinstance(v, dict): value = self[k]; if value and value != v: result[k] = value` -/
def restoreScalars (slots : Dict) : List (Str × Str) → Dict → Dict
  | [], d => d
  | (k, v) :: rest, d =>
    let value := (lookup k slots).getD .null
    restoreScalars slots rest (if truthy value && neStr value v then setKey k value d else d)

mutual
/-- `e.to_json_dict(delete_keys=extra)` -/
def toJson : El → List Str → J
  | .mk cls slots qtdKeys kw scalars kids opts choices, extra =>
    let r := delKeys (allDelete cls (slots.map Prod.fst) qtdKeys extra) slots
    let r := if kids.isEmpty then r else r ++ [(k!"children", .arr (toJsonL kids))]
    let r := match opts with
      | some os => setKey k!"children" (.arr (os.map optionToJson)) r
      | none =>
        if choices.isEmpty then r
        else r ++ [(k!"choices", .obj (choices.map fun (ln, os) => (ln, .arr (os.map optionToJson))))]
    let r := dropFalsy r
    let r := if cls = .question then restoreScalars slots scalars (restoreKwargs kw r) else r
    let r := if cls = .group then setKey k!"type" (.str k!"group") r else r
    .obj r
def toJsonL : List El → List J
  | [] => []
  | e :: es => toJson e [k!"parent"] :: toJsonL es
end

/-- the slots of an element rebuilt from a dumped dict `d`: the class's slot names, each with the dumped
    value or a falsy initial value. -/
def reloadSlots (names : List Str) (d : Dict) : Dict :=
  names.map fun n => (n, (lookup n d).getD .null)

/-- `Question.__init__` for a non-dict type-table key: `elif k not in kwargs: kwargs[k] = v` — the dumped
    value if there is one, the table's value otherwise. -/
def reloadScalar (k v : Str) (d : Dict) : J := (lookup k d).getD (.str v)

/-- `Option(**d)`: the keys that are not slots become `extra_data`, in dict order. -/
def reloadExtra (names : List Str) (d : Dict) : Dict := d.filter fun kv => !names.contains kv.1

/-- an `Option` rebuilt from its dumped dict. -/
def reloadOption (names : List Str) (d : Dict) : Opt := (reloadSlots names d, reloadExtra names d)

end Pyxv.ToJson
