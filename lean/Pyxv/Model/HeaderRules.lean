import Pyxv.Model.Headers
/-!
# HeaderRules: the located diagnosis of the header checks (C17)

`dealias_and_group_headers` (sheet_headers.py:187-267, model `Pyxv.Headers.dealiasAndGroupHeaders`) refuses a sheet
for three reasons; each has a message template naming the sheet and the offending header(s)
(sheet_headers.py:8-24).  This file turns the model's error value into the *text* the implementation must raise,
so that the correspondence stream `c17.headers` compares message strings of the whole `convert()` with the model
(driver op `c17.sheet_headers`), and states the outcome of the header stage of one sheet as an explicit
`pass | reject msg | internal site`.
-/
namespace Pyxv.HeaderRules
open Pyxv Pyxv.Headers

def quote (x : Str) : Str := '\'' :: x ++ ['\'']

/-- `INVALID_HEADER.format(sheet_name=…, header=…)` -/
def invalidHeaderMsg (sheet h : Str) : Str :=
  "Invalid headers provided for sheet: '".toList ++ sheet ++
  ("'. For XLSForms, this may be due a missing header row, in which case add a header row as per the reference template " ++
   "https://xlsform.org/en/ref-table/. For internal API usage, may be due to a missing mapping for '").toList ++ h ++
  "', in which case ensure that the full set of headers appear within the first 100 rows, or specify the header row in '".toList ++
  sheet ++ "_header'.".toList

/-- `INVALID_DUPLICATE.format(sheet_name=…, other=…, header=…)` -/
def invalidDuplicateMsg (sheet other h : Str) : Str :=
  "Invalid headers provided for sheet: '".toList ++ sheet ++
  "'. Headers that are different names for the same column were found: '".toList ++ other ++ "', '".toList ++ h ++
  "'. Rename or remove one of these columns.".toList

/-- `INVALID_MISSING_REQUIRED.format(sheet_name=…, missing=", ".join(f"'{h}'" for h in missing))` -/
def missingRequiredMsg (sheet : Str) (missing : List Str) : Str :=
  "Invalid headers provided for sheet: '".toList ++ sheet ++
  "'. One or more required column headers were not found: ".toList ++ joinWith ", ".toList (missing.map quote) ++
  ". Learn more: https://xlsform.org/en/#setting-up-your-worksheets".toList

inductive Outcome where
  | pass
  | reject (msg : Str)
  | internal (site : Str)
  | unsupported (why : Str)

/-- the message of a header-stage error of sheet `sheet` -/
def diagnose (sheet : Str) : Err → Outcome
  | .invalidHeader h => .reject (invalidHeaderMsg sheet h)
  | .duplicate o h => .reject (invalidDuplicateMsg sheet o h)
  | .missingRequired hs => .reject (missingRequiredMsg sheet hs)
  | .internal w => .internal w
  | .unsupported w => .unsupported w

/-- header stage of one sheet: what `workbook_to_json` raises from `dealias_and_group_headers(sheet_name=sheet, …)` -/
def sheetHeaders (sheet : Str) (header : List Str) (rows : List (List (Str × Str))) (aliases : List (Str × List Str))
    (columns required : List Str) (dk : Str) : Outcome :=
  match dealiasAndGroupHeaders header rows aliases columns required dk (sheet == "survey".toList) with
  | .ok _ => .pass
  | .error e => diagnose sheet e

end Pyxv.HeaderRules
