import Pyxv.Model.Base
import Pyxv.Generated.Tables
import Pyxv.Model.Spell
/-!
# Process: the state that outlives one conversion (property C14)

Small machines for the mechanisms through which a pyxform conversion could depend on anything
but its input:

1. `Lru`            — `functools.lru_cache(maxsize=…)` (CPython `Modules/_functoolsmodule.c`,
                      `bounded_lru_cache_wrapper` / `infinite_lru_cache_wrapper` / `uncached_lru_cache_wrapper`),
                      used at `pyxform/utils.py:82`, `pyxform/parsing/expression.py:93`, `pyxform/survey.py:78,95`,
                      `pyxform/validators/pyxform/iana_subtags/validation.py:9`; capacities from `Pyxv.Gen.lruCacheSizes`.
2. `World`          — caches keyed on the survey *object* (`is_parent_a_repeat(survey, xpath)`,
                      `share_same_repeat_parent(survey, …)`; `SurveyElement.__hash__ = hash(id(self))`): object
                      identity is an address that the allocator may hand out again once the object is freed;
                      a cache key holds a reference.
3. `SurveyState`    — the fields `Survey.xml()` mutates on the survey object (`get_nsmap`: `survey.py:310-335`,
                      `_redirect_is_search_itext`: `survey.py:755-793`).
4. `SetOrder`       — every place a Python `set` is iterated on the way to output or to a message, with
                      the iteration order as an explicit parameter.
5. `Scan`           — `re.Scanner.scan` (CPython `Lib/re/__init__.py`) with its `self.match` register shared
                      by two threads, as a small-step system; `parse_expression` (`expression.py:93-112`).

No imports outside Lean core / `Pyxv.Model.Base` / the generated tables.
-/
namespace Pyxv.Process

/-! ## 1. functools.lru_cache -/

/-- Python `dict.get` on an association list, decidable equality on keys. -/
def lookupK {κ ν : Type} [DecidableEq κ] (k : κ) : List (κ × ν) → Option ν
  | [] => none
  | (k', v) :: rest => if k = k' then some v else lookupK k rest

/-- remove the entry of key `k` -/
def eraseK {κ ν : Type} [DecidableEq κ] (k : κ) (l : List (κ × ν)) : List (κ × ν) :=
  l.filter fun e => decide (e.1 ≠ k)

/-- The cache: `entries` most recently used first (CPython keeps a circular doubly linked list
whose `root.prev` is the most recent link and `root.next` the oldest).
`cap = none` is `maxsize=None`, `some 0` is `maxsize=0` (no caching at all). -/
structure Lru (κ ν : Type) where
  cap : Option Nat
  entries : List (κ × ν)

/-- what one call did to the cache (observable through `cache_info()` and object lifetimes) -/
inductive Ev (κ : Type) where
  | hit
  | miss (evicted : Option κ)
  deriving DecidableEq, Repr

/-- One call `cached(k)`.
hit:  the link is moved to the most-recent end, the stored result is returned *without calling `f`*;
miss: `f k` is computed; `maxsize=0` stores nothing; below capacity the entry is added;
      at capacity the oldest link is dropped (`root.next`) and the new one becomes the most recent. -/
def Lru.call {κ ν : Type} [DecidableEq κ] (f : κ → ν) (c : Lru κ ν) (k : κ) : Lru κ ν × ν × Ev κ :=
  match lookupK k c.entries with
  | some v => ({ c with entries := (k, v) :: eraseK k c.entries }, v, .hit)
  | none =>
    let v := f k
    match c.cap with
    | none => ({ c with entries := (k, v) :: c.entries }, v, .miss none)
    | some 0 => (c, v, .miss none)
    | some (n + 1) =>
      if c.entries.length < n + 1 then ({ c with entries := (k, v) :: c.entries }, v, .miss none)
      else ({ c with entries := (k, v) :: c.entries.dropLast }, v, .miss (c.entries.getLast?.map (·.1)))

/-- a history of calls through one cache; results and events in call order -/
def runCached {κ ν : Type} [DecidableEq κ] (f : κ → ν) (c : Lru κ ν) : List κ → Lru κ ν × List (ν × Ev κ)
  | [] => (c, [])
  | k :: ks =>
    let r := c.call f k
    let rest := runCached f r.1 ks
    (rest.1, (r.2.1, r.2.2) :: rest.2)

def emptyLru {κ ν : Type} (cap : Option Nat) : Lru κ ν := ⟨cap, []⟩

/-- the results the callers see -/
def outputs {κ ν : Type} [DecidableEq κ] (f : κ → ν) (cap : Option Nat) (ops : List κ) : List ν :=
  (runCached f (emptyLru cap) ops).2.map (·.1)

/-- every stored result is the function's result for its key -/
def Coherent {κ ν : Type} (f : κ → ν) (c : Lru κ ν) : Prop := ∀ e ∈ c.entries, e.2 = f e.1

/-- `maxsize` as written in the source: digits or `None`. -/
def parseNat (s : Str) : Option Nat :=
  if s.isEmpty then none
  else s.foldl (fun acc c => acc.bind fun n => if c.isDigit then some (n * 10 + (c.toNat - 48)) else none) (some 0)

def parseCap (s : String) : Option (Option Nat) :=
  if s.toList = "None".toList then some none else (parseNat s.toList).map some

/-- capacity of a cached function of the current source (`Pyxv.Gen.lruCacheSizes`) -/
def capOf (name : String) : Option (Option Nat) :=
  (Pyxv.Gen.lruCacheSizes.lookup name).bind parseCap

/-- The defect class "cache keyed on less than the function depends on" (e.g. keyed on the xpath
string but not on the survey): the cache key is `proj k`, the function depends on all of `k`. -/
def outputsProjected {κ κ' ν : Type} [DecidableEq κ'] (proj : κ → κ') (f : κ → ν) (cap : Option Nat) :
    List κ → Lru κ' ν → List ν
  | [], _ => []
  | k :: ks, c =>
    let r := c.call (fun _ => f k) (proj k)
    r.2.1 :: outputsProjected proj f cap ks r.1

/-! ## 2. caches keyed on object identity -/

abbrev ObjId := Nat

/-- `heap`: live objects (address ↦ immutable content `τ`, e.g. the survey tree);
`refs`: addresses the caller still references; `cache`: an lru_cache keyed on (object, argument). -/
structure World (τ ξ ν : Type) where
  heap : List (ObjId × τ)
  refs : List ObjId
  cache : Lru (ObjId × ξ) ν

inductive Op (τ ξ : Type) where
  | alloc (id : ObjId) (t : τ)   -- the allocator returns address `id` for a new object with content `t`
  | drop (id : ObjId)            -- the caller drops its reference
  | call (id : ObjId) (x : ξ)    -- `cached(obj, x)`

/-- Reference counting: an object stays alive while the caller or — if the cache holds *strong*
references to its keys, as `lru_cache` does — a cache key references it.  `strong = false` is the
hypothetical cache keyed on the bare `id(obj)` number. -/
def gc {τ ξ ν : Type} (strong : Bool) (w : World τ ξ ν) : World τ ξ ν :=
  { w with heap := w.heap.filter fun e =>
      decide (e.1 ∈ w.refs) || (strong && decide (e.1 ∈ w.cache.entries.map (·.1.1))) }

/-- One step; `none` = a step that cannot happen (the allocator never returns a live address;
the caller can only pass an object it references). -/
def World.step {τ ξ ν : Type} [DecidableEq ξ] (strong : Bool) (g : τ → ξ → ν) (w : World τ ξ ν) :
    Op τ ξ → Option (World τ ξ ν × Option ν)
  | .alloc id t =>
    if id ∈ w.heap.map (·.1) then none
    else some (gc strong { w with heap := (id, t) :: w.heap, refs := id :: w.refs }, none)
  | .drop id => some (gc strong { w with refs := w.refs.filter (· ≠ id) }, none)
  | .call id x =>
    if id ∈ w.refs then
      match lookupK id w.heap with
      | none => none
      | some t =>
        let r := w.cache.call (fun key => g t key.2) (id, x)
        some (gc strong { w with cache := r.1 }, some r.2.1)
    else none

def World.run {τ ξ ν : Type} [DecidableEq ξ] (strong : Bool) (g : τ → ξ → ν) :
    World τ ξ ν → List (Op τ ξ) → Option (World τ ξ ν × List ν)
  | w, [] => some (w, [])
  | w, op :: ops =>
    match w.step strong g op with
    | none => none
    | some (w', out) =>
      match World.run strong g w' ops with
      | none => none
      | some (w'', outs) => some (w'', (match out with | some v => [v] | none => []) ++ outs)

def World.empty {τ ξ ν : Type} (cap : Option Nat) : World τ ξ ν := ⟨[], [], emptyLru cap⟩

/-- What the caller means: `call id x` is `g` of the object most recently allocated at `id`. -/
def specOutputs {τ ξ ν : Type} (g : τ → ξ → ν) : List (ObjId × τ) → List (Op τ ξ) → List (Option ν)
  | _, [] => []
  | env, .alloc id t :: ops => specOutputs g ((id, t) :: env) ops
  | env, .drop _ :: ops => specOutputs g env ops
  | env, .call id x :: ops => ((lookupK id env).map fun t => g t x) :: specOutputs g env ops

/-! ## 3. what `Survey.xml()` leaves behind on the survey object -/

/-- Python dict assignment `d[k] = v` on an insertion-ordered association list. -/
def aset {κ ν : Type} [DecidableEq κ] (k : κ) (v : ν) : List (κ × ν) → List (κ × ν)
  | [] => [(k, v)]
  | (k', v') :: rest => if k' = k then (k, v) :: rest else (k', v') :: aset k v rest

/-- `dict(pairs)` / a dict comprehension / `d.update(pairs)`: assignments in order. -/
def asetAll {κ ν : Type} [DecidableEq κ] (d : List (κ × ν)) (ps : List (κ × ν)) : List (κ × ν) :=
  ps.foldl (fun d p => aset p.1 p.2 d) d

structure SelectQ where
  name : Str
  listName : Str
  search : Bool       -- `SEARCH_FUNCTION_REGEX` matches the appearance
  itemset : Str       -- `element.itemset`
  deriving DecidableEq, Repr

/-- The mutable fields.  `namespaces` holds the tokens of `self.namespaces.split()` (`none` = `None`);
appending `" entities=…"` to the string appends one token. -/
structure SurveyState where
  entityFeatures : Bool
  namespaces : Option (List Str)
  lists : List (Str × Bool)          -- `self.choices`: list name ↦ `used_by_search`
  selects : List SelectQ
  names : List Str := []             -- names of all survey elements (with multiplicity; immutable tree)
  triggerRefs : List Str := []       -- keys of `setvalues_by_triggering_ref` / `setgeopoint_by_triggering_ref`
  deriving DecidableEq, Repr

def entitiesDecl : Str := "entities=http://www.opendatakit.org/xforms/entities".toList

/-- `get_nsmap` (survey.py:310-316): the append. -/
def nsAppend (s : SurveyState) : SurveyState :=
  if s.entityFeatures then
    { s with namespaces := some ((s.namespaces.getD []) ++ [entitiesDecl]) }
  else s

def stripQuotes (v : Str) : Str := v.filter fun c => c != '"' && c != '\''

/-- one declaration `prefix=uri` (survey.py:319-323: `ns.split("=")` has two parts, the first non-empty) -/
def parseDecl (ns : Str) : Option (Str × Str) :=
  match splitOnChar '=' ns with
  | [k, v] => if k ≠ [] then some (k, v) else none
  | _ => none

/-- the (key, value) pairs of the dict comprehension (survey.py:326-331), in order -/
def nsPairs (base : List (Str × Str)) (tokens : List Str) : List (Str × Str) :=
  ((tokens.filterMap parseDecl).filter fun p => decide (("xmlns:".toList ++ p.1) ∉ base.map (·.1))).map
    fun p => ("xmlns:".toList ++ p.1, stripQuotes p.2)

/-- `get_nsmap` (survey.py:318-335): `NSMAP.copy()` updated with the dict comprehension over the declarations. -/
def nsmapOf (base : List (Str × Str)) (tokens : List Str) : List (Str × Str) :=
  asetAll base (asetAll [] (nsPairs base tokens))

def baseNsmap : List (Str × Str) := Pyxv.Gen.nsmap.map fun p => (p.1.toList, p.2.toList)

def hasExtInstanceExt (itemset : Str) : Bool :=
  Pyxv.Gen.externalInstanceExtensions.any fun e => endsWith itemset e.toList && itemset.length > e.length

/-- `_redirect_is_search_itext` over all selects (survey.py:755-793): a search() select on a
select-from-file itemset is an error; otherwise its `itemset` is cleared and its list marked. -/
def redirectSearch (s : SurveyState) : Except Str SurveyState :=
  match s.selects.find? fun q => q.search && hasExtInstanceExt q.itemset with
  | some q => .error q.name
  | none =>
    let searched := (s.selects.filter (·.search)).map (·.listName)
    .ok { s with
      selects := s.selects.map fun q => if q.search then { q with itemset := [] } else q
      lists := s.lists.map fun l => (l.1, l.2 || decide (l.1 ∈ searched)) }

/-- `Survey.xml()` (survey.py:344-352): every key of the trigger maps is resolved with `insert_xpaths`
before anything is generated; a name that is not carried by exactly one element is an error. -/
def validateTriggers (s : SurveyState) : Except Str Unit :=
  match s.triggerRefs.find? fun r => decide ((s.names.filter (· = r)).length ≠ 1) with
  | some r => .error r
  | none => .ok ()

/-- the survey object after one `xml()` call.  `get_trigger_values_for_question_name` reads the
trigger maps with `dict.get`, so generation adds no key to them. -/
def afterXml (s : SurveyState) : Except Str SurveyState :=
  (validateTriggers s).bind fun _ => redirectSearch (nsAppend s)

/-- Hypothetical (defect class "reading a `defaultdict` by index during generation"): every question
name becomes a key of the trigger map during the first `xml()`. -/
def afterXmlInserting (s : SurveyState) : Except Str SurveyState :=
  (afterXml s).map fun s' => { s' with triggerRefs := s'.triggerRefs ++ s'.names.filter (· ∉ s'.triggerRefs) }

/-- what the XForm shows of these fields: namespace declarations on `<h:html>`, the static choice
instances generated (`if not v.used_by_search`), and per select whether it gets an `<itemset>` -/
structure XmlObs where
  nsmap : List (Str × Str)
  staticInstances : List Str
  itemsetSelects : List (Str × Bool)
  deriving DecidableEq, Repr

def render (s : SurveyState) : XmlObs :=
  { nsmap := match s.namespaces with
      | some toks => nsmapOf baseNsmap toks      -- no declaration: `nsmapOf base [] = base`
      | none => baseNsmap
    staticInstances := (s.lists.filter fun l => !l.2).map (·.1)
    itemsetSelects := s.selects.map fun q => (q.name, !q.itemset.isEmpty) }

/-- `Survey.xml()`: mutate, then generate from the mutated object -/
def xml (s : SurveyState) : Except Str XmlObs := (afterXml s).map render

/-! ## 4. Python sets on the way to output -/

/-- The iteration order of a Python `set` (it depends on PYTHONHASHSEED for `str` elements):
any function returning a permutation of the elements. -/
structure SetOrder where
  iter : List Str → List Str
  perm : ∀ l, (iter l).Perm l

def SetOrder.id : SetOrder := ⟨fun l => l, fun _ => List.Perm.refl _⟩
def SetOrder.rev : SetOrder := ⟨List.reverse, fun l => List.reverse_perm l⟩

/-- Python `str` comparison: lexicographic by code point. -/
def leStr : Str → Str → Bool
  | [], _ => true
  | _ :: _, [] => false
  | a :: as, b :: bs => if a = b then leStr as bs else decide (a.toNat < b.toNat)

/-- `sorted(xs)` -/
def sortStr (l : List Str) : List Str := l.mergeSort leStr

/-- `get_pulldata_functions` (survey.py:455-473): bind attributes with a pulldata() call, in the order
the set `constants.EXTERNAL_INSTANCES` is visited.  `sorted := true` is the repaired code
(`for formula_name in sorted(constants.EXTERNAL_INSTANCES)`), `false` the code before 4dc1fa1. -/
def pulldataVisit (sorted : Bool) (visited : List Str) (present : Str → Bool) : List Str :=
  (if sorted then sortStr visited else visited).filter present

def pulldataOrder (sorted : Bool) (π : SetOrder) (ext : List Str) (present : Str → Bool) : List Str :=
  pulldataVisit sorted (π.iter ext) present

def dedup : List Str → List Str
  | [] => []
  | x :: xs => x :: (dedup xs).filter (· ≠ x)

/-- `{**a, **dict.fromkeys(b)}`: keys of `a` in order, then the new keys of `b` in order -/
def orderedUnion (a b : List Str) : List Str := a ++ (dedup b).filter (· ∉ a)

abbrev Trans := List (Str × List (Str × List Str))   -- lang ↦ path ↦ content types (dict key order)

/-- first loop of `_add_empty_translations` (survey.py:892-895): path ↦ collected content types.
`collect` abstracts how the types of one path are accumulated and later iterated. -/
def collectPaths (collect : List Str → List Str → List Str) (tr : Trans) : List (Str × List Str) :=
  (tr.flatMap (·.2)).foldl
    (fun acc pc => aset pc.1 (collect ((lookupK pc.1 acc).getD []) pc.2) acc) []

/-- second loop (survey.py:897-903): per language, per collected path, add the missing path / types -/
def padLang (paths : List (Str × List Str)) (entries : List (Str × List Str)) : List (Str × List Str) :=
  paths.foldl
    (fun es pc =>
      let cur := (lookupK pc.1 es).getD []
      aset pc.1 (cur ++ pc.2.filter (· ∉ cur)) es)
    entries

def padWith (collect : List Str → List Str → List Str) (iter : List Str → List Str) (tr : Trans) : Trans :=
  let paths := (collectPaths collect tr).map fun pc => (pc.1, iter pc.2)
  tr.map fun le => (le.1, padLang paths le.2)

/-- repaired (80d96d7): insertion-ordered dict union, iterated in dict order -/
def padFixed (tr : Trans) : Trans := padWith orderedUnion (fun l => l) tr

/-- before the repair: `paths.get(path, set()).union(content)`, iterated in set order -/
def padPre (π : SetOrder) (tr : Trans) : Trans := padWith orderedUnion π.iter tr

/-- `dealias_and_group_headers` (sheet_headers.py:258-265): the quoted list of missing required
headers, in set order -/
def missingHeaders (π : SetOrder) (required present : List Str) : List Str :=
  π.iter (required.filter (· ∉ present))

/-- `external_choices_to_csv` (utils.py:190-198): the header row. With `external_choices_header`
present it is that dict's key order; the fallback (repaired, 1948d14) is `dict.fromkeys` over all
row keys: first-seen order. -/
def itemsetsHeader (header : Option (List Str)) (rows : List (List Str)) : List Str :=
  match header with
  | some h => h
  | none => dedup rows.flatten

/-- before 1948d14 the fallback was a set of all row keys -/
def itemsetsHeaderPre (π : SetOrder) (header : Option (List Str)) (rows : List (List Str)) : List Str :=
  match header with
  | some h => h
  | none => π.iter (dedup rows.flatten)

/-- Hypothetical (defect class "de-duplicate through a set"): `get_nsmap` iterating
`set(self.namespaces.split())` instead of the list. -/
def nsmapOfSet (π : SetOrder) (base : List (Str × Str)) (tokens : List Str) : List (Str × Str) :=
  nsmapOf base (π.iter (dedup tokens))

def requiredHeaders : List (String × List String) := Pyxv.Gen.requiredHeaders

/-- the set-iteration sites of the repaired code that are reachable with file input, bundled:
(order of pulldata instances, padded itext table, missing-header list, itemsets header) -/
structure SetSiteInput where
  present : List Str            -- bind attributes of one question that call pulldata()
  tr : Trans
  required : List Str
  headersPresent : List Str
  extHeader : Option (List Str)
  extRows : List (List Str)

def extInstances : List Str := Pyxv.Gen.externalInstances.map String.toList

def outπ (π : SetOrder) (x : SetSiteInput) : List Str × Trans × List Str × List Str :=
  (pulldataOrder true π extInstances (fun a => a ∈ x.present),
   padFixed x.tr,
   missingHeaders π x.required x.headersPresent,
   itemsetsHeader x.extHeader x.extRows)

def out (x : SetSiteInput) : List Str × Trans × List Str × List Str := outπ SetOrder.id x

/-! ## 5. the shared `re.Scanner` -/

/-- One thread inside `Scanner.scan(text)`.  The token boundaries are a function of the thread's
own text (`match = self.scanner.scanner(string).match` is a local), so a thread is the list of
the lengths of the tokens still to come; only `self.match` is shared. -/
structure Thread where
  todo : List Nat                     -- lengths of the tokens not yet matched
  pos : Nat                           -- local `i`
  pending : Option Nat                -- `self.match = m` done, `action(self, m.group())` not yet
  emitted : List (Nat × Nat × Nat)    -- per token: (len(value), start, end) as recorded by the callback
  deriving DecidableEq, Repr

structure Sys where
  reg : Option (Nat × Nat)            -- `scanner.match` (span of the match object stored last)
  a : Thread
  b : Thread
  deriving DecidableEq, Repr

/-- one atomic step of a thread:
`m = match(); … self.match = m`  then  `action(self, m.group())` (the callback reads
`scan.match.start()`, `scan.match.end()`; the value comes from the local `m`), `i = j`. -/
def Thread.step (reg : Option (Nat × Nat)) (t : Thread) : Option (Nat × Nat) × Thread :=
  match t.pending with
  | some len =>
    let se := reg.getD (0, 0)
    (reg, { t with pending := none, pos := t.pos + len, emitted := t.emitted ++ [(len, se.1, se.2)] })
  | none =>
    match t.todo with
    | [] => (reg, t)
    | len :: rest => (some (t.pos, t.pos + len), { t with todo := rest, pending := some len })

/-- `true` schedules thread A, `false` thread B -/
def Sys.step (s : Sys) (who : Bool) : Sys :=
  if who then let r := s.a.step s.reg; { s with reg := r.1, a := r.2 }
  else let r := s.b.step s.reg; { s with reg := r.1, b := r.2 }

def Sys.run (s : Sys) (sched : List Bool) : Sys := sched.foldl Sys.step s

def Thread.init (lens : List Nat) : Thread := ⟨lens, 0, none, []⟩
def Sys.init (la lb : List Nat) : Sys := ⟨none, Thread.init la, Thread.init lb⟩
def Thread.done (t : Thread) : Bool := t.todo.isEmpty && t.pending.isNone

/-- positions of contiguous tokens of the given lengths, starting at `from` -/
def positionsFrom : Nat → List Nat → List (Nat × Nat)
  | _, [] => []
  | p, l :: ls => (p, p + l) :: positionsFrom (p + l) ls

def positions (lens : List Nat) : List (Nat × Nat) := positionsFrom 0 lens

/-- before 7bdea8a: the positions the callbacks recorded -/
def Thread.recorded (t : Thread) : List (Nat × Nat) := t.emitted.map fun e => (e.2.1, e.2.2)

/-- repaired `parse_expression` (expression.py:104-111): positions recomputed from `len(t.value)` -/
def Thread.fixed (t : Thread) : List (Nat × Nat) := positions (t.emitted.map (·.1))

/-! ## 6. the caller's input dict after a conversion (F23 family)

After d7ea67c the settings rows are copied before `id_string` is popped.  What `workbook_to_json`
still changes in the caller's dict: `clean_text_values` (xls2json.py:89-113) assigns the cleaned text
back into the caller's row dicts and, for the choices sheet, stores the row number under `__row`. -/

/-- a cell of an input row: text, or a non-string (the `__row` number of an earlier conversion) -/
inductive Cell where
  | str (s : Str)
  | int (n : Nat)
  deriving DecidableEq, Repr

/-- `if isinstance(value, str) and value: row[key] = clean(value)` -/
def cleanCell (sw : Bool) : Cell → Cell
  | .str s => if s.isEmpty then .str s else .str (Pyxv.Spell.cleanText sw s)
  | .int n => .int n

/-- one row through `clean_text_values(strip_whitespace=sw, add_row_number=n.isSome)`: this is both the
row the rest of the conversion reads and the row left behind in the caller's dict -/
def cleanRow (sw : Bool) (n : Option Nat) (row : List (Str × Cell)) : List (Str × Cell) :=
  let r := row.map fun kv => (kv.1, cleanCell sw kv.2)
  match n with
  | some k => aset "__row".toList (.int k) r
  | none => r

/-- a sheet: rows numbered from 2 -/
def cleanSheetFrom (sw addRow : Bool) : Nat → List (List (Str × Cell)) → List (List (Str × Cell))
  | _, [] => []
  | i, r :: rs => cleanRow sw (if addRow then some i else none) r :: cleanSheetFrom sw addRow (i + 1) rs

def cleanSheet (sw addRow : Bool) (rows : List (List (Str × Cell))) : List (List (Str × Cell)) :=
  cleanSheetFrom sw addRow 2 rows

end Pyxv.Process
