import Pyxv.Model.Base
import Pyxv.Generated.Tables
/-!
# Expression lexer: `pyxform/parsing/expression.py` and `utils.default_is_dynamic`

Mirrors
* `re.Scanner` (CPython `re/__init__.py` class `Scanner`): the lexicon is ONE alternation
  `(rule₁)|(rule₂)|…`, matched at the current position; the *first* alternative (table order) that
  matches wins (not the longest); an empty match or no match stops the scan and the rest of the
  text is the remainder;
* `get_lexer_rules()` (expression.py 5-56): one hand-coded matcher per rule.  The rule names, their
  order and their regex *sources* are regenerated into `Pyxv.Gen.lexerRules` on every run; the model
  looks the active rules up dynamically (`activeRules`): a rule whose name or source is not the
  pinned one makes the lexer answer `none` (= `unsupported`), and `Pyxv.C10.lexer_rules_pinned`
  (`decide +kernel`) fails, so a change of the table breaks the proof;
* `parse_expression` (expression.py 84-104; token positions derived from the token lengths);
* `utils.default_is_dynamic` (utils.py 221-251);
* `validators/pyxform/pyxform_reference.validate_pyxform_reference_syntax` (the token loop).

Regex semantics used: `re.Scanner` parses every phrase with `flags = 0` into ONE pattern whose own
`State` never receives `SRE_FLAG_UNICODE` (only `re.compile` of a *string* adds it), so inside the
scanner `\d` = `[0-9]` and `\s` = `[ \t\n\r\f\v]` (ASCII only — found by the correspondence run,
DESIGN Appendix F assumed Unicode-aware classes); `.` = any character but `\n`; literal
characters and ranges are code-point exact; greedy quantifiers with backtracking.  Every
matcher below is the deterministic reading of its regex; where backtracking could matter the
docstring says why it cannot.
A matcher returns the *rest* of the input after the match (`none` = no match).
-/
namespace Pyxv.Lexer
open Pyxv

/-! ## character classes -/

/-- `\d`: ASCII only (see the header: the Scanner's pattern is compiled without the UNICODE flag) -/
def isDigit (c : Char) : Bool := '0' ≤ c && c ≤ '9'

/-- `\s`: ASCII only: space, `\t \n \v \f \r` -/
def isSpace (c : Char) : Bool := c == ' ' || (9 ≤ c.toNat && c.toNat ≤ 13)

/-- the single-character alternatives of `namestartchar` (expression.py 10-15); `\xc0-\xd6]` is NOT
    a class (typo in the source): see `typoLit` -/
def isNameStart (c : Char) : Bool :=
  let n := c.toNat
  ('A' ≤ c && c ≤ 'Z') || c == '_' || ('a' ≤ c && c ≤ 'z') ||
  (0xD8 ≤ n && n ≤ 0xF6) || (0xF8 ≤ n && n ≤ 0x2FF) || (0x370 ≤ n && n ≤ 0x37D) ||
  (0x37F ≤ n && n ≤ 0x1FFF) || (0x200C ≤ n && n ≤ 0x200D) || (0x2070 ≤ n && n ≤ 0x218F) ||
  (0x2C00 ≤ n && n ≤ 0x2FEF) || (0x3001 ≤ n && n ≤ 0xD7FF) || (0xF900 ≤ n && n ≤ 0xFDCF) ||
  (0xFDF0 ≤ n && n ≤ 0xFFFD) || (0x10000 ≤ n && n ≤ 0xEFFFF)

/-- `namechar_extra` = `[-.0-9\xb7̀-ͯ‿-⁀]` -/
def isNameExtra (c : Char) : Bool :=
  let n := c.toNat
  c == '-' || c == '.' || ('0' ≤ c && c ≤ '9') || n == 0xB7 || (0x300 ≤ n && n ≤ 0x36F) ||
  (0x203F ≤ n && n ≤ 0x2040)

/-- the four-character literal alternative `À-Ö]` of `namestartchar` -/
def typoLit : Str := [Char.ofNat 0xC0, '-', Char.ofNat 0xD6, ']']

/-! ## combinators -/

/-- literal prefix -/
def lit (p : Str) (s : Str) : Option Str := if startsWith s p then some (s.drop p.length) else none

/-- exactly `k` digits (`\d{k}`) -/
def digitsN : Nat → Str → Option Str
  | 0, s => some s
  | _ + 1, [] => none
  | k + 1, c :: cs => if isDigit c then digitsN k cs else none

/-- `-?` in front of something that cannot start with `-` -/
def optMinus : Str → Str
  | '-' :: r => r
  | s => s

/-- `\d+` (greedy; what follows never starts with a digit, so no backtracking) -/
def digits1 : Str → Option Str
  | c :: cs => if isDigit c then some (cs.dropWhile isDigit) else none
  | [] => none

/-- `(start|extra)*`, greedy.  The typo literal is the only alternative that can consume `À`
    (U+00C0 is in no class), so the greedy reading is the only one. -/
def ncTail : Nat → Str → Str
  | 0, s => s
  | _, [] => []
  | f + 1, c :: cs =>
    if isNameStart c || isNameExtra c then ncTail f cs
    else if startsWith (c :: cs) typoLit then ncTail f (cs.drop 3)
    else c :: cs

/-- one NCName: `(start)(start|extra)*` -/
def ncName : Str → Option Str
  | [] => none
  | c :: cs =>
    if isNameStart c then some (ncTail cs.length cs)
    else if startsWith (c :: cs) typoLit then some (ncTail cs.length (cs.drop 3))
    else none

/-- `ncname(:ncname)?`.  The optional group is taken iff `:` is followed by an NCName; none of the
    suffixes used after it (`(`, `[`, `://`, `}`) can match where the group could, and a shorter
    first NCName would be followed by a name character — so greedy is the only successful path. -/
def qName (s : Str) : Option Str :=
  match ncName s with
  | none => none
  | some (':' :: r2) =>
    (match ncName r2 with
     | some r3 => some r3
     | none => some (':' :: r2))
  | some r => some r

/-! ## the rules (expression.py 22-56) -/

/-- `-?\d{4}-\d{2}-\d{2}` -/
def mDate (s : Str) : Option Str :=
  (digitsN 4 (optMinus s)).bind fun r => (lit ['-'] r).bind fun r => (digitsN 2 r).bind fun r =>
  (lit ['-'] r).bind fun r => digitsN 2 r

/-- `(\.\s+)?`: taken iff `.` is followed by whitespace; then all of it (whatever follows is optional) -/
def optFrac : Str → Str
  | '.' :: c :: r => if isSpace c then r.dropWhile isSpace else '.' :: c :: r
  | s => s

/-- `(((\+|\-)\d{2}:\d{2})|Z)?` -/
def optTz : Str → Str
  | 'Z' :: r => r
  | c :: r =>
    if c == '+' || c == '-' then
      match (digitsN 2 r).bind fun r1 => (lit [':'] r1).bind fun r2 => digitsN 2 r2 with
      | some r3 => r3
      | none => c :: r
    else c :: r
  | [] => []

/-- `\d{2}:\d{2}:\d{2}(\.\s+)?(((\+|\-)\d{2}:\d{2})|Z)?` -/
def mTime (s : Str) : Option Str :=
  (digitsN 2 s).bind fun r => (lit [':'] r).bind fun r => (digitsN 2 r).bind fun r =>
  (lit [':'] r).bind fun r => (digitsN 2 r).map fun r => optTz (optFrac r)

/-- date `T` time -/
def mDateTime (s : Str) : Option Str := (mDate s).bind fun r => (lit ['T'] r).bind mTime

/-- `-?\d+\.\d*|-?\.\d+|-?\d+` (alternatives in this order) -/
def mNumber (s : Str) : Option Str :=
  let r := optMinus s
  match digits1 r with
  | some ('.' :: r2) => some (r2.dropWhile isDigit)
  | some r1 => some r1          -- third alternative (the second needs `.` first)
  | none =>
    match r with
    | '.' :: r2 => digits1 r2
    | _ => none

/-- `[\*\+\-]| mod | div ` -/
def mOpsMath : Str → Option Str
  | ' ' :: 'm' :: 'o' :: 'd' :: ' ' :: r => some r
  | ' ' :: 'd' :: 'i' :: 'v' :: ' ' :: r => some r
  | c :: r => if c == '*' || c == '+' || c == '-' then some r else none
  | [] => none

/-- `\=|\!\=|\<|\>|\<=|>=`: the last two alternatives are never reached -/
def mOpsComp : Str → Option Str
  | '!' :: '=' :: r => some r
  | c :: r => if c == '=' || c == '<' || c == '>' then some r else none
  | [] => none

/-- ` and | or ` -/
def mOpsBool : Str → Option Str
  | ' ' :: 'a' :: 'n' :: 'd' :: ' ' :: r => some r
  | ' ' :: 'o' :: 'r' :: ' ' :: r => some r
  | _ => none

/-- `"[^"]*"|'[^']*'` -/
def mSysLit : Str → Option Str
  | '"' :: r => (match r.dropWhile (· != '"') with | _ :: r2 => some r2 | [] => none)
  | '\'' :: r => (match r.dropWhile (· != '\'') with | _ :: r2 => some r2 | [] => none)
  | _ => none

/-- `\s+` -/
def mWhitespace : Str → Option Str
  | c :: r => if isSpace c then some (r.dropWhile isSpace) else none
  | [] => none

/-- `\$\{(last-saved#)?ncname(:ncname)?\}`.  If `last-saved#` is present the group must be taken:
    without it the name would have to stop at `#` and `}` could not follow. -/
def mPyxformRef (s : Str) : Option Str :=
  (lit ['$', '{'] s).bind fun r =>
    let r' := match lit "last-saved#".toList r with | some x => x | none => r
    (qName r').bind fun r2 => lit ['}'] r2

/-- `.+?` as the last alternative: one character other than newline -/
def mOther : Str → Option Str
  | c :: r => if c == '\n' then none else some r
  | [] => none

def qNameThen (suffix : Str) (s : Str) : Option Str := (qName s).bind (lit suffix)

/-- the `ncname_regex` source (expression.py 10-20) -/
def srcNameStart : String :=
  "([A-Z]|_|[a-z]|\\xc0-\\xd6]|[\\xd8-\\xf6]|[\\xf8-\\u02ff]|[\\u0370-\\u037d]|[\\u037f-\\u1fff]|[\\u200c-\\u200d]|[\\u2070-\\u218f]|[\\u2c00-\\u2fef]|[\\u3001-\\uD7FF]|[\\uF900-\\uFDCF]|[\\uFDF0-\\uFFFD]|[\\U00010000-\\U000EFFFF])"
def srcNameExtra : String := "[-.0-9\\xb7\\u0300-\\u036f\\u203f-\\u2040]"
def srcNc1 : String := "(" ++ srcNameStart ++ ")(" ++ srcNameStart ++ "|" ++ srcNameExtra ++ ")*"
def srcNcName : String := srcNc1 ++ "(:" ++ srcNc1 ++ ")?"
def srcDate : String := "-?\\d{4}-\\d{2}-\\d{2}"
def srcTime : String := "\\d{2}:\\d{2}:\\d{2}(\\.\\s+)?(((\\+|\\-)\\d{2}:\\d{2})|Z)?"

/-- the pinned lexicon: rule name, regex source the matcher was written for, matcher -/
def pinned : List (String × String × (Str → Option Str)) := [
  ("DATETIME", srcDate ++ "T" ++ srcTime, mDateTime),
  ("DATE", srcDate, mDate),
  ("TIME", srcTime, mTime),
  ("NUMBER", "-?\\d+\\.\\d*|-?\\.\\d+|-?\\d+", mNumber),
  ("OPS_MATH", "[\\*\\+\\-]| mod | div ", mOpsMath),
  ("OPS_COMP", "\\=|\\!\\=|\\<|\\>|\\<=|>=", mOpsComp),
  ("OPS_BOOL", " and | or ", mOpsBool),
  ("OPS_UNION", "\\|", lit ['|']),
  ("OPEN_PAREN", "\\(", lit ['(']),
  ("CLOSE_PAREN", "\\)", lit [')']),
  ("BRACKET", "\\[\\]\\{\\}", lit ['[', ']', '{', '}']),
  ("PARENT_REF", "\\.\\.", lit ['.', '.']),
  ("SELF_REF", "\\.", lit ['.']),
  ("PATH_SEP", "\\/", lit ['/']),
  ("SYSTEM_LITERAL", "\"[^\"]*\"|'[^']*'", mSysLit),
  ("COMMA", ",", lit [',']),
  ("WHITESPACE", "\\s+", mWhitespace),
  ("PYXFORM_REF", "\\$\\{(last-saved#)?" ++ srcNcName ++ "\\}", mPyxformRef),
  ("FUNC_CALL", srcNcName ++ "\\(", qNameThen ['(']),
  ("XPATH_PRED_START", srcNcName ++ "\\[", qNameThen ['[']),
  ("XPATH_PRED_END", "\\]", lit [']']),
  ("URI_SCHEME", srcNcName ++ "://", qNameThen [':', '/', '/']),
  ("NAME", srcNcName, qName),
  ("PYXFORM_REF_START", "\\$\\{", lit ['$', '{']),
  ("PYXFORM_REF_END", "\\}", lit ['}']),
  ("OTHER", ".+?", mOther)]

/-- (name, source) pairs of the pinned lexicon: what `Pyxv.Gen.lexerRules` must be -/
def pinnedSources : List (String × String) := pinned.map fun p => (p.1, p.2.1)

abbrev Rules := List (String × (Str → Option Str))

def pinnedRules : Rules := pinned.map fun p => (p.1, p.2.2)

/-- index of the pinned rule with this name and regex source -/
def pinnedIdx (n src : String) : Option Nat := pinned.findIdx? fun p => p.1 == n && p.2.1 == src

/-- a regenerated table as indices into the pinned lexicon: every (name, source) must be a pinned one -/
def resolveIdx (table : List (String × String)) : Option (List Nat) :=
  table.mapM fun (n, src) => pinnedIdx n src

def ruleAt (i : Nat) : String × (Str → Option Str) :=
  match pinned[i]? with
  | some p => (p.1, p.2.2)
  | none => ("", fun _ => none)

/-- resolve a regenerated table against the pinned lexicon, keeping the table's order -/
def resolve (table : List (String × String)) : Option Rules :=
  (resolveIdx table).map fun idx => idx.map ruleAt

/-- the lexicon of the CURRENT source, in its order; `none` when a rule is not one the model knows -/
def activeRules : Option Rules := resolve Pyxv.Gen.lexerRules

/-! ## `re.Scanner.scan` -/

/-- the alternation at one position: first rule (table order) that matches; result = rule name and
    number of characters consumed -/
def firstMatch : Rules → Str → Option (String × Nat)
  | [], _ => none
  | (n, m) :: rs, s =>
    match m s with
    | some rest => some (n, s.length - rest.length)
    | none => firstMatch rs s

/-- `Scanner.scan` loop: stops at no match or an empty match (`if i == j: break`); returns
    (name, value) pairs and the remainder -/
def scanAux (rules : Rules) : Nat → Str → List (String × Str) × Str
  | 0, s => ([], s)
  | f + 1, s =>
    match firstMatch rules s with
    | none => ([], s)
    | some (n, k) =>
      if k = 0 then ([], s)
      else
        let r := scanAux rules f (s.drop k)
        ((n, s.take k) :: r.1, r.2)

def scanWith (rules : Rules) (s : Str) : List (String × Str) × Str := scanAux rules (s.length + 1) s

structure Token where
  name : String
  value : Str
  start : Nat
  stop : Nat
deriving Repr, DecidableEq

/-- `parse_expression`: positions are running sums of the value lengths -/
def withPos : Nat → List (String × Str) → List Token
  | _, [] => []
  | p, (n, v) :: rest => ⟨n, v, p, p + v.length⟩ :: withPos (p + v.length) rest

def parseWith (rules : Rules) (s : Str) : List Token × Str :=
  let r := scanWith rules s
  (withPos 0 r.1, r.2)

/-- `parse_expression(text)` under the current rule table -/
def parseExpression (s : Str) : Option (List Token × Str) := activeRules.map fun rules => parseWith rules s

/-- `_EXPRESSION_LEXER.scan(text)` as (name, value) pairs + remainder -/
def scan (s : Str) : Option (List (String × Str) × Str) := activeRules.map fun rules => scanWith rules s

/-! ## `utils.default_is_dynamic` -/

/-- the data type the hyphen rule looks at (utils.py, 5a69025): the `bind.type` of the type-table entry when the
    element type is a (non-empty) key of `QUESTION_TYPE_DICT` — so every spelling of a date / geo type
    (`datetime`, `q date`, `gps`, …) is treated like its data type — else the element type itself -/
def dataTypeOf (ty : Str) : Str :=
  match Pyxv.Gen.questionTypes.find? (fun p => p.1.toList == ty) with
  | some (_, e) =>
    if e.isEmpty then ty
    else match e.find? (fun x => x.1 == "bind" && x.2.1 == "type") with
      | some x => x.2.2.toList
      | none => ty
  | none => ty

/-- the loop over tokens: `hyphenType` = the data type is one of the types likely to hold a literal hyphen;
    `override` = some token of the WHOLE default is a `${reference}` or a function call (d989f12: then a hyphen
    no longer makes the default static); `dynNames` = the rule names that make a default dynamic -/
def dynLoop (dynNames : List String) (hyphenType override : Bool) : List (String × Str) → Bool
  | [] => false
  | (n, v) :: rest =>
    if hyphenType && n == "OPS_MATH" && v == ['-'] then override
    else if dynNames.contains n then true
    else dynLoop dynNames hyphenType override rest

def dynamicWith (rules : Rules) (dflt ty : Str) : Bool :=
  if dflt.isEmpty then false
  else
    let toks := (scanWith rules dflt).1
    dynLoop Pyxv.Gen.defaultDynamicTokenNames
      (Pyxv.Gen.defaultHyphenTypes.contains (String.ofList (dataTypeOf ty)))
      (toks.any fun t => Pyxv.Gen.defaultHyphenOverrideNames.contains t.1) toks

/-- `default_is_dynamic(element_default, element_type)` (`ty` = the question type NAME, as the callers pass
    `self.type`); `none` = lexer table outside the model -/
def defaultIsDynamic (dflt ty : Str) : Option Bool := activeRules.map fun rules => dynamicWith rules dflt ty

/-- the string sets of `default_is_dynamic` the property was stated for (pinned by
    `Pyxv.C10.dynamic_sets_pinned`) -/
def pinnedHyphenTypes : List String := ["date", "dateTime", "geopoint", "geotrace", "geoshape"]
def pinnedDynNames : List String := ["OPS_MATH", "OPS_UNION", "XPATH_PRED", "PYXFORM_REF", "FUNC_CALL"]
def pinnedOverrideNames : List String := ["PYXFORM_REF", "FUNC_CALL"]

/-- the classification under the PINNED lexicon and sets (the type table is read as regenerated): what
    "static" / "dynamic" mean in the property's oracle; equals `defaultIsDynamic` as long as the pin theorems
    hold (`Pyxv.C10.classification_is_pinned`) -/
def dynamicPinned (dflt ty : Str) : Bool :=
  if dflt.isEmpty then false
  else
    let toks := (scanWith pinnedRules dflt).1
    dynLoop pinnedDynNames (pinnedHyphenTypes.contains (String.ofList (dataTypeOf ty)))
      (toks.any fun t => pinnedOverrideNames.contains t.1) toks

/-! ## `validate_pyxform_reference_syntax` (token loop, pyxform_reference.py 31-60) -/

/-- state: `none` = no `${` pending; `some seen` = a `PYXFORM_REF_START` is pending and `seen` says
    whether a NAME token followed it (an empty `${}` is malformed) -/
def refLoop : Option Bool → List (String × Str) → Bool
  | st, [] => st.isNone
  | none, (n, _) :: rest => refLoop (if n == "PYXFORM_REF_START" then some false else none) rest
  | some seen, (n, _) :: rest =>
    if n == "NAME" then refLoop (some true) rest
    else if n == "PYXFORM_REF_END" && seen then refLoop none rest
    else false

/-- does the cell pass the reference-syntax check? (cells of length ≤ 2 or without `${` always do) -/
def refSyntaxOk (v : Str) : Option Bool :=
  if v.length ≤ 2 || !isInfix ['$', '{'] v then some true
  else activeRules.map fun rules => refLoop none (scanWith rules v).1

end Pyxv.Lexer
