import Pyxv.Model.Base
/-!
# Form core: survey rows → element tree → instance / binds / body references

Mirrors
* the begin/end stack of `xls2json.workbook_to_json` (xls2json.py 521-530, 772-795, 820-957,
  1398-1402): rows are appended to the `parent_children` of the innermost open control; a
  `begin` row pushes a frame, an `end` row pops it and must match the innermost frame's type;
* the generated helper rows: `<repeat>_count` calculate *before* the repeat (xls2json.py 893-912)
  and `<select>_other` text question *after* an `or_other` select (1082-1090, 1187-1188);
* `Section.validate` / `_validate_uniqueness_of_element_names` (section.py 76-104, sibling names
  unique case-insensitively) and `Survey._validate_uniqueness_of_section_names` (survey.py 288-307);
* `SurveyElement.get_xpath` (survey_element.py 238-263);
* `Section.xml_instance` with its `append_template` toggle, `generate_repeating_template`,
  `RepeatingSection.template_instance` (section.py 106-153, 219-220);
* `xml_bindings` / `xml_descendent_bindings` (one `bind` per element that has a bind dict),
  `Question.xml_control`, `GroupedSection.xml_control`, `RepeatingSection.xml_control`
  (the `ref` / `nodeset` of every body control).

Row *classification* (type cell regexes, name checks) is `Pyxv.Rows`; this file starts from
classified rows.  `loop` sections and the `flat` setting are outside the fragment.
-/
namespace Pyxv.Form

inductive Ctl where
  | group | rep | loop
deriving DecidableEq, Repr, Inhabited

/-- per-question facts that decide which parts of the XForm mention it -/
structure QData where
  name : Str
  /-- `bind` dict is not `None` → one `<bind nodeset=…>` -/
  bind : Bool
  /-- renders a body control (`xml_control` returns a node) -/
  control : Bool
  /-- contributes an instance node (false for `xml-external` / `csv-external`) -/
  node : Bool
  /-- control element name (`control.tag` of the type table) when `control` -/
  tag : Str := []
deriving DecidableEq, Repr, Inhabited

inductive RowErr where
  | noType | noName | badName | missingCalculation | other (what : Str)
deriving DecidableEq, Repr, Inhabited

/-- a classified survey row -/
inductive RowK where
  /-- disabled, empty, comment and settings-type rows: nothing reaches the tree -/
  | skip
  /-- `begin group|repeat|loop`; `helper` = the generated `<name>_count` node placed before it -/
  | begin_ (ct : Ctl) (name : Str) (bind : Bool) (helper : Option QData)
  | end_ (ct : Ctl)
  /-- a question, optionally followed by its generated `<name>_other` companion -/
  | q (d : QData) (other : Option QData)
  /-- a row-level error detected while classifying -/
  | bad (e : RowErr)
deriving Repr, Inhabited

inductive Item where
  | q (d : QData)
  | sec (ct : Ctl) (name : Str) (bind : Bool) (kids : List Item)
deriving Repr, Inhabited

inductive Err where
  | row (n : Nat) (e : RowErr)
  /-- "Unmatched end statement" citing the row -/
  | unmatchedEnd (n : Nat)
  /-- "Unmatched begin statement: type (name)" — reported after the last row -/
  | unmatchedBegin (ct : Ctl) (name : Str)
  | dupSibling (name : Str) (parent : Str)
  | dupSection (name : Str)
  /-- "There are multiple survey elements with this name" for a generated `${<repeat>_count}` reference -/
  | ambiguousRef (name : Str)
deriving DecidableEq, Repr, Inhabited

/-! ## Implementation shape: explicit stack of open frames -/

structure Frame where
  ct : Ctl
  name : Str
  bind : Bool
  kids : List Item        -- children collected so far, in order
deriving Repr

abbrev St := List Item × List Frame    -- (finished root children, open frames innermost first)

def push (t : Item) : St → St
  | (root, []) => (root ++ [t], [])
  | (root, f :: fs) => (root, { f with kids := f.kids ++ [t] } :: fs)

def pushOpt (t : Option QData) (st : St) : St :=
  match t with
  | some d => push (.q d) st
  | none => st

def step (st : St) (n : Nat) : RowK → Except Err St
  | .skip => .ok st
  | .bad e => .error (.row n e)
  | .q d other => .ok (pushOpt other (push (.q d) st))
  | .begin_ ct name bind helper =>
    let (root, fs) := pushOpt helper st
    .ok (root, ⟨ct, name, bind, []⟩ :: fs)
  | .end_ ct =>
    match st with
    | (_, []) => .error (.unmatchedEnd n)
    | (root, f :: fs) =>
      if f.ct = ct then .ok (push (.sec f.ct f.name f.bind f.kids) (root, fs))
      else .error (.unmatchedEnd n)

def run : St → List (Nat × RowK) → Except Err St
  | st, [] => .ok st
  | st, (n, r) :: rs =>
    match step st n r with
    | .ok st' => run st' rs
    | .error e => .error e

/-- the row loop of `workbook_to_json` followed by the `len(stack) != 1` check -/
def parseRows (rows : List (Nat × RowK)) : Except Err (List Item) :=
  match run ([], []) rows with
  | .ok (root, []) => .ok root
  | .ok (_, f :: _) => .error (.unmatchedBegin f.ct f.name)
  | .error e => .error e

/-! ## Specification: recursive-descent reading of the rows -/

def optItem : Option QData → List Item
  | some d => [.q d]
  | none => []

/-- items until an `end` row or the end of input; returns items and the remaining rows -/
def items : Nat → List (Nat × RowK) → Except Err (List Item × List (Nat × RowK))
  | 0, _ => .ok ([], [])          -- out of fuel (never reached with fuel > length)
  | _ + 1, [] => .ok ([], [])
  | _ + 1, (n, .end_ ct) :: rs => .ok ([], (n, .end_ ct) :: rs)
  | f + 1, (_, .skip) :: rs => items f rs
  | _ + 1, (n, .bad e) :: _ => .error (.row n e)
  | f + 1, (_, .q d other) :: rs =>
    match items f rs with
    | .ok (ts, rest) => .ok (.q d :: optItem other ++ ts, rest)
    | .error e => .error e
  | f + 1, (_, .begin_ ct name bind helper) :: rs =>
    match items f rs with
    | .ok (kids, (n', .end_ ct') :: rest) =>
      if ct = ct' then
        match items f rest with
        | .ok (ts, rest') => .ok (optItem helper ++ .sec ct name bind kids :: ts, rest')
        | .error e => .error e
      else .error (.unmatchedEnd n')
    | .ok (_, _) => .error (.unmatchedBegin ct name)
    | .error e => .error e

/-- the grammar reading of a whole sheet -/
def nest (rows : List (Nat × RowK)) : Except Err (List Item) :=
  match items (rows.length + 1) rows with
  | .ok (ts, []) => .ok ts
  | .ok (_, (n, _) :: _) => .error (.unmatchedEnd n)
  | .error e => .error e

/-! ## Validation (names) -/

def Item.name : Item → Str
  | .q d => d.name
  | .sec _ n _ _ => n

/-- first sibling (in order) whose lower-cased name was seen before -/
def firstDup (seen : List Str) : List Item → Option Str
  | [] => none
  | it :: rest =>
    let l := lowerAscii it.name
    if seen.contains l then some l else firstDup (l :: seen) rest

def dupCheck (parent : Str) (kids : List Item) : Except Err Unit :=
  match firstDup [] kids with
  | some l => .error (.dupSibling l parent)
  | none => .ok ()

mutual
/-- `Section.validate`: children first (depth-first, in order), then this section's sibling check -/
def validateItem : Item → Except Err Unit
  | .q _ => .ok ()
  | .sec _ n _ ks =>
    match validateEach ks with
    | .error e => .error e
    | .ok () => dupCheck n ks
def validateEach : List Item → Except Err Unit
  | [] => .ok ()
  | k :: rest =>
    match validateItem k with
    | .error e => .error e
    | .ok () => validateEach rest
end

/-- `Section.validate` for the children of the section named `parent` -/
def validateKids (parent : Str) (kids : List Item) : Except Err Unit :=
  match validateEach kids with
  | .error e => .error e
  | .ok () => dupCheck parent kids

mutual
/-- names of all sections, document order (`iter_descendants(isinstance Section)`) -/
def sectionNames : Item → List Str
  | .q _ => []
  | .sec _ n _ ks => n :: sectionNamesL ks
def sectionNamesL : List Item → List Str
  | [] => []
  | k :: ks => sectionNames k ++ sectionNamesL ks
end

mutual
/-- names of all questions and sections, document order (`Survey._setup_xpath_dictionary`;
    external instances are neither) -/
def allNames : Item → List Str
  | .q d => if d.node then [d.name] else []
  | .sec _ n _ ks => n :: allNamesL ks
def allNamesL : List Item → List Str
  | [] => []
  | k :: ks => allNames k ++ allNamesL ks
end

def firstDupStr (seen : List Str) : List Str → Option Str
  | [] => none
  | s :: rest => if seen.contains s then some s else firstDupStr (s :: seen) rest

/-- `Survey.validate` (names part): sibling uniqueness everywhere, then section-name uniqueness
    (the survey itself is a section) -/
def validate (root : Str) (kids : List Item) : Except Err Unit :=
  match validateKids root kids with
  | .error e => .error e
  | .ok () =>
    match firstDupStr [] (root :: sectionNamesL kids) with
    | some s => .error (.dupSection s)
    | none => .ok ()

/-! ## Instance, binds, body references -/

/-- instance name tree; `tmpl` marks `jr:template=""` -/
inductive NT where
  | node (name : Str) (tmpl : Bool) (kids : List NT)
deriving Repr, Inhabited

mutual
def NT.beq : NT → NT → Bool
  | .node a ta ka, .node b tb kb => a == b && ta == tb && NT.beqL ka kb
def NT.beqL : List NT → List NT → Bool
  | [], [] => true
  | x :: xs, y :: ys => NT.beq x y && NT.beqL xs ys
  | _, _ => false
end
instance : BEq NT := ⟨NT.beq⟩

/-- rows that reach the tree -/
def notSkip (r : Nat × RowK) : Bool :=
  match r.2 with
  | .skip => false
  | _ => true

mutual
/-- children of `Section.xml_instance(append_template := app)` -/
def instKids (app : Bool) : List Item → List NT
  | [] => []
  | .q d :: rest => (if d.node then [NT.node d.name false []] else []) ++ instKids app rest
  | .sec .rep n _ ks :: rest =>
    if app then NT.node n false (instKids true ks) :: instKids true rest
    else NT.node n true (tmplKids ks) :: NT.node n false (instKids true ks) :: instKids false rest
  | .sec _ n _ ks :: rest => NT.node n false (instKids app ks) :: instKids app rest
/-- children of `generate_repeating_template` -/
def tmplKids : List Item → List NT
  | [] => []
  | .q d :: rest => (if d.node then [NT.node d.name false []] else []) ++ tmplKids rest
  | .sec .rep n _ ks :: rest => NT.node n true (tmplKids ks) :: tmplKids rest
  | .sec _ n _ ks :: rest => NT.node n false (instKids false ks) :: tmplKids rest
end

/-- `generate_repeating_template` -/
def tmpl (n : Str) (ks : List Item) : NT := NT.node n true (tmplKids ks)

/-- the primary instance: `<root> … </root>` -/
def instanceOf (root : Str) (kids : List Item) : NT := NT.node root false (instKids false kids)

mutual
/-- nodesets of all `<bind>`s, document order (`xml_descendent_bindings`), as segment lists -/
def bindPaths (pre : List Str) : Item → List (List Str)
  | .q d => if d.bind then [pre ++ [d.name]] else []
  | .sec _ n b ks => (if b then [pre ++ [n]] else []) ++ bindPathsL (pre ++ [n]) ks
def bindPathsL (pre : List Str) : List Item → List (List Str)
  | [] => []
  | k :: ks => bindPaths pre k ++ bindPathsL pre ks
end

mutual
/-- `ref` / `nodeset` of all body controls (questions, groups, repeats), document order.
    `bodyless` groups (the meta block) are handled by the caller: they are not passed in. -/
def bodyPaths (pre : List Str) : Item → List (List Str)
  | .q d => if d.control then [pre ++ [d.name]] else []
  | .sec .rep n _ ks => (pre ++ [n]) :: (pre ++ [n]) :: bodyPathsL (pre ++ [n]) ks
  | .sec _ n _ ks => (pre ++ [n]) :: bodyPathsL (pre ++ [n]) ks
def bodyPathsL (pre : List Str) : List Item → List (List Str)
  | [] => []
  | k :: ks => bodyPaths pre k ++ bodyPathsL pre ks
end

mutual
/-- body controls (element name, `ref`/`nodeset`), document order: a question's control carries the
    tag its type prescribes; a group is `<group ref>`; a repeat is `<group ref><repeat nodeset>` -/
def bodyCtl (pre : List Str) : Item → List (Str × List Str)
  | .q d => if d.control then [(d.tag, pre ++ [d.name])] else []
  | .sec .rep n _ ks =>
    ("group".toList, pre ++ [n]) :: ("repeat".toList, pre ++ [n]) :: bodyCtlL (pre ++ [n]) ks
  | .sec _ n _ ks => ("group".toList, pre ++ [n]) :: bodyCtlL (pre ++ [n]) ks
def bodyCtlL (pre : List Str) : List Item → List (Str × List Str)
  | [] => []
  | k :: ks => bodyCtl pre k ++ bodyCtlL pre ks
end

mutual
/-- does the segment path `p` (below the root) name a node of the forest `ts`? -/
def resolvesIn : List NT → List Str → Bool
  | _, [] => true
  | [], _ :: _ => false
  | t :: ts, s :: rest => resolvesNode t s rest || resolvesIn ts (s :: rest)
def resolvesNode : NT → Str → List Str → Bool
  | .node n _ ks, s, rest => n == s && resolvesIn ks rest
end

/-- absolute path `root :: p` resolves in the instance tree -/
def resolves (inst : NT) : List Str → Bool
  | [] => false
  | r :: p => resolvesNode inst r p

/-- `get_xpath` rendering -/
def xpathStr (p : List Str) : Str := '/' :: joinWith ['/'] p

end Pyxv.Form
