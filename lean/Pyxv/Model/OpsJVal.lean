import Lean.Data.Json
import Pyxv.Model.JVal
/-!
Driver operations for the JSON-value model.  Values cross the boundary in an order-preserving
tagged form (Lean's `Json.obj` is a sorted map): `null`, `true/false`, `"str"`, `{"i": "-12"}`,
`{"a": [v, …]}`, `{"o": [[key, v], …]}`.
-/
namespace Pyxv.JV
open Lean

partial def ofWire (j : Json) : Except String J :=
  match j with
  | .null => pure .null
  | .bool b => pure (.bool b)
  | .str s => pure (.str s.toList)
  | .obj _ =>
    match j.getObjVal? "i", j.getObjVal? "a", j.getObjVal? "o" with
    | .ok (.str s), _, _ =>
      match s.toInt? with
      | some n => pure (.num n)
      | none => throw s!"bad int {s}"
    | _, .ok (.arr xs), _ => do
      let l ← xs.toList.mapM ofWire
      pure (.arr l)
    | _, _, .ok (.arr kvs) => do
      let l ← kvs.toList.mapM fun p => do
        match p with
        | .arr #[.str k, v] => do let v' ← ofWire v; pure (k.toList, v')
        | _ => throw "member expected"
      pure (.obj l)
    | _, _, _ => throw "bad wire value"
  | _ => throw "bad wire value"

partial def toWire : J → Json
  | .null => .null
  | .bool b => .bool b
  | .num n => Json.mkObj [("i", Json.str (toString n))]
  | .str s => .str (String.ofList s)
  | .arr xs => Json.mkObj [("a", Json.arr (xs.map toWire).toArray)]
  | .obj kvs => Json.mkObj [("o", Json.arr (kvs.map fun (k, v) => Json.arr #[Json.str (String.ofList k), toWire v]).toArray)]

def opsJVal (op : String) (j : Json) : Option (Except String Json) :=
  match op with
  | "jv.dumps_loads" => some do
      let v ← ofWire (← j.getObjVal? "v")
      let t := print v
      let back := match parse t with
        | some w => toWire w
        | none => Json.mkObj [("failed", true)]
      pure (Json.mkObj [("text", Json.str (String.ofList t)), ("back", back)])
  | "jv.loads" => some do
      let t ← (← j.getObjVal? "text").getStr?
      match parse t.toList with
      | some w => pure (Json.mkObj [("ok", true), ("v", toWire w)])
      | none => pure (Json.mkObj [("ok", false)])
  | _ => none

end Pyxv.JV
