import Pyxv.Model.Refs
import Pyxv.Model.Defaults
/-!
# Defaults composed with Refs: `insert_xpaths` of the C10 mechanism per C03's model

The parameter `sub ctx text` of `Pyxv.Defaults` (= `survey.insert_xpaths(text, context)`) instantiated with
`Pyxv.Refs.refFor`, C03's model of `_var_repl_function`: the element tree is translated to C03's chains
(`chainsOf`), the context element is the chain at the context path (`chainAt`), and every `${name}` of the
text (`BRACKETED_TAG_REGEX`, left to right) is replaced by the text C03's model emits (`insertRefs`).
Contexts: a dynamic default and a bind calculate are expanded from the question itself
(survey_element.py 474, 582), the value of a nested set-node from the *target* question (question.py 204-210).
Outside the fragment (`Defaults.check` answers unsupported): `last-saved#`, `indexed-repeat(`, `instance(`.
-/
namespace Pyxv.Defaults
open Pyxv

mutual
def toRefs : El → Refs.El
  | .q d => .mk .q d.name []
  | .grp n ks => .mk .group n (toRefsL ks)
  | .rep n ks => .mk .rep n (toRefsL ks)
def toRefsL : List El → List Refs.El
  | [] => []
  | e :: es => toRefs e :: toRefsL es
end

/-- all elements of the survey as C03's chains (`iter_descendants` order; the root is the survey) -/
def chainsOf (root : Str) (els : List El) : List Refs.Chain := (Refs.El.mk .group root (toRefsL els)).chains []

/-- the element at path `p` -/
def chainAt (chs : List Refs.Chain) (p : Path) : Option Refs.Chain := chs.find? fun c => c.path == p

/-- `re.sub(BRACKETED_TAG_REGEX, _var_repl_function, text)` with C03's `refFor`; a reference the model cannot
    resolve (unknown / ambiguous: `check` rejects such forms) is left in place -/
def insertRefs (chs : List Refs.Chain) (ctx : Option Refs.Chain) : Nat → Str → Str
  | 0, s => s
  | _, [] => []
  | f + 1, '$' :: '{' :: r =>
    let nm := r.takeWhile fun c => c != '}' && c != '\n'
    match r.drop nm.length with
    | '}' :: r2 =>
      (match (Refs.refFor chs ctx nm {}).text with
       | some t => t ++ insertRefs chs ctx f r2
       | none => '$' :: '{' :: nm ++ '}' :: insertRefs chs ctx f r2)
    | _ => '$' :: insertRefs chs ctx f ('{' :: r)
  | f + 1, c :: r => c :: insertRefs chs ctx f r

/-- `sub` of `Pyxv.Defaults` per C03's model -/
def subRefs (root : Str) (els : List El) : Path → Str → Str :=
  fun p s => insertRefs (chainsOf root els) (chainAt (chainsOf root els) p) (s.length + 1) s

end Pyxv.Defaults
