import Pyxv.Model.Controls
import Pyxv.Model.Warnings
import Pyxv.Model.Spell
/-!
# PreRules: two catalogue rules of `workbook_to_json` with the *text* of their diagnosis (C17)

1. **missing survey sheet** (xls2json.py:298-303): `if not workbook_dict.survey and not workbook_dict.survey_header`
   the conversion is refused with `You must have a sheet named 'survey'. ` followed by the similar-sheet-name hint of
   `find_sheet_misspellings` (model `Pyxv.Warn.findSheetMisspellings`, already tied by C20's stream `warn.misspell`).
2. **`range` parameter cell** (`parameters_generic.parse`, `process_range_question_type`, xls2json.py:172-203): the
   cell must split into `k=v` parts, the keys must lie in {start, end, step}, every value must be accepted by
   `float()`.  Composed from the tied definitions `Controls.parseParams`, `Controls.floatLit`, `Controls.notNumber`;
   this file adds the messages and the order of the three checks.

Both stages answer with the explicit outcome `pass | reject msg | unsupported`; the driver ops `c17.survey_precheck` and
`c17.range_cell` are compared with the message of the whole `convert()` by the correspondence stream R of `c17.py`.
-/
namespace Pyxv.PreRules
open Pyxv Pyxv.Controls

inductive Outcome where
  | pass
  | reject (msg : Str)
  | unsupported (why : String)
deriving DecidableEq, Repr

def quote (x : Str) : Str := '\'' :: x ++ ['\'']

/-! ## 1. missing survey sheet -/

/-- first sentence of the refusal -/
def mustHaveSurvey : Str := "You must have a sheet named 'survey'. ".toList

/-- the message of `find_sheet_misspellings(key, …)` for the candidate tuple `cands` -/
def similarMsg (key : Str) (cands : List Str) : Str :=
  "When looking for a sheet named '".toList ++ key ++ "', the following sheets with similar names were found: ".toList ++
  joinWith ", ".toList (cands.map quote) ++ ".".toList

/-- the hint appended to the refusal: nothing when `find_sheet_misspellings` returns `None` -/
def surveyHint (lower : Str → Str) (sheetNames : List Str) : Str :=
  match Warn.findSheetMisspellings lower Warn.supported "survey".toList sheetNames with
  | some c => similarMsg "survey".toList c
  | none => []

/-- xls2json.py:298-303.  `hasRows` = `bool(workbook_dict.survey)`, `hasHeader` = `bool(workbook_dict.survey_header)` -/
def surveyPrecheck (lower : Str → Str) (hasRows hasHeader : Bool) (sheetNames : List Str) : Outcome :=
  if !hasRows && !hasHeader then .reject (mustHaveSurvey ++ surveyHint lower sheetNames) else .pass

/-! ## 2. the parameter cell of a `range` row -/

def parseMsg : Str := "Expecting parameters to be in the form of 'parameter1=value parameter2=value'.".toList

def rangeNumbersMsg : Str := "Range parameters 'start', 'end' or 'step' must all be numbers.".toList

/-- `a <= b` of Python `str` (code points, shorter prefix first) -/
def strLe : Str → Str → Bool
  | [], _ => true
  | _ :: _, [] => false
  | a :: as, b :: bs => a.toNat < b.toNat || (a == b && strLe as bs)

def insertStr (x : Str) : List Str → List Str
  | [] => [x]
  | y :: ys => if strLe x y then x :: y :: ys else y :: insertStr x ys

/-- `sorted(…)` of a list of strings -/
def sortStr : List Str → List Str
  | [] => []
  | x :: xs => insertStr x (sortStr xs)

def rangeAllowed : List Str := ["start".toList, "end".toList, "step".toList]

/-- `set(parameters) - set(allowed)` (the keys of a parsed cell are distinct) -/
def extras (ps : Dict) : List Str := (ps.map (·.1)).filter fun k => !rangeAllowed.contains k

/-- `parameters_generic.validate`'s message for `allowed=("start", "end", "step")` -/
def extrasMsg (es : List Str) : Str :=
  "Accepted parameters are '".toList ++ joinWith ", ".toList (sortStr rangeAllowed) ++
  "'. The following are invalid parameter(s): '".toList ++ joinWith ", ".toList es ++ "'.".toList

/-- the `float(x)` loop of `process_range_question_type` over the values, in dict order: the first value that is not
    surely a number decides -/
def numbersCheck : Dict → Outcome
  | [] => .pass
  | kv :: rest =>
    if floatLit kv.2 then numbersCheck rest
    else if notNumber kv.2 then .reject rangeNumbersMsg
    else .unsupported "float() literal"

/-- the parameter cell `raw` of a `range` row: parse, allowed keys, numbers (the defaults filled in for missing keys
    are numbers, so only the given values matter) -/
def rangeCell (raw : Str) : Outcome :=
  match parseParams raw with
  | none => .reject parseMsg
  | some ps =>
    match extras ps with
    | [] => numbersCheck ps
    | e :: es => .reject (extrasMsg (sortStr (e :: es)))

/-- the cell as the row loop sees it: `clean_text_values(strip_whitespace=True)` of the survey sheet (xls2json.py:482,
    model `Spell.cleanText`, tied by C13) runs before `parameters_generic.parse` -/
def rangeCellOfSheet (raw : Str) : Outcome := rangeCell (Spell.cleanText true raw)

end Pyxv.PreRules
