import Lean.Data.Json
import Pyxv.Model.ToJson
import Pyxv.Model.FromJson
import Pyxv.Model.OpsJVal
/-! Driver operations for the `to_json_dict` model (element trees arrive in wire form). -/
namespace Pyxv.ToJson
open Lean Pyxv Pyxv.JV

def dictOfWire (j : Json) : Except String Dict := do
  match ← ofWire j with
  | .obj kvs => pure kvs
  | _ => throw "dict expected"

def clsOf (s : String) : Cls :=
  match s with
  | "survey" => .survey | "group" => .group | "repeat" => .repeat
  | "question" => .question | "option" => .option | _ => .other

def optOfWire (j : Json) : Except String Opt := do
  pure (← dictOfWire (← j.getObjVal? "slots"), ← dictOfWire (← j.getObjVal? "extra"))

def strPairs (j : Json) : Except String (List (Str × Str)) := do
  (← j.getArr?).toList.mapM fun p => do
    match p with
    | .arr #[.str k, .str v] => pure (k.toList, v.toList)
    | _ => throw "string pair expected"

partial def elOfWire (j : Json) : Except String El := do
  let cls := clsOf (← (← j.getObjVal? "cls").getStr?)
  let slots ← dictOfWire (← j.getObjVal? "slots")
  let qk ← (← (← j.getObjVal? "qtd").getArr?).toList.mapM fun x => do pure (← x.getStr?).toList
  let kw ← dictOfWire (← j.getObjVal? "kw")
  let scalars ← strPairs (← j.getObjVal? "scalars")
  let kids ← (← (← j.getObjVal? "kids").getArr?).toList.mapM elOfWire
  let opts ← match j.getObjVal? "opts" with
    | .ok (.arr a) => do pure (some (← a.toList.mapM optOfWire))
    | _ => pure none
  let choices ← match j.getObjVal? "choices" with
    | .ok (.arr a) => a.toList.mapM fun p => do
        match p with
        | .arr #[.str ln, .arr os] => do pure (ln.toList, ← os.toList.mapM optOfWire)
        | _ => throw "choices entry expected"
    | _ => pure []
  pure (.mk cls slots qk kw scalars kids opts choices)

/-- the type table as entries: sections in first-occurrence order; section "" holds the string defaults. -/
def entryOfRows (rows : List (String × String × String)) : Dict :=
  rows.foldl (fun acc r =>
    if r.1 = "" then acc ++ [(r.2.1.toList, J.str r.2.2.toList)]
    else
      match lookup r.1.toList acc with
      | some (.obj kvs) => dictInsert r.1.toList (.obj (kvs ++ [(r.2.1.toList, J.str r.2.2.toList)])) acc
      | _ => acc ++ [(r.1.toList, .obj [(r.2.1.toList, J.str r.2.2.toList)])]) []

def treeKeys : List String := ["parent", "children", "choices"]

/-- the builder configuration read from the tables regenerated from the source. -/
def genCfg : Cfg where
  surveyNames := (Gen.surveyFields.filter fun n => !treeKeys.contains n).map String.toList
  sectionNames := (Gen.sectionFields.filter fun n => !treeKeys.contains n).map String.toList
  questionNames := (Gen.questionFields.filter fun n => !treeKeys.contains n).map String.toList
  selectNames := (Gen.selectQuestionFields.filter fun n => !treeKeys.contains n).map String.toList
  qtd := Gen.questionTypes.map fun e => (e.1.toList, entryOfRows e.2)
  selectTags := (Gen.questionClasses.filter fun c => c.2.1 = "MultipleChoiceQuestion").map fun c => c.1.toList
  knownTags := (Gen.questionClasses.filter fun c => c.1 ≠ "osm").map fun c => c.1.toList

def opsToJson (op : String) (j : Json) : Option (Except String Json) :=
  match op with
  | "tojson.dump" => some do
      let e ← elOfWire (← j.getObjVal? "el")
      pure (toWire (toJson e []))
  | "tojson.reload_own" => some do
      -- own-slot dump / reload / dump of one element: (first dump, second dump)
      let slots ← dictOfWire (← j.getObjVal? "slots")
      let del ← (← (← j.getObjVal? "del").getArr?).toList.mapM fun x => do pure (← x.getStr?).toList
      let d1 := ownDump del slots
      let d2 := ownDump del (reloadSlots (slots.map Prod.fst) d1)
      pure (Json.mkObj [("d1", toWire (.obj d1)), ("d2", toWire (.obj d2))])
  | "tojson.reload_tree" => some do
      -- the builder model on a dumped dict, then the dump of what it built
      let d ← ofWire (← j.getObjVal? "d")
      match fromJson genCfg 200 d with
      | none => pure (Json.mkObj [("ok", false)])
      | some e => pure (Json.mkObj [("ok", true), ("dump", toWire (toJson e []))])
  | "tojson.option_reload" => some do
      -- an option: dump, reload, dump again
      let o ← optOfWire (← j.getObjVal? "opt")
      let d1 := optionDump o
      -- `Option(**d)`: the constructor's named parameters are read into slots, every other key goes to
      -- `extra_data` (the harness passes the parameter names of `Option.__init__` of the current source)
      let names ← match j.getObjVal? "names" with
        | .ok (.arr a) => a.toList.mapM fun x => do pure (← x.getStr?).toList
        | _ => pure (o.1.map Prod.fst)
      let o2 := reloadOption names d1
      pure (Json.mkObj [("d1", toWire (.obj d1)), ("extra2", toWire (.obj o2.2)), ("d2", toWire (.obj (optionDump o2)))])
  | _ => none

end Pyxv.ToJson
