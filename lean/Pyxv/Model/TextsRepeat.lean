import Pyxv.Model.Texts
/-!
# Texts, repeats: survey rows with `begin repeat` / `end repeat` at any depth

`buildElemsR` extends `Texts.buildElems` (same clauses for every other row) with the two repeat rows.  For the texts a
`RepeatingSection` is a `Section` (section.py:193-235): `get_translations`/`_setup_media` are inherited, the xpath of every
element below passes through the repeat's name, and the body is `<group ref><label/><repeat nodeset>…`; the label of the
repeat is shown like a group's label.  One difference: `RepeatingSection.xml_control` calls `xml_label` unconditionally, so a
repeat with media but no label gets a `<label ref>` where a group gets none — that shape is `unsupported` here.
Like `buildElems`, an `end …` row pops one level without checking that it matches the opening row's kind.
-/
namespace Pyxv.Texts
open Pyxv Pyxv.Headers

/-- the element of one row: key `s<i>`, xpath through the stack of open groups/repeats, the row's own slots -/
def mkElem (row : Kvs) (i : Nat) (stack : List Str) (k : EKind) : Elem :=
  { key := s "s" ++ natStr i, path := s "/data/" ++ joinWith (s "/") (stack ++ [strOf (row.get (s "name"))]), kind := k,
    label := row.get (s "label"), hint := row.get (s "hint"), guidance := row.get (s "guidance_hint"),
    media := row.get (s "media"), bind := row.get (s "bind") }

/-- kind of a row that neither opens nor closes a section -/
def leafKind (row : Kvs) (ws : List Str) : Except Str EKind :=
  if ws = [s "text"] ∨ ws = [s "integer"] ∨ ws = [s "note"] then .ok .question
  else match ws with
    | [a, l] => if a = s "select_one" ∨ a = s "select_multiple" then
        .ok (.select l (isSearch (strOf ((row.get (s "control")).asKvs.get (s "appearance")))))
      else .error (s "type")
    | _ => .error (s "type")

def isEnd (ws : List Str) : Bool := ws = [s "end", s "group"] || ws = [s "end", s "repeat"]
def isBegin (ws : List Str) : Bool := ws = [s "begin", s "group"] || ws = [s "begin", s "repeat"]

/-- a repeat that has media but no label: `<label ref>` is emitted although nothing is written as label -/
def oddRepeat (row : Kvs) (ws : List Str) : Bool :=
  ws = [s "begin", s "repeat"] && (row.get (s "label")).falsy && !(row.get (s "media")).falsy

/-- survey rows (grouped) → elements with their xpaths (stack of open groups and repeats) -/
def buildElemsR : List Kvs → Nat → List Str → Except Str (List Elem)
  | [], _, _ => .ok []
  | row :: rest, i, stack =>
    match row.get (s "type") with
    | .str t =>
      let ws := typeWords t
      if isEnd ws then buildElemsR rest (i + 1) stack.dropLast
      else if isBegin ws then
        if oddRepeat row ws then .error (s "repeat with media and no label") else
        match buildElemsR rest (i + 1) (stack ++ [strOf (row.get (s "name"))]) with
        | .ok es => .ok (mkElem row i stack .group :: es)
        | .error e => .error e
      else
        match leafKind row ws with
        | .error e => .error e
        | .ok k =>
          match buildElemsR rest (i + 1) stack with
          | .ok es => .ok (mkElem row i stack k :: es)
          | .error e => .error e
    | _ => .error (s "row without type")

end Pyxv.Texts
