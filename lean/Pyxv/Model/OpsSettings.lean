import Pyxv.Model.Json
import Pyxv.Model.SettingsSpec
import Pyxv.Model.SettingsRows
/-! Driver operations for the settings → header model and the C11 spec. -/
namespace Pyxv.Settings
open Lean Pyxv

def optStr (j : Json) (k : String) : Option Str :=
  match j.getObjVal? k with
  | .ok (.str s) => some s.toList
  | _ => none

def argsOfJson (j : Json) : Args :=
  { formName := optStr j "form_name", defaultLanguage := optStr j "default_language",
    fallback := optStr j "fallback" }

def optToJson : Option Str → Json
  | some s => jstr s
  | none => Json.null

def errToJson : Err → Json
  | .dupHeader o h => Json.mkObj [("kind", "dupHeader"), ("other", jstr o), ("header", jstr h)]
  | .invalidHeader h => Json.mkObj [("kind", "invalidHeader"), ("header", jstr h)]
  | .omitWithKey => Json.mkObj [("kind", "omitWithKey")]
  | .emptyId => Json.mkObj [("kind", "emptyId")]
  | .badName n => Json.mkObj [("kind", "badName"), ("name", jstr n)]
  | .badRef => Json.mkObj [("kind", "badRef")]
  | .xmlInvalid => Json.mkObj [("kind", "xmlInvalid")]

def headerToJson (h : Header) : Json :=
  Json.mkObj [("title", jstr h.title), ("rootName", jstr h.rootName),
    ("rootAttrs", pairsToJson h.rootAttrs),
    ("submission", match h.submission with | some l => pairsToJson l | none => Json.null),
    ("bodyClass", optToJson h.bodyClass), ("nsmap", pairsToJson h.nsmap),
    ("instanceID", Json.bool h.instanceID), ("instanceName", optToJson h.instanceName)]

def outToJson : M Header → Json
  | .ok h => Json.mkObj [("outcome", "ok"), ("header", headerToJson h)]
  | .error (.err e) => Json.mkObj [("outcome", "error"), ("err", errToJson e)]
  | .error (.unsupported w) => Json.mkObj [("outcome", "unsupported"), ("why", Json.str w)]

/-- the spec evaluated at every location where it can be defined, plus the keys the caller saw -/
def specToJson (σ : Spec.Sigma) (a : Args) (seenRoot seenSub seenNs : List Str) : Json :=
  let at_ (mk : Str → Loc) (ks : List Str) : Json :=
    pairsToJson (ks.eraseDups.filterMap fun k => (Spec.want σ a (mk k)).map fun v => (k, v))
  Json.mkObj [
    ("rejects", match Spec.rejects σ a with | some e => errToJson e | none => Json.null),
    ("title", optToJson (Spec.want σ a .title)), ("rootName", optToJson (Spec.want σ a .rootName)),
    ("rootAttrs", at_ .rootAttr (Spec.rootAttrKeys σ ++ seenRoot)),
    ("submission", if (Spec.want σ a .hasSubmission).isSome then at_ .subAttr (Spec.subAttrKeys ++ seenSub) else Json.null),
    ("bodyClass", optToJson (Spec.want σ a .bodyClass)),
    ("nsmap", at_ .ns (Spec.nsKeys σ ++ seenNs)),
    ("instanceID", Json.bool (Spec.want σ a .instanceID).isSome),
    ("instanceName", optToJson (Spec.want σ a .instanceName))]

/-- `[[type, name | null], …]` -/
def surveyRowsOfJson (j : Json) : List (Str × Option Str) :=
  match j.getObjVal? "survey_settings" with
  | .ok (.arr rows) => rows.toList.filterMap fun r =>
      match r with
      | .arr #[.str t, .str n] => some (t.toList, some n.toList)
      | .arr #[.str t, _] => some (t.toList, none)
      | _ => none
  | _ => []

def opsSettings (op : String) (j : Json) : Option (Except String Json) :=
  match op with
  | "settings.model" => some do
      let a := argsOfJson j
      match j.getObjVal? "hdr" with
      | .ok (.arr _) =>
        let hdr ← getStrList j "hdr"
        let row ← pairList (← j.getObjVal? "row")
        let dl : Json := match dealias hdr row with | .ok st => jstr (defaultLanguageOf st a) | .error _ => Json.null
        pure ((outToJson (model2 (some (hdr, row)) (surveyRowsOfJson j) a)).setObjVal! "defaultLanguage" dl)
      | _ => pure ((outToJson (model2 none (surveyRowsOfJson j) a)).setObjVal! "defaultLanguage"
                (jstr (defaultLanguageOf [] a)))
  | "settings.dealias" => some do
      let hdr ← getStrList j "hdr"
      let row ← pairList (← j.getObjVal? "row")
      match dealias hdr row with
      | .ok st => pure (Json.mkObj [("outcome", "ok"), ("settings", Json.arr (st.map fun kv =>
          Json.arr #[jstr kv.1, match kv.2 with | .s v => jstr v | .d l => pairsToJson l]).toArray)])
      | .error (.err e) => pure (Json.mkObj [("outcome", "error"), ("err", errToJson e)])
      | .error (.unsupported w) => pure (Json.mkObj [("outcome", "unsupported"), ("why", Json.str w)])
  | "settings.spec" => some do
      -- the *intended* settings: canonical name ↦ text, plus the attribute:: pairs
      let a := argsOfJson j
      let st ← pairList (← j.getObjVal? "settings")
      let at_ ← pairList (← j.getObjVal? "attribute")
      let d : Dict := cleanD ((st.map fun kv => (kv.1, SVal.s kv.2)) ++
        (if at_.isEmpty then [] else [(S "attribute", SVal.d at_)]))
      let seen (k : String) : List Str := match getStrList j k with | .ok l => l | .error _ => []
      -- settings the harness read off the survey sheet's settings rows (its own table): canonical name ↦ text
      let ov : Dict := match j.getObjVal? "overlay" with
        | .ok v => (match pairList v with | .ok l => l.map fun kv => (kv.1, SVal.s kv.2) | .error _ => [])
        | .error _ => []
      let σ : Spec.Sigma := if ov.isEmpty then (fun k => aget k d) else Spec.overlay (fun k => aget k d) a ov
      pure ((specToJson σ a (seen "seenRoot") (seen "seenSub") (seen "seenNs")).setObjVal! "defaultLanguage"
        (jstr (Spec.defaultLanguage (fun k => aget k d) a)))
  | "settings.process_header" => some do
      let h ← getStr j "h"
      let p := processHeader (getBoolD j "dc" false) h
      pure (Json.mkObj [("new", jstr p.1), ("tokens", Json.arr (p.2.map jstr).toArray),
        ("supported", Json.bool (headerSupported (getBoolD j "dc" false) h))])
  | _ => none

end Pyxv.Settings
