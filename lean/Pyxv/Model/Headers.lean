import Pyxv.Model.Base
import Pyxv.Generated.Tables
/-!
# Headers: `pyxform/parsing/sheet_headers.py`

Executable model of `to_snake_case`, `process_header`, `list_to_nested_dict`, `merge_dicts`,
`process_row`, `dealias_and_group_headers`.  Values are Python's `None | str | dict` (insertion-ordered,
unique keys); a dict is the mutually inductive `Kvs` so that `merge` is structurally recursive.
Fragment: ASCII headers (`str.lower()` is modelled on ASCII only; the driver answers `unsupported`
for a non-ASCII header), an explicit header row (`sheet_header` given).
-/
namespace Pyxv.Headers
open Pyxv

mutual
/-- a Python value occurring in a grouped row: `None`, a `str`, or a `dict[str, value]` -/
inductive V where
  | none
  | str (s : Str)
  | dict (kvs : Kvs)
/-- insertion-ordered association list (Python dict) -/
inductive Kvs where
  | nil
  | cons (k : Str) (v : V) (rest : Kvs)
end

mutual
def V.beq : V → V → Bool
  | .none, .none => true
  | .str a, .str b => a == b
  | .dict a, .dict b => Kvs.beq a b
  | _, _ => false
def Kvs.beq : Kvs → Kvs → Bool
  | .nil, .nil => true
  | .cons k v r, .cons k' v' r' => k == k' && V.beq v v' && Kvs.beq r r'
  | _, _ => false
end

/-- Python `d.get(k)` (`None` when absent) -/
def Kvs.get : Kvs → Str → V
  | .nil, _ => .none
  | .cons k v rest, q => if q = k then v else rest.get q

/-- Python `k in d` -/
def Kvs.has : Kvs → Str → Bool
  | .nil, _ => false
  | .cons k _ rest, q => q = k || rest.has q

/-- Python `d[k] = v` (keeps the position of an existing key, else appends) -/
def Kvs.set : Kvs → Str → V → Kvs
  | .nil, q, w => .cons q w .nil
  | .cons k v rest, q, w => if q = k then .cons k w rest else .cons k v (rest.set q w)

def Kvs.append : Kvs → Kvs → Kvs
  | .nil, b => b
  | .cons k v rest, b => .cons k v (rest.append b)

def Kvs.keys : Kvs → List Str
  | .nil => []
  | .cons k _ rest => k :: rest.keys

/-- the entries of `b` whose key is not in `a` (the tail of the ordered key union of `merge_dicts`) -/
def Kvs.without : Kvs → Kvs → Kvs
  | .nil, _ => .nil
  | .cons k v rest, a => if a.has k then rest.without a else .cons k v (rest.without a)

/-- Python truthiness negated: `not x` -/
def V.falsy : V → Bool
  | .none => true
  | .str [] => true
  | .dict .nil => true
  | _ => false

mutual
/-- `merge_dicts(dict_a, dict_b, default_key)` (sheet_headers.py:27-64, after the repairs b0e6b55 / 93ee817).
The recursion of the Python function on `dict_a.get(key)` is structural in `a`; the cases where `a` or `b`
is wrapped as `{default_key: x}` are unfolded.  Two plain values: the later one wins (no nesting, no
substring test).  A key of `dict_a` that is not in `dict_b` keeps its value as it is. -/
def merge (dk : Str) (a b : V) : V :=
  match a with
  | .none => b
  | .str s =>
    if s.isEmpty then b else if b.falsy then .str s else
    match b with
    | .none => .str s
    | .str t => .str t
    | .dict kb => if kb.has dk then .dict kb else .dict (.cons dk (.str s) kb)
  | .dict ka =>
    match ka with
    | .nil => b
    | .cons k v rest =>
      if b.falsy then .dict ka else
      match b with
      | .none => .dict ka
      | .str t => if ka.has dk then .dict ka else .dict (ka.append (.cons dk (.str t) .nil))
      | .dict kb => .dict ((mergeKvs dk (.cons k v rest) kb).append (kb.without ka))
/-- the loop `for key in dict_a: if key in dict_b: out[key] = merge_dicts(dict_a[key], dict_b[key])` -/
def mergeKvs (dk : Str) (ka kb : Kvs) : Kvs :=
  match ka with
  | .nil => .nil
  | .cons k v rest => .cons k (if kb.has k then merge dk v (kb.get k) else v) (mergeKvs dk rest kb)
end

/-- `list_to_nested_dict((*tokens, val))` (sheet_headers.py:59-66) -/
def nest : List Str → Str → V
  | [], val => .str val
  | t :: ts, val => .dict (.cons t (nest ts val) .nil)

def V.asKvs : V → Kvs
  | .dict k => k
  | _ => .nil

/-- `merge_dicts(out_row, {t: v}, default_language)` as used by `process_row` -/
def mergeTop (dk : Str) (out : Kvs) (t : Str) (v : V) : Kvs :=
  (merge dk (.dict out) (.dict (.cons t v .nil))).asKvs

inductive Err where
  | invalidHeader (h : Str)
  | duplicate (other h : Str)
  | missingRequired (hs : List Str)
  | internal (site : Str)
  | unsupported (why : Str)

/-- one step of the loop of `process_row` (sheet_headers.py:166-182); `hk` = `header_key` -/
def processCell (dk : Str) (hk : List (Str × List Str)) (out : Kvs) (header val : Str) : Except Err Kvs :=
  if header = "__row".toList then .ok (out.set header (.str val)) else
  match lookup header hk with
  | none => .error (.invalidHeader header)
  | some [] => .error (.invalidHeader header)
  | some [t] =>
    match out.get t with
    | .dict _ => .ok (mergeTop dk out t (.str val))
    | _ => .ok (out.set t (.str val))
  | some (t :: ts) => .ok (mergeTop dk out t (nest ts val))

/-- `process_row` (sheet_headers.py:149-184) as a left fold over the row's cells in dict order -/
def processRowFrom (dk : Str) (hk : List (Str × List Str)) : Kvs → List (Str × Str) → Except Err Kvs
  | out, [] => .ok out
  | out, (h, v) :: rest =>
    match processCell dk hk out h v with
    | .ok out' => processRowFrom dk hk out' rest
    | .error e => .error e

def processRow (dk : Str) (hk : List (Str × List Str)) (row : List (Str × Str)) : Except Err Kvs :=
  processRowFrom dk hk .nil row

/-! ## process_header -/

/-- Python `s.split()` (runs of whitespace, no empty fields) -/
def splitWs : Str → List Str
  | [] => []
  | c :: cs =>
    if pyIsSpace c then splitWs cs else
    match cs with
    | [] => [[c]]
    | d :: _ =>
      if pyIsSpace d then [c] :: splitWs cs else
      match splitWs cs with
      | [] => [[c]]
      | w :: ws => (c :: w) :: ws

/-- `to_snake_case` (sheet_headers.py:82-88), ASCII lower-casing -/
def toSnakeCase (s : Str) : Str := lowerAscii (joinWith ['_'] (splitWs s))

/-- Python `s.split("::")` -/
def splitDC : Str → List Str
  | [] => [[]]
  | [c] => [[c]]
  | c :: d :: rest =>
    if c = ':' ∧ d = ':' then [] :: splitDC rest else
    match splitDC (d :: rest) with
    | [] => [[c]]
    | f :: fs => (c :: f) :: fs

/-- the `"jr" in tokens` rewrite (sheet_headers.py:124-131); `tokens[jr_idx + 1]` raises IndexError when `jr` is last -/
def fixJr : List Str → Except Err (List Str)
  | [] => .ok []
  | t :: ts =>
    if t = "jr".toList then
      match ts with
      | [] => .error (.internal "process_header: tokens[jr_idx + 1]".toList)
      | n :: rest => .ok (("jr:".toList ++ n) :: rest)
    else
      match fixJr ts with
      | .ok r => .ok (t :: r)
      | .error e => .error e

def strTable (t : List (String × List String)) : List (Str × List Str) :=
  t.map fun (k, v) => (k.toList, v.map String.toList)

/-- `process_header` (sheet_headers.py:91-146).  Returns (`new_header`, tokens); `new_header` is `none`
when Python returns a tuple there (an alias with several tokens: it never equals the header string). -/
def processHeader (header : Str) (useDouble : Bool) (aliases : List (Str × List Str)) (columns : List Str) :
    Except Err (Option Str × List Str) :=
  if columns.contains header && (lookup header aliases).isNone then .ok (some header, [header]) else
  let hn := toSnakeCase header
  if columns.contains hn && (lookup hn aliases).isNone then .ok (some hn, [hn]) else
  let toks : Except Err (List Str) :=
    if useDouble || isInfix "::".toList header then .ok ((splitDC header).map strip)
    else fixJr ((splitOnChar ':' header).map strip)
  match toks with
  | .error e => .error e
  | .ok [] => .error (.internal "process_header: tokens[0]".toList)
  | .ok (t0 :: rest) =>
    let nh := toSnakeCase t0
    match lookup nh aliases with
    | some (a :: as) => .ok (if as.isEmpty then some a else none, (a :: as) ++ rest)
    | _ =>
      if columns.contains nh then .ok (some nh, nh :: rest)
      else .ok (some header, t0 :: rest)

structure Grouped where
  headers : List (List Str)
  rows : List Kvs

/-- the header loop of `dealias_and_group_headers` (sheet_headers.py:223-243): (header_key, tokens_key) -/
def headerLoop (useDouble : Bool) (aliases : List (Str × List Str)) (columns : List Str) :
    List Str → List (Str × List Str) → List (List Str × Str) → Except Err (List (Str × List Str) × List (List Str × Str))
  | [], hk, tk => .ok (hk, tk)
  | h :: hs, hk, tk =>
    match lookup h hk with
    | some _ => headerLoop useDouble aliases columns hs hk tk
    | none =>
      match processHeader h useDouble aliases columns with
      | .error e => .error e
      | .ok (nh, toks) =>
        let other := (tk.find? fun p => p.1 = toks).map (·.2)
        match other with
        | some o =>
          if !o.isEmpty && nh ≠ some h then .error (.duplicate o h)
          else headerLoop useDouble aliases columns hs (hk ++ [(h, toks)]) (tk.map fun p => if p.1 = toks then (toks, h) else p)
        | none => headerLoop useDouble aliases columns hs (hk ++ [(h, toks)]) (tk ++ [(toks, h)])

def mapRows (dk : Str) (hk : List (Str × List Str)) : List (List (Str × Str)) → Except Err (List Kvs)
  | [] => .ok []
  | r :: rs =>
    match processRow dk hk r with
    | .error e => .error e
    | .ok k => match mapRows dk hk rs with
      | .error e => .error e
      | .ok ks => .ok (k :: ks)

/-- `dealias_and_group_headers` (sheet_headers.py:187-267) for an explicit header row; `isSurvey` stands for
`sheet_name == constants.SURVEY` in the required-headers test -/
def dealiasAndGroupHeaders (header : List Str) (rows : List (List (Str × Str))) (aliases : List (Str × List Str))
    (columns required : List Str) (dk : Str) (isSurvey : Bool) : Except Err Grouped :=
  let useDouble := header.any fun h => isInfix "::".toList h
  match headerLoop useDouble aliases columns header [] [] with
  | .error e => .error e
  | .ok (hk, tk) =>
    match mapRows dk hk rows with
    | .error e => .error e
    | .ok data =>
      let firsts := tk.filterMap fun p => p.1.head?
      let missing := required.filter fun h => !firsts.contains h
      if !required.isEmpty && (!data.isEmpty || isSurvey) && !missing.isEmpty then .error (.missingRequired missing)
      else .ok ⟨tk.map (·.1), data⟩

def surveyAliases : List (Str × List Str) := strTable Pyxv.Gen.aliasSurveyHeader
def listAliases : List (Str × List Str) := strTable Pyxv.Gen.aliasListHeader
def surveyColumns : List Str := Pyxv.Gen.selectQuestionFields.map String.toList
def listColumns : List Str := Pyxv.Gen.optionFields.map String.toList

end Pyxv.Headers
