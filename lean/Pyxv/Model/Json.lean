import Lean.Data.Json
import Pyxv.Model.Xml
/-! JSON encodings used by the driver protocol (no proofs are stated about this file). -/
namespace Pyxv
open Lean

def jstr (s : Str) : Json := Json.str (String.ofList s)

def getStr (j : Json) (k : String) : Except String Str := do
  let v ← j.getObjVal? k
  let s ← v.getStr?
  pure s.toList

def getStrD (j : Json) (k : String) (d : String) : Str :=
  match j.getObjVal? k with
  | .ok (.str s) => s.toList
  | _ => d.toList

def getBoolD (j : Json) (k : String) (d : Bool) : Bool :=
  match j.getObjVal? k with
  | .ok (.bool b) => b
  | _ => d

def getNatD (j : Json) (k : String) (d : Nat) : Nat :=
  match j.getObjVal? k with
  | .ok v => match v.getNat? with | .ok n => n | _ => d
  | _ => d

def getArr (j : Json) (k : String) : Except String (Array Json) := do
  let v ← j.getObjVal? k
  v.getArr?

def strList (j : Json) : Except String (List Str) := do
  let a ← j.getArr?
  a.toList.mapM fun x => do let s ← x.getStr?; pure s.toList

def getStrList (j : Json) (k : String) : Except String (List Str) := do
  let v ← j.getObjVal? k
  strList v

/-- `[[k, v], …]` -/
def pairList (j : Json) : Except String (List (Str × Str)) := do
  let a ← j.getArr?
  a.toList.mapM fun x => do
    let p ← x.getArr?
    if h : p.size = 2 then
      let k ← p[0].getStr?
      let v ← p[1].getStr?
      pure (k.toList, v.toList)
    else throw "pair expected"

def pairsToJson (l : List (Str × Str)) : Json :=
  Json.arr (l.map fun (k, v) => Json.arr #[jstr k, jstr v]).toArray

namespace Xml

partial def nodeToJson : Node → Json
  | .text stock s => Json.mkObj [("x", jstr s), ("stock", Json.bool stock)]
  | .elem t a ks => Json.mkObj [("t", jstr t), ("a", pairsToJson a), ("k", Json.arr (ks.map nodeToJson).toArray)]

partial def nodeOfJson (j : Json) : Except String Node := do
  match j.getObjVal? "x" with
  | .ok (.str s) => pure (.text (getBoolD j "stock" false) s.toList)
  | _ =>
    let t ← getStr j "t"
    let a ← pairList (← j.getObjVal? "a")
    let ks ← getArr j "k"
    let kids ← ks.toList.mapM nodeOfJson
    pure (.elem t a kids)

end Xml
end Pyxv
