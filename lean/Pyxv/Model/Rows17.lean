import Pyxv.Model.Rows
/-!
# C17: `Section.validate` after the repair of the empty-section crash (pyxform bbda769)

`section.py` 75-86 as it is now: `SurveyElement.validate` (name), then **"has no questions or groups
inside it"** when `children` is empty / None, then the children (depth first, in order), then sibling-name
uniqueness.  `Form.validateItem` (shared with C02 / C04, which never generate empty sections) has no such
step; this file adds the repaired order of checks without touching it.
-/
namespace Pyxv.Rows17
open Pyxv Pyxv.Form Pyxv.Rows

inductive VErr where
  | base (e : Err)
  /-- "The group named 'g' has no questions or groups inside it." -/
  | emptySection (name : Str)
deriving Repr

def liftDup (parent : Str) (kids : List Item) : Except VErr Unit :=
  match dupCheck parent kids with
  | .error e => .error (.base e)
  | .ok () => .ok ()

mutual
/-- `Section.validate` (repaired): emptiness first, children next, sibling uniqueness last -/
def validateItem17 : Item → Except VErr Unit
  | .q _ => .ok ()
  | .sec _ n _ [] => .error (.emptySection n)
  | .sec _ n _ (k :: ks) =>
    match validateEach17 (k :: ks) with
    | .error e => .error e
    | .ok () => liftDup n (k :: ks)
def validateEach17 : List Item → Except VErr Unit
  | [] => .ok ()
  | k :: rest =>
    match validateItem17 k with
    | .error e => .error e
    | .ok () => validateEach17 rest
end

/-- `Survey.validate` (names part) on the survey's children -/
def validate17 (root : Str) (kids : List Item) : Except VErr Unit :=
  match kids with
  | [] => .error (.emptySection root)
  | _ :: _ =>
    match validateEach17 kids with
    | .error e => .error e
    | .ok () =>
      match liftDup root kids with
      | .error e => .error e
      | .ok () =>
        match firstDupStr [] (root :: sectionNamesL kids) with
        | some s => .error (.base (.dupSection s))
        | none => .ok ()

mutual
/-- no section of the tree is without children -/
def noEmpty : Item → Bool
  | .q _ => true
  | .sec _ _ _ [] => false
  | .sec _ _ _ (k :: ks) => noEmptyL (k :: ks)
def noEmptyL : List Item → Bool
  | [] => true
  | k :: rest => noEmpty k && noEmptyL rest
end

inductive Out17 where
  | unsupported (why : String)
  | rowStage (e : FormErr)
  | tree (e : VErr)
  | ok
deriving Repr

/-- rows → tree (as `Rows.formOut`), then the repaired validation -/
def formOut17 (root : Str) (lists : List Str) (rows : List Cells) (settings : Cells) : Out17 :=
  match classifyAll lists 2 rows with
  | .error w => .unsupported w
  | .ok ks =>
    match parseRows ks with
    | .error e => .rowStage (.err e)
    | .ok items =>
      match unknownTypeRows lists 2 rows with
      | n :: _ => .rowStage (.unknownType n)
      | [] =>
        match validate17 root (withMeta rows settings items) with
        | .error e => .tree e
        | .ok () => .ok

end Pyxv.Rows17
