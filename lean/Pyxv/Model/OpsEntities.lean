import Pyxv.Model.Json
import Pyxv.Model.EntitiesSpec
import Pyxv.Model.EntitiesRefs
import Pyxv.Model.EntitiesHeaders
/-! Driver operations for the entities slice (C19): `entities.model` (interpreted, regenerated code),
`entities.spec` (the documented table), `entities.ir` (what the translator produced, for the evidence). -/
namespace Pyxv.Entities
open Lean Pyxv

def xnodeToJson (n : XNode) : Json :=
  Json.mkObj [("tag", Json.str n.tag),
    ("attrs", Json.arr (n.attrs.map fun (k, v) => Json.arr #[Json.str k, jstr v]).toArray),
    ("kids", Json.arr (n.kids.map Json.str).toArray)]

def outToJson (o : Out) : Json :=
  Json.mkObj [("outcome", "ok"),
    ("entity", match o.entity with | some n => xnodeToJson n | none => Json.null),
    ("nodes", Json.arr (o.nodes.map xnodeToJson).toArray),
    ("saveto", pairsToJson o.saveto),
    ("version", match o.version with | some (a, v) => Json.arr #[Json.str a, Json.str v] | none => Json.null),
    ("xmlns", match o.xmlns with | some (p, u) => Json.arr #[jstr p, jstr u] | none => Json.null),
    ("metaKids", Json.arr (o.metaKids.map jstr).toArray)]

def rejToJson : Rej → Json
  | .msg m => Json.mkObj [("outcome", "rejected"), ("kind", "msg"), ("msg", jstr m)]
  | .columns c => Json.mkObj [("outcome", "rejected"), ("kind", "columns"), ("columns", Json.arr (c.map jstr).toArray)]
  | .internal w => Json.mkObj [("outcome", "rejected"), ("kind", "internal"), ("what", Json.str w)]
  | .unsupported w => Json.mkObj [("outcome", "unsupported"), ("why", Json.str w)]

def rowsOfJson (j : Json) (k : String) : Except String (List Cells) := do
  (← getArr j k).toList.mapM pairList

def opsEntities (op : String) (j : Json) : Option (Except String Json) :=
  match op with
  | "entities.model" => some do
      let root := getStrD j "root" "data"
      let ents ← rowsOfJson j "entities"
      let survey ← rowsOfJson j "survey"
      -- the sheet header as the implementation receives it (all columns, in order); without one: the keys
      let hdr : List Str := match j.getObjVal? "entities_header" with
        | .ok (.arr a) => a.toList.filterMap fun x => match x with | .str s => some s.toList | _ => none
        | _ => headersOf [] ents
      -- the colon-free, duplicate-free dealiasing the theorems of C19.lean start from must agree with the
      -- full header loop wherever both answer
      let legacyAgrees : Bool := match dealiasRows ents, dealiasSheet hdr ents with
        | .ok a, .ok b => a == b
        | _, _ => true
      if !legacyAgrees then
        pure (Json.mkObj [("outcome", "rejected"), ("kind", "legacy-disagrees")])
      else
      match dealiasSheet hdr ents with
      | .error e => pure (rejToJson e)
      | .ok ents' =>
        let settings : Cells := match j.getObjVal? "settings" with
          | .ok v => (match pairList v with | .ok l => l | .error _ => []) | _ => []
        let els := chainsOfRows root (!ents'.isEmpty) survey ((Rows.metaKids survey settings).map (·.name))
        let nsp := Rows.get settings "namespaces"
        if !(ents'.all (refsResolve els root)) then
          pure (rejToJson (.unsupported "reference in an entity cell does not resolve (C03)"))
        else
        match convert root (entitySub els root) settings ents' survey with
        | .error e => pure (rejToJson e)
        | .ok o => pure ((outToJson o).setObjVal! "customNs" (pairsToJson (customNs nsp !ents'.isEmpty)))
  | "entities.spec" => some do
      let root := getStrD j "root" "data"
      let ents ← rowsOfJson j "entities"
      let survey ← rowsOfJson j "survey"
      let userNs : Option (Str × Str) := match j.getObjVal? "user_entities_ns" with
        | .ok (.str x) => some (Spec.S "entities", x.toList) | _ => none
      let m : Spec.MetaCfg := { audit := getNatD j "audit" 0, omitInstanceID := getBoolD j "omit_instanceID" false,
                                instanceName := getBoolD j "instance_name" false }
      let els := chainsOfRows root (!ents.isEmpty) survey (Spec.metaKids m.audit m.omitInstanceID m.instanceName false)
      if !(ents.all (refsResolve els root)) then
        pure (Json.mkObj [("outcome", "unsupported"), ("why", "reference in an entity cell does not resolve (C03)")])
      else
      match Spec.form root (entitySub els root) (String.ofList (getStrD j "version" "")) userNs m ents survey with
      | none => pure (Json.mkObj [("outcome", "rejected")])
      | some o => pure (outToJson o)
  | "entities.names" => some do
      let s ← getStr j "s"
      pure (Json.mkObj [("dataset", Json.bool (Spec.validDatasetName s)), ("property", Json.bool (Spec.validPropertyName s))])
  | "entities.ir" => some do
      pure (Json.mkObj [
        ("fresh", Json.bool Gen.entityIrFresh),
        ("fallback_reason", Json.str Gen.entityIrFallbackReason),
        ("entityDeclBody", Json.str (toString (repr Gen.entityDeclBody))),
        ("savetoBody", Json.str (toString (repr Gen.savetoBody))),
        ("entityInstanceAttrs", Json.str (toString (repr Gen.entityInstanceAttrs))),
        ("entityBindSteps", Json.str (toString (repr Gen.entityBindSteps)))])
  | _ => none

end Pyxv.Entities
