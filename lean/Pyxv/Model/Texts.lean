import Pyxv.Model.Headers
/-!
# Texts: from grouped rows to the text a user of each language is shown

Model of `SurveyElement.get_translations`, `needs_itext_ref`, `xml_label`, `xml_hint`,
`xml_label_and_hint`, the message part of `xml_bindings` (survey_element.py:365-585),
`Survey._setup_translations`, `_setup_media`, `_add_empty_translations`, the per-form emission rules of
`itext` (survey.py:794-1040), `Itemset.requires_itext` (question.py:319-340) and the choice part of
`_generate_static_instances` (survey.py:372-390), to the extent that defines the *effective text* per
(element, kind, language).  The translation table is the list of writes `T[lang][id][form] = text`
in the order the code performs them; a later write wins (dict assignment / `update`).
Fragment (else `unsupported`): types text/integer/note/select_one/select_multiple/begin group/end group,
no `${` in texts, settings sheet with `default_language` only, form name `data`.
-/
namespace Pyxv.Texts
open Pyxv Pyxv.Headers

structure Entry where
  lang : Str
  id : Str
  form : Str
  text : V

def s (x : String) : Str := x.toList

/-- `for k, v in d.items()` -/
def Kvs.items : Kvs → List (Str × V)
  | .nil => []
  | .cons k v rest => (k, v) :: Kvs.items rest

inductive EKind where
  | question
  | group
  | select (list : Str) (search : Bool)

structure Elem where
  key : Str
  path : Str
  kind : EKind
  label : V
  hint : V
  guidance : V
  media : V
  bind : V

def isDict : V → Bool
  | .dict _ => true
  | _ => false

/-- `needs_itext_ref` (survey_element.py:461-464) -/
def needsItextRef (e : Elem) : Bool := isDict e.label || (isDict e.media && !e.media.falsy)

/-- entries of a `lang -> text` dict under one id and form -/
def dictEntries (id form : Str) : V → List Entry
  | .dict kvs => (Kvs.items kvs).map fun (l, t) => ⟨l, id, form, t⟩
  | _ => []

def msgKeys : List Str := [s "jr:constraintMsg", s "jr:requiredMsg", s "jr:noAppErrorString"]

/-- does `}` occur before any newline? -/
def closesBrace : Str → Bool
  | [] => false
  | c :: cs => if c = '}' then true else if c = '\n' then false else closesBrace cs

/-- `re.search(BRACKETED_TAG_REGEX, s)`, `\$\{(last-saved#)?(.*?)\}` -/
def hasBracketedTag : Str → Bool
  | [] => false
  | c :: cs => (startsWith (c :: cs) (s "${") && closesBrace ((c :: cs).drop 2)) || hasBracketedTag cs

/-- the itext entries of one bind message (survey_element.py:372-404): a dict is filed per language; a plain
message goes to itext — under the default language — only when it contains a `${reference}`; `jr:noAppErrorString`
only as a dict -/
def msgEntries (dl : Str) (id : Str) (k : Str) : V → List Entry
  | .dict m => dictEntries id (s "long") (.dict m)
  | .str t => if k ≠ s "jr:noAppErrorString" && !t.isEmpty && hasBracketedTag t then [⟨dl, id, s "long", .str t⟩] else []
  | .none => []

/-- the bind-message entries of `get_translations` (survey_element.py:372-404) -/
def msgsOf (dl : Str) (e : Elem) : List Entry :=
  match e.bind with
  | .dict b => if (V.dict b).falsy then [] else
      msgKeys.flatMap fun k => msgEntries dl (e.path ++ s ":" ++ k) k (b.get k)
  | _ => []

def wrapDl (dl : Str) (v : V) : V := .dict (.cons dl v .nil)

/-- the label as `get_translations` files it: a plain label next to media is wrapped under the default language -/
def labelV (dl : Str) (e : Elem) : V :=
  if needsItextRef e && !isDict e.label && !e.label.falsy then wrapDl dl e.label else e.label

/-- guidance hints always use itext: a plain one is wrapped under the default language -/
def guidanceV (dl : Str) (e : Elem) : V :=
  match e.guidance with
  | .str g => if g.isEmpty then e.guidance else wrapDl dl e.guidance
  | g => g

/-- a plain hint next to a guidance hint is wrapped under the default language -/
def hintV (dl : Str) (e : Elem) : V :=
  match e.hint, e.guidance with
  | .str h, .str g => if !h.isEmpty && !g.isEmpty then wrapDl dl e.hint else e.hint
  | .str h, .dict g => if !h.isEmpty && !(Kvs.items g).isEmpty then wrapDl dl e.hint else e.hint
  | h, _ => h

/-- `get_translations` (survey_element.py:370-459) followed by the id/form choice of `_setup_translations`
(survey.py:846-866): guidance hints go under `<path>:hint` with form `guidance`. -/
def getTranslations (dl : Str) (e : Elem) : List Entry :=
  msgsOf dl e ++ dictEntries (e.path ++ s ":label") (s "long") (labelV dl e)
       ++ dictEntries (e.path ++ s ":hint") (s "long") (hintV dl e)
       ++ dictEntries (e.path ++ s ":hint") (s "guidance") (guidanceV dl e)

/-- `_setup_media._set_up_media_translations` (survey.py:913-955); unsupported media types raise -/
def mediaEntries (dl : Str) (e : Elem) : List Entry :=
  match e.media with
  | .dict m =>
    let m := match m.get (s "default") with
      | .dict d => d
      | _ => m
    (Kvs.items m).flatMap fun (mt, v) =>
      match v with
      | .dict loc => (Kvs.items loc).map fun (l, t) => ⟨l, e.path ++ s ":label", mt, t⟩
      | v => [⟨dl, e.path ++ s ":label", mt, v⟩]
  | _ => []

structure Choice where
  key : Str
  list : Str
  idx : Nat
  label : V
  media : V

def natStr (n : Nat) : Str := (toString n).toList

def Choice.id (c : Choice) : Str := c.list ++ s "-" ++ natStr c.idx

/-- `get_choice_content` (survey.py:800-823) -/
def choiceEntries (dl : Str) (c : Choice) : List Entry :=
  let lab := if c.label.falsy then [] else
    match c.label with
    | .dict kvs => (Kvs.items kvs).flatMap fun (lang, value) =>
        match value with
        | .dict inner => (Kvs.items inner).map fun (language, val) => ⟨language, c.id, lang, val⟩
        | v => [⟨lang, c.id, s "long", v⟩]
    | v => [⟨dl, c.id, s "long", v⟩]
  let med := if c.media.falsy then [] else
    match c.media with
    | .dict kvs => (Kvs.items kvs).flatMap fun (mt, value) =>
        match value with
        | .dict inner => (Kvs.items inner).map fun (language, val) => ⟨language, c.id, mt, val⟩
        | v => [⟨dl, c.id, mt, v⟩]
    | _ => []
  lab ++ med

/-- `Itemset.requires_itext` (question.py:319-340), without the `${}` clause (outside the fragment) -/
def requiresItext (cs : List Choice) : Bool := cs.any fun c => !c.media.falsy || isDict c.label

/-- last write to `T[lang][id][form]` -/
def lookupT (T : List Entry) (lang id form : Str) : Option V :=
  T.foldl (fun acc e => if e.lang = lang ∧ e.id = id ∧ e.form = form then some e.text else acc) none

def dedup : List Str → List Str → List Str
  | [], acc => acc.reverse
  | x :: xs, acc => if acc.contains x then dedup xs acc else dedup xs (x :: acc)

/-- the languages of the table = the `<translation>` elements -/
def langsOf (T : List Entry) : List Str := dedup (T.map (·.lang)) []

/-- What `<text id>` shows in language `lang` for `form` after `_add_empty_translations` and the emission
rules of `itext()`: media values `-` are not written; text values are. -/
def shown (T : List Entry) (padIds : List Str) (lang id form : Str) : Option Str :=
  -- `paths.setdefault("<list>-<idx>", {"long": None})` for every choice of an itext list (survey.py:906-913)
  let padded := padIds.contains id && !T.isEmpty && !T.any (fun e => e.id = id)
  if !T.any (fun e => e.id = id) && !padded then some (s "<dangling:" ++ id ++ s ">") else
  let v : Option Str := match lookupT T lang id form with
    | some (.str t) => some t
    | some _ => some (s "<non-text>")
    | none => if T.any (fun e => e.id = id ∧ e.form = form) || (padded && form = s "long") then some (s "-") else none
  if form = s "long" ∨ form = s "guidance" then v
  else match v with
    | some t => if t = s "-" then none else some t
    | none => none

def mediaKinds : List Str := [s "image", s "audio", s "video", s "big-image"]

/-- where a body/bind node points: an itext id, inline text, or nothing -/
inductive Src where
  | ref (id : Str)
  | inline (t : Str)
  | absent

def strOf : V → Str
  | .str t => t
  | _ => []

def labelSrc (e : Elem) : Src :=
  if needsItextRef e then .ref (e.path ++ s ":label")
  else if !e.label.falsy then .inline (strOf e.label) else .absent

def hintSrc (e : Elem) : Src :=
  if isDict e.hint || !e.guidance.falsy then .ref (e.path ++ s ":hint")
  else if !e.hint.falsy then .inline (strOf e.hint) else .absent

def msgSrc (e : Elem) (k : Str) : Src :=
  match e.bind with
  | .dict b => match b.get k with
    | .dict _ => .ref (e.path ++ s ":" ++ k)
    | .str t => if hasBracketedTag t then .ref (e.path ++ s ":" ++ k) else .inline t
    | .none => .absent
  | _ => .absent

/-- is the element rejected by `xml_label_and_hint` (survey_element.py:507-546)? -/
def rejected (e : Elem) : Bool :=
  match e.kind with
  | .group => false
  | _ =>
    let lab := !e.label.falsy || !e.media.falsy
    let hin := !e.hint.falsy || !e.guidance.falsy
    (!lab && !hin) || (e.label.falsy && e.media.falsy && e.hint.falsy && !e.guidance.falsy) ||
    (match e.media with
     | .dict m => !m.has (s "image") && m.has (s "big-image")
     | _ => false)

/-- effective content of one source for one language (`""` = the view without any translation) -/
def via (T : List Entry) (padIds : List Str) (src : Src) (form lang : Str) : Option Str :=
  match src with
  | .absent => none
  | .inline t => if form = s "long" then (if t.isEmpty then none else some t) else none
  | .ref id => if lang.isEmpty then some (s "<itext-without-translation>") else shown T padIds lang id form

/-- (kind, language, text) triples shown for a survey element -/
def elemTexts (T : List Entry) (padIds : List Str) (view : List Str) (e : Elem) : List (Str × Str × Str) :=
  let labelNode : Bool := match e.kind with
    | .group => !e.label.falsy
    | _ => true
  let hintNode : Bool := match e.kind with
    | .group => false
    | _ => !e.hint.falsy || !e.guidance.falsy
  let lsrc := if labelNode then labelSrc e else .absent
  let hsrc := if hintNode then hintSrc e else .absent
  let plan : List (Str × Src × Str) :=
    [(s "label", lsrc, s "long")] ++
    (match lsrc with
     | .ref _ => mediaKinds.map fun m => (m, lsrc, m)
     | _ => []) ++
    [(s "hint", hsrc, s "long")] ++
    (match hsrc with
     | .ref _ => [(s "guidance_hint", hsrc, s "guidance")]
     | _ => []) ++
    [(s "constraint_message", msgSrc e (s "jr:constraintMsg"), s "long"),
     (s "required_message", msgSrc e (s "jr:requiredMsg"), s "long")]
  plan.flatMap fun (kind, src, form) =>
    view.filterMap fun lang => (via T padIds src form lang).map fun t => (kind, lang, t)

/-- the texts of one choice as shown through one select: an ordinary select reads the secondary instance
(`itextId` or in-line `label`, survey.py:372-390); a `search()` select has in-line items whose label is the itext
ref, or the plain text when the option has one (`elif option.label`, question.py:455-466, after repair 51586cd) -/
def choiceTexts (T : List Entry) (padIds : List Str) (view : List Str) (itext : Bool) (search : Bool) (_qLabel : V) (c : Choice) :
    List (Str × Str × Str) :=
  if itext then
    ((s "label", s "long") :: mediaKinds.map fun m => (m, m)).flatMap fun (kind, form) =>
      view.filterMap fun lang =>
        (if lang.isEmpty then some (s "<itext-without-translation>") else shown T padIds lang c.id form).map fun t => (kind, lang, t)
  else
    match c.label with
    | .str t =>
      if search && t.isEmpty then [] else view.map fun lang => (s "label", lang, t)
    | _ => []

structure Form where
  elems : List Elem
  choices : List Choice

structure Out where
  langs : List Str
  crash : Bool
  rejected : Bool
  texts : List (Str × List (Str × Str × Str))

def selectsOf (f : Form) : List (Elem × Str × Bool) :=
  f.elems.filterMap fun e => match e.kind with
    | .select l sr => some (e, l, sr)
    | _ => none

def listNames (cs : List Choice) : List Str := dedup (cs.map (·.list)) []

def itextLists (f : Form) : List Str :=
  (listNames f.choices).filter fun l => requiresItext (f.choices.filter fun c => c.list = l)

/-- the whole table in write order: choices of itext lists, then elements, then media (survey.py:676-682) -/
def table (dl : Str) (f : Form) : List Entry :=
  (f.choices.filter fun c => (itextLists f).contains c.list).flatMap (choiceEntries dl)
    ++ f.elems.flatMap (getTranslations dl)
    ++ f.elems.flatMap (mediaEntries dl)

def isStr : V → Bool
  | .str _ => true
  | _ => false

/-- a list used by a `search()` select and by an ordinary select is rejected (survey.py:925-940) -/
def searchClash (f : Form) : Bool :=
  (selectsOf f).any fun (_, l, sr) => sr && (selectsOf f).any fun (_, l', sr') => l' = l && !sr'

def run (dl : Str) (f : Form) : Out :=
  let T := table dl f
  let langs := langsOf T
  let view := if langs.isEmpty then [[]] else langs
  let il := itextLists f
  let padIds := (f.choices.filter fun c => il.contains c.list).map Choice.id
  { langs := langs
    crash := T.any fun e => !isStr e.text
    rejected := f.elems.any rejected || searchClash f
    texts :=
      (f.elems.map fun e => (e.key, elemTexts T padIds view e)) ++
      ((selectsOf f).flatMap fun (e, l, sr) =>
        (f.choices.filter fun c => c.list = l).map fun c =>
          (c.key ++ s "@" ++ e.key, choiceTexts T padIds view (il.contains l) sr e.label c)) }

/-! ## building the form from the two sheets -/

def typeWords (t : Str) : List Str := splitWs t

/-- does `)` occur before any newline? -/
def closesOnLine : Str → Bool
  | [] => false
  | c :: cs => if c = ')' then true else if c = '\n' then false else closesOnLine cs

/-- `re.search(r"search\(.*?\)", s)` -/
def hasSearchCall : Str → Bool
  | [] => false
  | c :: cs => (startsWith (c :: cs) (s "search(") && closesOnLine ((c :: cs).drop 7)) || hasSearchCall cs

/-- `_redirect_is_search_itext`: `appearance and len(appearance) > 7 and SEARCH_FUNCTION_REGEX.search(appearance)` -/
def isSearch (app : Str) : Bool := app.length > 7 && hasSearchCall app

/-- survey rows (grouped) → elements with their xpaths (begin/end group stack) -/
def buildElems : List Kvs → Nat → List Str → Except Str (List Elem)
  | [], _, _ => .ok []
  | row :: rest, i, stack =>
    match row.get (s "type") with
    | .str t =>
      let name := strOf (row.get (s "name"))
      let mk (k : EKind) : Elem :=
        { key := s "s" ++ natStr i, path := s "/data/" ++ joinWith (s "/") (stack ++ [name]), kind := k,
          label := row.get (s "label"), hint := row.get (s "hint"), guidance := row.get (s "guidance_hint"),
          media := row.get (s "media"), bind := row.get (s "bind") }
      let ws := typeWords t
      if ws = [s "end", s "group"] then buildElems rest (i + 1) stack.dropLast
      else if ws = [s "begin", s "group"] then
        match buildElems rest (i + 1) (stack ++ [name]) with
        | .ok es => .ok (mk .group :: es)
        | .error e => .error e
      else
        let k : Except Str EKind :=
          if ws = [s "text"] ∨ ws = [s "integer"] ∨ ws = [s "note"] then .ok .question
          else match ws with
            | [a, l] => if a = s "select_one" ∨ a = s "select_multiple" then
                .ok (.select l (isSearch (strOf ((row.get (s "control")).asKvs.get (s "appearance")))))
              else .error (s "type")
            | _ => .error (s "type")
        match k with
        | .error e => .error e
        | .ok k =>
          match buildElems rest (i + 1) stack with
          | .ok es => .ok (mk k :: es)
          | .error e => .error e
    | _ => .error (s "row without type")

def countList (l : Str) : List Choice → Nat
  | [] => 0
  | c :: cs => (if c.list = l then 1 else 0) + countList l cs

def buildChoices : List Kvs → Nat → List Choice → List Choice
  | [], _, acc => acc
  | row :: rest, i, acc =>
    let l := strOf (row.get (s "list name"))
    let c : Choice := ⟨s "c" ++ natStr i, l, countList l acc, row.get (s "label"), row.get (s "media")⟩
    buildChoices rest (i + 1) (acc ++ [c])

end Pyxv.Texts
