import Pyxv.Model.Json
import Pyxv.Model.Texts
import Pyxv.Model.TextsRepeat
import Pyxv.Model.TextSpec
/-! Driver operations of the C08 slice (headers, grouped rows, effective texts, spec). -/
namespace Pyxv.Texts
open Lean Pyxv Pyxv.Headers

mutual
partial def vToJson : V → Json
  | .none => Json.null
  | .str t => jstr t
  | .dict k => Json.arr (kvsToJson k).toArray
partial def kvsToJson : Kvs → List Json
  | .nil => []
  | .cons k v rest => Json.arr #[jstr k, vToJson v] :: kvsToJson rest
end

def errToJson : Err → Json
  | .invalidHeader h => Json.mkObj [("err", "invalidHeader"), ("h", jstr h)]
  | .duplicate o h => Json.mkObj [("err", "duplicate"), ("other", jstr o), ("h", jstr h)]
  | .missingRequired hs => Json.mkObj [("err", "missingRequired"), ("hs", Json.arr (hs.map jstr).toArray)]
  | .internal w => Json.mkObj [("err", "internal"), ("site", jstr w)]
  | .unsupported w => Json.mkObj [("err", "unsupported"), ("why", jstr w)]

def isAscii (x : Str) : Bool := x.all fun c => c.toNat < 128

/-- the names inside `${…}` occurrences of a text (a `${` without closing brace yields the rest of the text) -/
def refNames : Str → List Str
  | [] => []
  | c :: cs =>
    if startsWith (c :: cs) (s "${") then ((c :: cs).drop 2).takeWhile (· ≠ '}') :: refNames cs else refNames cs

def tablesFor (sheet : String) : List (Str × List Str) × List Str × List Str :=
  if sheet == "survey" then (surveyAliases, surveyColumns, [s "type"])
  else (listAliases, listColumns, [s "name"])

def rowsOfJson (j : Json) : Except String (List (List (Str × Str))) := do
  (← j.getArr?).toList.mapM pairList

def optStr (j : Json) (k : String) : Option Str :=
  match j.getObjVal? k with
  | .ok (.str x) => some x.toList
  | _ => none

def groupedToJson (g : Grouped) : Json :=
  Json.mkObj [("headers", Json.arr (g.headers.map fun t => Json.arr (t.map jstr).toArray).toArray),
    ("rows", Json.arr (g.rows.map fun r => Json.arr (kvsToJson r).toArray).toArray)]

def triplesToJson (ts : List (Str × Str × Str)) : Json :=
  Json.arr (ts.map fun (k, l, t) => Json.arr #[jstr k, jstr l, jstr t]).toArray

def caseOfJson (j : Json) : Except String TextSpec.Case := do
  let sc ← getStrList j "survey_cols"
  let sr ← rowsOfJson (← j.getObjVal? "survey")
  let cc ← getStrList j "choices_cols"
  let cr ← rowsOfJson (← j.getObjVal? "choices")
  let st ← pairList (← j.getObjVal? "settings")
  pure { survey := ⟨sc, sr⟩, choices := ⟨cc, cr⟩, settingDl := lookup (s "default_language") st, argDl := optStr j "arg_dl" }

/-- the model's pipeline on a case: settings → default language; both sheets through
`dealiasAndGroupHeaders`; elements, table, effective texts -/
def modelOfCase (j : Json) : Except String Json := do
  let c ← caseOfJson j
  let st ← pairList (← j.getObjVal? "settings")
  if st.any (fun p => p.1 ≠ s "default_language") then
    return Json.mkObj [("outcome", "unsupported"), ("why", "settings")]
  if !((c.survey.cols ++ c.choices.cols).all isAscii) then
    return Json.mkObj [("outcome", "unsupported"), ("why", "non-ascii header")]
  if c.choices.rows.any (fun r => r.any fun p => isInfix (s "${") p.2) then
    return Json.mkObj [("outcome", "unsupported"), ("why", "reference in a choices cell")]
  -- references in survey texts must name a row of the sheet (else the implementation rejects the form: C03/C17)
  let names := c.survey.rows.filterMap fun r => lookup (s "name") r
  if c.survey.rows.any (fun r => r.any fun p => !(refNames p.2).all names.contains) then
    return Json.mkObj [("outcome", "unsupported"), ("why", "reference to an unknown name")]
  let dl := TextSpec.defaultLanguage c
  -- the choices sheet gets `__row` (clean_text_values(add_row_number=True)); rows of the survey sheet do not
  let crows := (TextSpec.indexed c.choices.rows 2).map fun (i, r) => r ++ [(s "__row", natStr i)]
  let ch : Except Err Grouped :=
    if c.choices.rows.isEmpty then .ok ⟨[], []⟩
    else dealiasAndGroupHeaders c.choices.cols crows listAliases listColumns [s "name"] dl false
  match ch with
  | .error e => return Json.mkObj [("outcome", "error"), ("sheet", "choices"), ("err", errToJson e)]
  | .ok gch =>
  match dealiasAndGroupHeaders c.survey.cols c.survey.rows surveyAliases surveyColumns [s "type"] dl true with
  | .error e => return Json.mkObj [("outcome", "error"), ("sheet", "survey"), ("err", errToJson e)]
  | .ok gsv =>
  -- `buildElemsR` = `buildElems` + repeat rows (`C08.buildElemsR_conservative`: equal on sheets without repeat rows)
  match buildElemsR gsv.rows 0 [] with
  | .error w => return Json.mkObj [("outcome", "unsupported"), ("why", jstr w)]
  | .ok elems =>
  let f : Form := ⟨elems, buildChoices gch.rows 0 []⟩
  let o := run dl f
  return Json.mkObj [
    ("outcome", if o.crash then "crash" else if o.rejected then "rejected" else "ok"),
    ("langs", Json.arr (o.langs.map jstr).toArray),
    ("texts", Json.arr (o.texts.map fun (k, ts) => Json.arr #[jstr k, triplesToJson ts]).toArray)]

def planToJson : TextSpec.Plan → Json
  | .inline t => Json.arr #["inline", jstr t]
  | .itext m => Json.arr #["itext", pairsToJson m]

def specOfCase (j : Json) : Except String Json := do
  let c ← caseOfJson j
  let view ← getStrList j "view"
  let o := TextSpec.spec c
  let texts := o.plans.map fun (key, ps) =>
    (key, ps.flatMap fun (kind, _) => view.filterMap fun lang => (TextSpec.textOf o key kind lang).map fun t => (kind, lang, t))
  return Json.mkObj [
    ("langs", Json.arr (o.langs.map jstr).toArray),
    ("langs_content", Json.arr (o.langsContent.map jstr).toArray),
    ("plans", Json.arr (o.plans.map fun (k, ps) =>
      Json.arr #[jstr k, Json.arr (ps.map fun (kind, p) => Json.arr #[jstr kind, planToJson p]).toArray]).toArray),
    ("texts", Json.arr (texts.map fun (k, ts) => Json.arr #[jstr k, triplesToJson ts]).toArray)]

def opsTexts (op : String) (j : Json) : Option (Except String Json) :=
  match op with
  | "c08.process_header" => some do
      let h ← getStr j "header"
      let (al, cols, _) := tablesFor (String.ofList (getStrD j "sheet" "survey"))
      if !isAscii h then return Json.mkObj [("unsupported", true)]
      match processHeader h (getBoolD j "double" false) al cols with
      | .ok (nh, toks) => pure (Json.mkObj [("new_header", match nh with | some x => jstr x | none => Json.null),
          ("tokens", Json.arr (toks.map jstr).toArray)])
      | .error e => pure (errToJson e)
  | "c08.dealias" => some do
      let cols ← getStrList j "cols"
      let rows ← rowsOfJson (← j.getObjVal? "rows")
      let sheet := String.ofList (getStrD j "sheet" "survey")
      let (al, hc, req) := tablesFor sheet
      if !(cols.all isAscii) then return Json.mkObj [("unsupported", true)]
      match dealiasAndGroupHeaders cols rows al hc req (getStrD j "dl" "default") (sheet == "survey") with
      | .ok g => pure (groupedToJson g)
      | .error e => pure (errToJson e)
  | "c08.merge" => none
  | "c08.model" => some (modelOfCase j)
  | "c08.spec" => some (specOfCase j)
  | _ => none

end Pyxv.Texts
