import Pyxv.Model.Json
import Pyxv.Model.Spell
import Pyxv.Model.SpellRow
import Pyxv.Model.OpsForm
/-! Driver operations for the spelling/layout normalisations (property C13). -/
namespace Pyxv.Spell
open Lean Pyxv

def strsToJson (l : List Str) : Json := Json.arr (l.map jstr).toArray

mutual
partial def valToJson : Val → Json
  | .str s => jstr s
  | .dict d => Json.mkObj [("d", Json.arr (kvsToJson d).toArray)]
partial def kvsToJson : KVs → List Json
  | .nil => []
  | .cons k v rest => Json.arr #[jstr k, valToJson v] :: kvsToJson rest
end

def cellOfJson (j : Json) : Except String (List Str × Str) := do
  let a ← j.getArr?
  if h : a.size = 2 then
    let toks ← strList a[0]
    let v ← a[1].getStr?
    pure (toks, v.toList)
  else throw "cell expected"

def opsSpell (op : String) (j : Json) : Option (Except String Json) :=
  match op with
  | "spell.snake" => some do
      let s ← getStr j "s"
      pure (Json.mkObj [("v", jstr (toSnake s)), ("supported", Json.bool (s.all lowerSupported))])
  | "spell.header" => some do
      let h ← getStr j "h"
      let sheet := String.ofList (getStrD j "sheet" "survey")
      match tablesOf sheet with
      | none => throw s!"no header tables for sheet {sheet}"
      | some T =>
        if !(h.all lowerSupported) then pure (Json.mkObj [("outcome", "unsupported")]) else
        match processHeader T (getBoolD j "double" false) h with
        | .error .jrLast => pure (Json.mkObj [("outcome", "error"), ("err", "IndexError")])
        | .ok r => pure (Json.mkObj [("outcome", "ok"), ("changed", Json.bool r.changed), ("tokens", strsToJson r.tokens)])
  | "spell.clean" => some do
      let s ← getStr j "s"
      pure (jstr (cleanText (getBoolD j "strip" true) s))
  | "spell.type" => some do
      let s ← getStr j "s"
      pure (jstr (dealiasType s))
  | "spell.yesno" => some do
      let s ← getStr j "s"
      pure (match yesNo s with | some b => Json.bool b | none => Json.null)
  | "spell.bind" => some do
      let s ← getStr j "s"
      pure (jstr (bindConv s))
  | "spell.sheets" => some do
      let names ← getStrList j "names"
      let idx := (List.range names.length).map fun i => (toString i).toList
      let sel := selectSheets (names.zip idx)
      let unsup := !(names.all fun n => n.all lowerSupported)
      pure (Json.mkObj [("supported", Json.bool (!unsup)),
        ("sel", Json.arr (sel.map fun (k, i) => Json.arr #[jstr k, jstr i]).toArray)])
  | "spell.rowflat" => some do
      let row ← pairList (← j.getObjVal? "row")
      let hk ← pairList (← j.getObjVal? "key")
      pure (pairsToJson (processRowFlat (fun h => (lookup h hk).getD h) row))
  | "spell.row" => some do
      let dl ← getStr j "dl"
      let cells ← (← getArr j "cells").toList.mapM cellOfJson
      pure (Json.arr (kvsToJson (processRow dl cells)).toArray)
  | "spell.form_raw" => some do
      -- raw survey sheet (header row + grid of cell texts, "" = empty) and raw settings row through the
      -- header stage, then the structural pipeline of Pyxv.Rows
      let hs ← getStrList j "headers"
      let grid ← (← getArr j "rows").toList.mapM strList
      let lists ← getStrList j "lists"
      let sh ← getStrList j "settings_headers"
      let sv ← getStrList j "settings_values"
      if !((hs ++ sh).all fun h => h.all lowerSupported) then pure (Json.mkObj [("outcome", "unsupported"), ("why", "header alphabet")]) else
      let d := hs.any hasDC
      -- workbook_to_json order: clean_text_values, dealias_and_group_headers, dealias_types
      let settings := stageRow settingsT (sh.any hasDC) sh (sv.map (cleanText false))
      let root := (lookup "name".toList settings).getD "data".toList
      let rows := (headerStage surveyT d hs (grid.map fun r => r.map (cleanText true))).map fun r =>
        r.map fun kv => if kv.1 = "type".toList then (kv.1, dealiasType kv.2) else kv
      pure (Form.formModel root lists rows settings)
  | _ => none

end Pyxv.Spell
