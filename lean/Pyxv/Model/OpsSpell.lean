import Pyxv.Model.Json
import Pyxv.Model.Spell
/-! Driver operations for the spelling/layout normalisations (property C13). -/
namespace Pyxv.Spell
open Lean Pyxv

def strsToJson (l : List Str) : Json := Json.arr (l.map jstr).toArray

def opsSpell (op : String) (j : Json) : Option (Except String Json) :=
  match op with
  | "spell.snake" => some do
      let s ← getStr j "s"
      pure (Json.mkObj [("v", jstr (toSnake s)), ("supported", Json.bool (s.all lowerSupported))])
  | "spell.header" => some do
      let h ← getStr j "h"
      let sheet := String.ofList (getStrD j "sheet" "survey")
      match tablesOf sheet with
      | none => throw s!"no header tables for sheet {sheet}"
      | some T =>
        if !(h.all lowerSupported) then pure (Json.mkObj [("outcome", "unsupported")]) else
        match processHeader T (getBoolD j "double" false) h with
        | .error .jrLast => pure (Json.mkObj [("outcome", "error"), ("err", "IndexError")])
        | .ok r => pure (Json.mkObj [("outcome", "ok"), ("changed", Json.bool r.changed), ("tokens", strsToJson r.tokens)])
  | "spell.clean" => some do
      let s ← getStr j "s"
      pure (jstr (cleanText (getBoolD j "strip" true) s))
  | "spell.type" => some do
      let s ← getStr j "s"
      pure (jstr (dealiasType s))
  | "spell.yesno" => some do
      let s ← getStr j "s"
      pure (match yesNo s with | some b => Json.bool b | none => Json.null)
  | "spell.bind" => some do
      let s ← getStr j "s"
      pure (jstr (bindConv s))
  | "spell.sheets" => some do
      let names ← getStrList j "names"
      let idx := (List.range names.length).map fun i => (toString i).toList
      let sel := selectSheets (names.zip idx)
      let unsup := !(names.all fun n => n.all lowerSupported)
      pure (Json.mkObj [("supported", Json.bool (!unsup)),
        ("sel", Json.arr (sel.map fun (k, i) => Json.arr #[jstr k, jstr i]).toArray)])
  | "spell.rowflat" => some do
      let row ← pairList (← j.getObjVal? "row")
      let hk ← pairList (← j.getObjVal? "key")
      pure (pairsToJson (processRowFlat (fun h => (lookup h hk).getD h) row))
  | _ => none

end Pyxv.Spell
