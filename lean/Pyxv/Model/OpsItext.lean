import Pyxv.Model.Json
import Pyxv.Model.Itext
/-! Driver operations for the itext model (C07): `itext.model`, `itext.holds`, `itext.fn`. -/
namespace Pyxv.Itext
open Lean Pyxv

def txtOfJson (j : Json) : Except String Txt :=
  match j with
  | .null => pure .none
  | .str s => pure (.str s.toList)
  | _ => do
    let d ← pairList (← j.getObjVal? "d")
    pure (.dict d)

def mediaOfJson (j : Json) : Except String (Option Media) :=
  match j with
  | .null => pure none
  | _ => do
    let a ← j.getArr?
    let l ← a.toList.mapM fun x => do
      let p ← x.getArr?
      if h : p.size = 2 then
        let k ← p[0].getStr?
        let v ← txtOfJson p[1]
        pure (k.toList, v)
      else throw "pair expected"
    pure (some l)

def getTxt (j : Json) (k : String) : Except String Txt :=
  match j.getObjVal? k with
  | .ok v => txtOfJson v
  | .error _ => pure .none

def optStr (j : Json) (k : String) : Option Str :=
  match j.getObjVal? k with
  | .ok (.str s) => some s.toList
  | _ => none

def clsOf (s : Str) : Cls :=
  if s == "Question".toList then .question
  else if s == "InputQuestion".toList || s == "TriggerQuestion".toList || s == "UploadQuestion".toList
      || s == "RangeQuestion".toList then .control
  else if s == "MultipleChoiceQuestion".toList then .select
  else if s == "GroupedSection".toList then .group
  else if s == "RepeatingSection".toList then .repeat
  else if s == "ExternalInstance".toList || s == "EntityDeclaration".toList then .inert
  else if s == "OsmUploadQuestion".toList then .osm
  else if s == "Survey".toList then .group
  else .other

partial def elemOfJson (j : Json) : Except String Elem := do
  let msgsJ ← match j.getObjVal? "msgs" with
    | .ok v => do
      let a ← v.getArr?
      a.toList.mapM fun x => do
        let p ← x.getArr?
        if h : p.size = 2 then
          let k ← p[0].getStr?
          let v ← txtOfJson p[1]
          pure (k.toList, v)
        else throw "pair expected"
    | .error _ => pure []
  let media ← match j.getObjVal? "media" with
    | .ok v => mediaOfJson v
    | .error _ => pure none
  let d : ElemD := {
    cls := clsOf (getStrD j "cls" "")
    name := ← getStr j "name"
    type := getStrD j "type" ""
    label := ← getTxt j "label"
    hint := ← getTxt j "hint"
    guidance := ← getTxt j "guidance"
    media := media
    msgs := msgsJ
    hasCalc := getBoolD j "calc" false
    trigger := getBoolD j "trigger" false
    bodyless := getBoolD j "bodyless" false
    flat := getBoolD j "flat" false
    appearance := optStr j "appearance"
    itemset := optStr j "itemset"
    list := getStrD j "list" ""
    hasChoices := getBoolD j "hasChoices" false
    tags := ← (match j.getObjVal? "tags" with
      | .ok v => do
        let a ← v.getArr?
        a.toList.mapM fun x => do
          let p ← x.getArr?
          if h : p.size = 2 then
            let k ← p[0].getStr?
            let v ← txtOfJson p[1]
            pure (k.toList, v)
          else throw "pair expected"
      | .error _ => pure []) }
  let ks ← match j.getObjVal? "kids" with
    | .ok v => do let a ← v.getArr?; a.toList.mapM elemOfJson
    | .error _ => pure []
  pure (.node d ks)

def surveyOfJson (j : Json) : Except String Survey := do
  let lists ← (← getArr j "lists").toList.mapM fun l => do
    let opts ← (← getArr l "options").toList.mapM fun o => do
      let media ← match o.getObjVal? "media" with
        | .ok v => mediaOfJson v
        | .error _ => pure none
      pure ({ label := ← getTxt o "label", media := media } : Opt)
    pure ({ name := ← getStr l "name", options := opts } : CList)
  pure { defaultLanguage := ← getStr j "defaultLanguage", lists := lists, root := ← elemOfJson (← j.getObjVal? "root") }

def strsToJson (l : List Str) : Json := Json.arr (l.map jstr).toArray

def trToJson (t : Tr) : Json :=
  Json.mkObj [("lang", jstr t.lang), ("default", Json.bool t.isDefault), ("ids", strsToJson t.ids),
    ("forms", Json.arr (t.texts.map fun tf => Json.arr (tf.2.map fun o => match o.1 with
      | some f => jstr f | none => Json.null).toArray).toArray),
    ("values", Json.arr (t.texts.map fun tf => Json.arr (tf.2.map fun o => match o.2 with
      | some f => jstr f | none => Json.null).toArray).toArray)]

def trOfJson (j : Json) : Except String Tr := do
  let ids ← getStrList j "ids"
  pure { lang := ← getStr j "lang", isDefault := getBoolD j "default" false, texts := ids.map fun i => (i, []) }

def holdsToJson (o : Obs) : Json :=
  let dangling := o.refs.filter fun r => !(!o.translations.isEmpty && o.translations.all fun t => t.ids.contains r)
  Json.mkObj [("ok", Json.bool (holds o)), ("refsExist", Json.bool (refsExist o)), ("uniform", Json.bool (uniform o)),
    ("noDup", Json.bool (noDup o)), ("defaultOk", Json.bool (defaultOk o)), ("dangling", strsToJson dangling)]

def opsItext (op : String) (j : Json) : Option (Except String Json) :=
  match op with
  | "itext.model" => some do
      let x ← surveyOfJson (← j.getObjVal? "survey")
      match run x with
      | .unsupported w => pure (Json.mkObj [("outcome", "unsupported"), ("why", Json.str w)])
      | .error ks => pure (Json.mkObj [("outcome", "error"), ("kinds", Json.arr (ks.map Json.str).toArray)])
      | .ok o =>
        pure (Json.mkObj [("outcome", "ok"), ("translations", Json.arr (o.translations.map trToJson).toArray),
          ("bodyRefs", strsToJson o.bodyRefs), ("bindRefs", strsToJson o.bindRefs), ("itemIds", strsToJson o.itemIds),
          ("holds", holdsToJson (obsOf x.defaultLanguage o)),
          ("guard", Json.mkObj [("wf", Json.bool (wf x)), ("choicesLabeled", Json.bool (choicesLabeled x))])])
  | "itext.holds" => some do
      let ts ← (← getArr j "translations").toList.mapM trOfJson
      let refs ← getStrList j "refs"
      let dl ← getStr j "defaultLanguage"
      pure (holdsToJson { translations := ts, refs := refs, defaultLanguage := dl })
  | "itext.fn" => some do
      let s ← getStr j "s"
      match getStrD j "fn" "" |> String.ofList with
      | "hasPyxformRef" => pure (Json.bool (hasPyxformRef s))
      | "hasBracketedTag" => pure (Json.bool (hasBracketedTag s))
      | "isSearch" => pure (Json.bool (isSearch { (default : ElemD) with appearance := some s }))
      | "splitExt" => pure (jstr (splitExt s))
      | f => throw s!"unknown fn {f}"
  | _ => none

end Pyxv.Itext
