import Pyxv.Model.Base
/-!
# JVal: JSON values, `json.dumps` (defaults) and a reader for its output

`J` is the value space of pyxform's JSON intermediate form: what `xls2json.workbook_to_json`
returns and what `SurveyElement.to_json_dict` returns — `None`, `bool`, `int`, `str`, `list`,
`dict` with string keys (insertion ordered: an association list).  Floats do not occur in the
intermediate form; the driver boundary answers `unsupported` for them.

`print` mirrors CPython's `json.dumps(obj)` with its defaults, i.e. `JSONEncoder(ensure_ascii=True,
separators=(", ", ": "), indent=None, sort_keys=False)`: `json/encoder.py` `_make_iterencode`
(`_iterencode_list`, `_iterencode_dict`, `int.__repr__`) and `py_encode_basestring_ascii`
(`ESCAPE_ASCII = ([\\"]|[^\ -~])`, `ESCAPE_DCT`, `\uXXXX` with lower-case hex digits, a
surrogate pair for code points ≥ 0x10000).  This is the text `SurveyElement.to_json`
(survey_element.py:349) produces and `builder.create_survey_element_from_json` →
`utils.get_pyobj_from_json` → `json.loads` (utils.py:151-164) reads.

`parse` mirrors `json.loads` (`json/decoder.py` `JSONDecoder.decode`, `scanner.py_make_scanner`,
`py_scanstring` with `strict=True`, `JSONObject`, `JSONArray`) on the integer-only fragment:
whitespace ` \t\n\r` between tokens, the short escapes incl. `\/`, `\uXXXX` in either case with
surrogate-pair joining, integers `-?(0|[1-9]\d*)`; `none` where `json.loads` raises, and also
(outside the fragment) for fractions/exponents, the constants `NaN`/`Infinity`, and a lone
surrogate escape, which Python keeps as a lone surrogate code point that `Char` cannot hold.
Fuel-indexed; the proofs (`Proofs/JValLemmas.lean`, `Proofs/C16.lean`) show that the fuel
`parse` supplies is enough.
-/
namespace Pyxv.JV

inductive J where
  | null
  | bool (b : Bool)
  | num (n : Int)
  | str (s : Str)
  | arr (xs : List J)
  | obj (kvs : List (Str × J))
  deriving Repr, Inhabited

/-! ## Printer (`json.dumps`) -/

/-- one lower-case hex digit (`'{:04x}'.format`). -/
def hexDigit (d : Nat) : Char :=
  if d < 10 then Char.ofNat (48 + d) else Char.ofNat (87 + d)

/-- `'\\u{0:04x}'.format(n)` for `n < 0x10000`. -/
def u4 (n : Nat) : Str :=
  ['\\', 'u', hexDigit (n / 4096 % 16), hexDigit (n / 256 % 16), hexDigit (n / 16 % 16), hexDigit (n % 16)]

/-- `py_encode_basestring_ascii.replace` (json/encoder.py:58-72) for one character. -/
def escChar (c : Char) : Str :=
  if c = '"' then ['\\', '"']
  else if c = '\\' then ['\\', '\\']
  else if c = '\n' then ['\\', 'n']
  else if c = '\r' then ['\\', 'r']
  else if c = '\t' then ['\\', 't']
  else if c = Char.ofNat 8 then ['\\', 'b']
  else if c = Char.ofNat 12 then ['\\', 'f']
  else if 32 ≤ c.toNat ∧ c.toNat ≤ 126 then [c]
  else if c.toNat < 0x10000 then u4 c.toNat
  else
    -- `n -= 0x10000; s1 = 0xd800 | ((n >> 10) & 0x3ff); s2 = 0xdc00 | (n & 0x3ff)` written
    -- arithmetically (n < 0x100000, so the masks and ors are exactly these quotients and sums)
    let n := c.toNat - 0x10000
    u4 (0xD800 + n / 1024 % 1024) ++ u4 (0xDC00 + n % 1024)

/-- the body of a string literal. -/
def escStr : Str → Str
  | [] => []
  | c :: cs => escChar c ++ escStr cs

/-- `'"' + ESCAPE_ASCII.sub(replace, s) + '"'`. -/
def printStr (s : Str) : Str := '"' :: (escStr s ++ ['"'])

def digitChar (d : Nat) : Char := Char.ofNat (48 + d)

/-- decimal digits of a natural number, most significant first (fuel = any bound > number of digits). -/
def natDigitsF : Nat → Nat → Str
  | 0, _ => []
  | f + 1, n => if n < 10 then [digitChar n] else natDigitsF f (n / 10) ++ [digitChar (n % 10)]

def natDigits (n : Nat) : Str := natDigitsF (n + 1) n

/-- `int.__repr__`. -/
def printInt (n : Int) : Str :=
  if n < 0 then '-' :: natDigits n.natAbs else natDigits n.toNat

mutual
/-- `json.dumps(j)` -/
def print : J → Str
  | .null => ['n', 'u', 'l', 'l']
  | .bool true => ['t', 'r', 'u', 'e']
  | .bool false => ['f', 'a', 'l', 's', 'e']
  | .num n => printInt n
  | .str s => printStr s
  | .arr [] => ['[', ']']
  | .arr (x :: xs) => '[' :: (print x ++ printElems xs)
  | .obj [] => ['{', '}']
  | .obj ((k, v) :: rest) => '{' :: (printStr k ++ [':', ' '] ++ print v ++ printMembers rest)
/-- the rest of a list after its first element: `, x` for each, then `]`. -/
def printElems : List J → Str
  | [] => [']']
  | x :: xs => [',', ' '] ++ print x ++ printElems xs
/-- the rest of a dict after its first member: `, "k": v` for each, then `}`. -/
def printMembers : List (Str × J) → Str
  | [] => ['}']
  | (k, v) :: rest => [',', ' '] ++ printStr k ++ [':', ' '] ++ print v ++ printMembers rest
end

/-! ## Reader (`json.loads`) -/

/-- `WHITESPACE = [ \t\n\r]*` -/
def isWs (c : Char) : Bool := c = ' ' ∨ c = '\t' ∨ c = '\n' ∨ c = '\r'

def skipWs : Str → Str
  | [] => []
  | c :: cs => if isWs c then skipWs cs else c :: cs

def hexVal (c : Char) : Option Nat :=
  let n := c.toNat
  if 48 ≤ n ∧ n ≤ 57 then some (n - 48)
  else if 97 ≤ n ∧ n ≤ 102 then some (n - 87)
  else if 65 ≤ n ∧ n ≤ 70 then some (n - 55)
  else none

/-- `_decode_uXXXX`: four hex digits. -/
def readU4 : Str → Option (Nat × Str)
  | a :: b :: c :: d :: rest =>
    match hexVal a, hexVal b, hexVal c, hexVal d with
    | some x, some y, some z, some w => some (((x * 16 + y) * 16 + z) * 16 + w, rest)
    | _, _, _, _ => none
  | _ => none

/-- a code point as a `Char` (`none` for a surrogate, which Python would keep as a lone surrogate). -/
def charOfNat? (n : Nat) : Option Char :=
  if n < 0xD800 ∨ (0xDFFF < n ∧ n < 0x110000) then some (Char.ofNat n) else none

/-- the one-character escapes of `BACKSLASH` (json/decoder.py:59-63). -/
def simpleEsc (e : Char) : Option Char :=
  if e = '"' then some '"' else if e = '\\' then some '\\' else if e = '/' then some '/'
  else if e = 'b' then some (Char.ofNat 8) else if e = 'f' then some (Char.ofNat 12)
  else if e = 'n' then some '\n' else if e = 'r' then some '\r' else if e = 't' then some '\t'
  else none

/-- one step of `py_scanstring`: the closing quote, one decoded character, or an error. -/
inductive StrStep where
  | close (rest : Str)
  | char (c : Char) (rest : Str)
  | bad

/-- after `\u`: four hex digits; a high surrogate is joined with a following `\uDC00..\uDFFF`
    (`0x10000 + (((uni - 0xd800) << 10) | (uni2 - 0xdc00))`, written arithmetically).  A lone surrogate
    (Python keeps it as a lone surrogate code point) is outside the fragment: `bad`. -/
def uStep (rest : Str) : StrStep :=
  match readU4 rest with
  | none => .bad
  | some (n, rest1) =>
    if 0xD800 ≤ n ∧ n ≤ 0xDBFF then
      match rest1 with
      | b :: u :: rest2 =>
        if b = '\\' ∧ u = 'u' then
          match readU4 rest2 with
          | none => .bad
          | some (m, rest3) =>
            if 0xDC00 ≤ m ∧ m ≤ 0xDFFF then
              match charOfNat? (0x10000 + (n - 0xD800) * 1024 + (m - 0xDC00)) with
              | none => .bad
              | some ch => .char ch rest3
            else .bad
        else .bad
      | _ => .bad
    else
      match charOfNat? n with
      | none => .bad
      | some ch => .char ch rest1

/-- strict mode: a raw control character is an error. -/
def strStep : Str → StrStep
  | [] => .bad
  | c :: cs =>
    if c = '"' then .close cs
    else if c = '\\' then
      match cs with
      | [] => .bad
      | e :: rest =>
        if e = 'u' then uStep rest
        else match simpleEsc e with
          | none => .bad
          | some ch => .char ch rest
    else if c.toNat < 32 then .bad
    else .char c cs

/-- `py_scanstring` after the opening quote.  Returns the decoded string and the input after the
    closing quote. -/
def readStrBody : Nat → Str → Option (Str × Str)
  | 0, _ => none
  | f + 1, s =>
    match strStep s with
    | .bad => none
    | .close r => some ([], r)
    | .char c r =>
      match readStrBody f r with
      | none => none
      | some (t, r') => some (c :: t, r')

/-- is `c` the first character of the input -/
def headIs (c : Char) : Str → Bool
  | [] => false
  | d :: _ => d = c

def isDigit (c : Char) : Bool := 48 ≤ c.toNat ∧ c.toNat ≤ 57

/-- the longest prefix of decimal digits. -/
def takeDigits : Str → Str × Str
  | [] => ([], [])
  | c :: cs => if isDigit c then let (ds, r) := takeDigits cs; (c :: ds, r) else ([], c :: cs)

def ofDigits (ds : Str) : Nat := ds.foldl (fun a c => a * 10 + (c.toNat - 48)) 0

/-- `NUMBER_RE = (-?(?:0|[1-9]\d*))(\.\d+)?([eE][-+]?\d+)?` restricted to integers: `none` also when a
    fraction or exponent follows (a float: outside the fragment). -/
def readNat (s : Str) : Option (Nat × Str) :=
  match takeDigits s with
  | ([], _) => none
  | (d :: ds, rest) =>
    if d = '0' ∧ ds ≠ [] then none       -- "01": NUMBER_RE matches "0", then "Extra data"/"Expecting , delimiter"
    else if headIs '.' rest ∨ headIs 'e' rest ∨ headIs 'E' rest then none
    else some (ofDigits (d :: ds), rest)

/-- `s.startswith(p)` returning the remainder. -/
def stripPrefix : Str → Str → Option Str
  | [], s => some s
  | _ :: _, [] => none
  | p :: ps, c :: cs => if p = c then stripPrefix ps cs else none

/-- a string literal at the head of the input (opening quote included). -/
def readStr (s : Str) : Option (Str × Str) :=
  match s with
  | [] => none
  | c :: cs => if c = '"' then readStrBody (cs.length + 1) cs else none

/-- `"key" ws : ws` — the part of `JSONObject` before a member's value. -/
def readKey (s : Str) : Option (Str × Str) :=
  match readStr s with
  | none => none
  | some (k, r) =>
    match skipWs r with
    | [] => none
    | c :: r1 => if c = ':' then some (k, skipWs r1) else none

/-- the scalar tokens: `null`, `true`, `false`, integers. -/
def readAtom (s : Str) : Option (J × Str) :=
  match stripPrefix ['n', 'u', 'l', 'l'] s with
  | some r => some (.null, r)
  | none =>
  match stripPrefix ['t', 'r', 'u', 'e'] s with
  | some r => some (.bool true, r)
  | none =>
  match stripPrefix ['f', 'a', 'l', 's', 'e'] s with
  | some r => some (.bool false, r)
  | none =>
  match s with
  | [] => none
  | c :: cs =>
    if c = '-' then
      match readNat cs with
      | none => none
      | some (n, r) => some (.num (-(n : Int)), r)
    else
      match readNat (c :: cs) with
      | none => none
      | some (n, r) => some (.num (n : Int), r)

mutual
/-- `scan_once` at a position where whitespace has been skipped. -/
def readValue : Nat → Str → Option (J × Str)
  | 0, _ => none
  | f + 1, s =>
    if headIs '"' s then
      match readStr s with
      | none => none
      | some (t, r) => some (.str t, r)
    else if headIs '[' s then
      let cs := skipWs s.tail
      if headIs ']' cs then some (.arr [], cs.tail)
      else
        match readValue f cs with
        | none => none
        | some (x, r) =>
          match readElems f r with
          | none => none
          | some (xs, r') => some (.arr (x :: xs), r')
    else if headIs '{' s then
      let cs := skipWs s.tail
      if headIs '}' cs then some (.obj [], cs.tail)
      else
        match readKey cs with
        | none => none
        | some (k, r1) =>
          match readValue f r1 with
          | none => none
          | some (v, r2) =>
            match readMembers f r2 with
            | none => none
            | some (kvs, r3) => some (.obj ((k, v) :: kvs), r3)
    else readAtom s
/-- after an array element: `, value`* then `]` (JSONArray's loop). -/
def readElems : Nat → Str → Option (List J × Str)
  | 0, _ => none
  | f + 1, s =>
    let cs := skipWs s
    if headIs ']' cs then some ([], cs.tail)
    else if headIs ',' cs then
      match readValue f (skipWs cs.tail) with
      | none => none
      | some (x, r1) =>
        match readElems f r1 with
        | none => none
        | some (xs, r2) => some (x :: xs, r2)
    else none
/-- after an object member: `, "k": value`* then `}` (JSONObject's loop). -/
def readMembers : Nat → Str → Option (List (Str × J) × Str)
  | 0, _ => none
  | f + 1, s =>
    let cs := skipWs s
    if headIs '}' cs then some ([], cs.tail)
    else if headIs ',' cs then
      match readKey (skipWs cs.tail) with
      | none => none
      | some (k, r1) =>
        match readValue f r1 with
        | none => none
        | some (v, r2) =>
          match readMembers f r2 with
          | none => none
          | some (kvs, r3) => some ((k, v) :: kvs, r3)
    else none
end

/-- `dict(pairs)` as `JSONObject` builds it: a later duplicate key overwrites the value but keeps the
    position of the first occurrence. -/
def dictInsert (k : Str) (v : J) : List (Str × J) → List (Str × J)
  | [] => [(k, v)]
  | (k', v') :: rest => if k = k' then (k', v) :: rest else (k', v') :: dictInsert k v rest

mutual
/-- normalise every object to a Python dict (unique keys, last value wins, first position kept). -/
def dedup : J → J
  | .arr xs => .arr (dedupL xs)
  | .obj kvs => .obj (dedupM kvs [])
  | j => j
def dedupL : List J → List J
  | [] => []
  | x :: xs => dedup x :: dedupL xs
def dedupM : List (Str × J) → List (Str × J) → List (Str × J)
  | [], acc => acc
  | (k, v) :: rest, acc => dedupM rest (dictInsert k (dedup v) acc)
end

/-- `json.loads(text)` *before* duplicate keys are merged: leading whitespace, one value, trailing
    whitespace, end of input ("Extra data" otherwise). -/
def parseRaw (s : Str) : Option J :=
  match readValue (s.length + 1) (skipWs s) with
  | none => none
  | some (j, r) => if skipWs r = [] then some j else none

/-- `json.loads(text)`. -/
def parse (s : Str) : Option J := (parseRaw s).map dedup

mutual
/-- keys of every object are pairwise distinct (the value is a nest of Python dicts). -/
def UniqueKeys : J → Prop
  | .arr xs => UniqueKeysL xs
  | .obj kvs => (kvs.map Prod.fst).Nodup ∧ UniqueKeysM kvs
  | _ => True
def UniqueKeysL : List J → Prop
  | [] => True
  | x :: xs => UniqueKeys x ∧ UniqueKeysL xs
def UniqueKeysM : List (Str × J) → Prop
  | [] => True
  | (_, v) :: rest => UniqueKeys v ∧ UniqueKeysM rest
end

end Pyxv.JV
