import Pyxv.Model.Base
/-!
# JVal: JSON values, `json.dumps` (defaults) and a reader for its output

`J` is the value space of pyxform's JSON intermediate form: what `xls2json.workbook_to_json`
returns and what `SurveyElement.to_json_dict` returns — `None`, `bool`, `int`, `str`, `list`,
`dict` with string keys (insertion ordered: an association list).  Floats do not occur in the
intermediate form; the driver boundary answers `unsupported` for them.

`print` mirrors CPython's `json.dumps(obj)` with its defaults, i.e. `JSONEncoder(ensure_ascii=True,
separators=(", ", ": "), indent=None, sort_keys=False)`: `json/encoder.py` `_make_iterencode`
(`_iterencode_list`, `_iterencode_dict`, `int.__repr__`) and `py_encode_basestring_ascii`
(`ESCAPE_ASCII = ([\\"]|[^\ -~])`, `ESCAPE_DCT`, `\uXXXX` with lower-case hex digits, a
surrogate pair for code points ≥ 0x10000).  This is the text `SurveyElement.to_json`
(survey_element.py:349) produces and `builder.create_survey_element_from_json` →
`utils.get_pyobj_from_json` → `json.loads` (utils.py:151-164) reads.

`parse` mirrors `json.loads` (`json/decoder.py` `JSONDecoder.decode`, `scanner.py_make_scanner`,
`py_scanstring` with `strict=True`, `JSONObject`, `JSONArray`) on the integer-only fragment:
whitespace ` \t\n\r` between tokens, the short escapes incl. `\/`, `\uXXXX` in either case with
surrogate-pair joining, integers `-?(0|[1-9]\d*)`; `none` where `json.loads` raises, and also
(outside the fragment) for fractions/exponents, the constants `NaN`/`Infinity`, and a lone
surrogate escape, which Python keeps as a lone surrogate code point that `Char` cannot hold.
Fuel-indexed; the proofs (`Proofs/JValLemmas.lean`, `Proofs/C16.lean`) show that the fuel
`parse` supplies is enough.
-/
namespace Pyxv.JV

inductive J where
  | null
  | bool (b : Bool)
  | num (n : Int)
  | str (s : Str)
  | arr (xs : List J)
  | obj (kvs : List (Str × J))
  deriving Repr, Inhabited

/-! ## Printer (`json.dumps`) -/

/-- one lower-case hex digit (`'{:04x}'.format`). -/
def hexDigit (d : Nat) : Char :=
  if d < 10 then Char.ofNat (48 + d) else Char.ofNat (87 + d)

/-- `'\\u{0:04x}'.format(n)` for `n < 0x10000`. -/
def u4 (n : Nat) : Str :=
  ['\\', 'u', hexDigit (n / 4096 % 16), hexDigit (n / 256 % 16), hexDigit (n / 16 % 16), hexDigit (n % 16)]

/-- `py_encode_basestring_ascii.replace` (json/encoder.py:58-72) for one character. -/
def escChar (c : Char) : Str :=
  if c = '"' then ['\\', '"']
  else if c = '\\' then ['\\', '\\']
  else if c = '\n' then ['\\', 'n']
  else if c = '\r' then ['\\', 'r']
  else if c = '\t' then ['\\', 't']
  else if c = Char.ofNat 8 then ['\\', 'b']
  else if c = Char.ofNat 12 then ['\\', 'f']
  else if 32 ≤ c.toNat ∧ c.toNat ≤ 126 then [c]
  else if c.toNat < 0x10000 then u4 c.toNat
  else
    -- `n -= 0x10000; s1 = 0xd800 | ((n >> 10) & 0x3ff); s2 = 0xdc00 | (n & 0x3ff)` written
    -- arithmetically (n < 0x100000, so the masks and ors are exactly these quotients and sums)
    let n := c.toNat - 0x10000
    u4 (0xD800 + n / 1024 % 1024) ++ u4 (0xDC00 + n % 1024)

/-- the body of a string literal. -/
def escStr : Str → Str
  | [] => []
  | c :: cs => escChar c ++ escStr cs

/-- `'"' + ESCAPE_ASCII.sub(replace, s) + '"'`. -/
def printStr (s : Str) : Str := '"' :: (escStr s ++ ['"'])

def digitChar (d : Nat) : Char := Char.ofNat (48 + d)

/-- decimal digits of a natural number, most significant first (fuel = any bound > number of digits). -/
def natDigitsF : Nat → Nat → Str
  | 0, _ => []
  | f + 1, n => if n < 10 then [digitChar n] else natDigitsF f (n / 10) ++ [digitChar (n % 10)]

def natDigits (n : Nat) : Str := natDigitsF (n + 1) n

/-- `int.__repr__`. -/
def printInt (n : Int) : Str :=
  if n < 0 then '-' :: natDigits n.natAbs else natDigits n.toNat

mutual
/-- `json.dumps(j)` -/
def print : J → Str
  | .null => ['n', 'u', 'l', 'l']
  | .bool true => ['t', 'r', 'u', 'e']
  | .bool false => ['f', 'a', 'l', 's', 'e']
  | .num n => printInt n
  | .str s => printStr s
  | .arr [] => ['[', ']']
  | .arr (x :: xs) => '[' :: (print x ++ printElems xs)
  | .obj [] => ['{', '}']
  | .obj ((k, v) :: rest) => '{' :: (printStr k ++ [':', ' '] ++ print v ++ printMembers rest)
/-- the rest of a list after its first element: `, x` for each, then `]`. -/
def printElems : List J → Str
  | [] => [']']
  | x :: xs => [',', ' '] ++ print x ++ printElems xs
/-- the rest of a dict after its first member: `, "k": v` for each, then `}`. -/
def printMembers : List (Str × J) → Str
  | [] => ['}']
  | (k, v) :: rest => [',', ' '] ++ printStr k ++ [':', ' '] ++ print v ++ printMembers rest
end

/-! ## Reader (`json.loads`) -/

/-- `WHITESPACE = [ \t\n\r]*` -/
def isWs (c : Char) : Bool := c = ' ' ∨ c = '\t' ∨ c = '\n' ∨ c = '\r'

def skipWs : Str → Str
  | [] => []
  | c :: cs => if isWs c then skipWs cs else c :: cs

def hexVal (c : Char) : Option Nat :=
  let n := c.toNat
  if 48 ≤ n ∧ n ≤ 57 then some (n - 48)
  else if 97 ≤ n ∧ n ≤ 102 then some (n - 87)
  else if 65 ≤ n ∧ n ≤ 70 then some (n - 55)
  else none

/-- `_decode_uXXXX`: four hex digits. -/
def readU4 : Str → Option (Nat × Str)
  | a :: b :: c :: d :: rest =>
    match hexVal a, hexVal b, hexVal c, hexVal d with
    | some x, some y, some z, some w => some (((x * 16 + y) * 16 + z) * 16 + w, rest)
    | _, _, _, _ => none
  | _ => none

/-- a code point as a `Char` (`none` for a surrogate, which Python would keep as a lone surrogate). -/
def charOfNat? (n : Nat) : Option Char :=
  if n < 0xD800 ∨ (0xDFFF < n ∧ n < 0x110000) then some (Char.ofNat n) else none

/-- `py_scanstring` after the opening quote (strict mode: raw control characters are an error).
    Returns the decoded string and the input after the closing quote. -/
def readStrBody : Nat → Str → Option (Str × Str)
  | 0, _ => none
  | _ + 1, [] => none
  | f + 1, c :: cs =>
    if c = '"' then some ([], cs)
    else if c = '\\' then
      match cs with
      | [] => none
      | e :: rest =>
        if e = 'u' then
          match readU4 rest with
          | none => none
          | some (n, rest1) =>
            if 0xD800 ≤ n ∧ n ≤ 0xDBFF then
              -- high surrogate: joined with a following `\uDC00..\uDFFF`
              -- (`0x10000 + (((uni - 0xd800) << 10) | (uni2 - 0xdc00))`, written arithmetically)
              match rest1 with
              | '\\' :: 'u' :: rest2 =>
                match readU4 rest2 with
                | none => none
                | some (m, rest3) =>
                  if 0xDC00 ≤ m ∧ m ≤ 0xDFFF then
                    match charOfNat? (0x10000 + (n - 0xD800) * 1024 + (m - 0xDC00)) with
                    | none => none
                    | some ch =>
                      match readStrBody f rest3 with
                      | none => none
                      | some (s, r) => some (ch :: s, r)
                  else none  -- lone high surrogate followed by another escape (outside the fragment)
              | _ => none    -- lone high surrogate (outside the fragment)
            else
              match charOfNat? n with
              | none => none  -- lone low surrogate (outside the fragment)
              | some ch =>
                match readStrBody f rest1 with
                | none => none
                | some (s, r) => some (ch :: s, r)
        else
          let simple : Option Char :=
            if e = '"' then some '"' else if e = '\\' then some '\\' else if e = '/' then some '/'
            else if e = 'b' then some (Char.ofNat 8) else if e = 'f' then some (Char.ofNat 12)
            else if e = 'n' then some '\n' else if e = 'r' then some '\r' else if e = 't' then some '\t'
            else none
          match simple with
          | none => none
          | some ch =>
            match readStrBody f rest with
            | none => none
            | some (s, r) => some (ch :: s, r)
    else if c.toNat < 32 then none
    else
      match readStrBody f cs with
      | none => none
      | some (s, r) => some (c :: s, r)

def isDigit (c : Char) : Bool := 48 ≤ c.toNat ∧ c.toNat ≤ 57

/-- the longest prefix of decimal digits. -/
def takeDigits : Str → Str × Str
  | [] => ([], [])
  | c :: cs => if isDigit c then let (ds, r) := takeDigits cs; (c :: ds, r) else ([], c :: cs)

def ofDigits (ds : Str) : Nat := ds.foldl (fun a c => a * 10 + (c.toNat - 48)) 0

/-- `NUMBER_RE = (-?(?:0|[1-9]\d*))(\.\d+)?([eE][-+]?\d+)?` restricted to integers: `none` also when a
    fraction or exponent follows (a float: outside the fragment). -/
def readNat (s : Str) : Option (Nat × Str) :=
  match takeDigits s with
  | ([], _) => none
  | (d :: ds, rest) =>
    if d = '0' ∧ ds ≠ [] then none       -- "01": NUMBER_RE matches "0", then "Extra data"/"Expecting , delimiter"
    else match rest with
      | '.' :: _ => none
      | 'e' :: _ => none
      | 'E' :: _ => none
      | _ => some (ofDigits (d :: ds), rest)

mutual
/-- `scan_once` at a position where whitespace has been skipped. -/
def readValue : Nat → Str → Option (J × Str)
  | 0, _ => none
  | f + 1, s =>
    match s with
    | '"' :: cs =>
      match readStrBody (cs.length + 1) cs with
      | none => none
      | some (t, r) => some (.str t, r)
    | '[' :: cs =>
      match skipWs cs with
      | ']' :: r => some (.arr [], r)
      | cs' =>
        match readValue f cs' with
        | none => none
        | some (x, r) =>
          match readElems f r with
          | none => none
          | some (xs, r') => some (.arr (x :: xs), r')
    | '{' :: cs =>
      match skipWs cs with
      | '}' :: r => some (.obj [], r)
      | '"' :: cs' =>
        match readStrBody (cs'.length + 1) cs' with
        | none => none
        | some (k, r) =>
          match skipWs r with
          | ':' :: r1 =>
            match readValue f (skipWs r1) with
            | none => none
            | some (v, r2) =>
              match readMembers f r2 with
              | none => none
              | some (kvs, r3) => some (.obj ((k, v) :: kvs), r3)
          | _ => none
      | _ => none
    | 'n' :: 'u' :: 'l' :: 'l' :: r => some (.null, r)
    | 't' :: 'r' :: 'u' :: 'e' :: r => some (.bool true, r)
    | 'f' :: 'a' :: 'l' :: 's' :: 'e' :: r => some (.bool false, r)
    | '-' :: cs =>
      match readNat cs with
      | none => none
      | some (n, r) => some (.num (-(n : Int)), r)
    | cs =>
      match readNat cs with
      | none => none
      | some (n, r) => some (.num (n : Int), r)
/-- after an array element: `, value`* then `]` (JSONArray's loop). -/
def readElems : Nat → Str → Option (List J × Str)
  | 0, _ => none
  | f + 1, s =>
    match skipWs s with
    | ']' :: r => some ([], r)
    | ',' :: r =>
      match readValue f (skipWs r) with
      | none => none
      | some (x, r1) =>
        match readElems f r1 with
        | none => none
        | some (xs, r2) => some (x :: xs, r2)
    | _ => none
/-- after an object member: `, "k": value`* then `}` (JSONObject's loop). -/
def readMembers : Nat → Str → Option (List (Str × J) × Str)
  | 0, _ => none
  | f + 1, s =>
    match skipWs s with
    | '}' :: r => some ([], r)
    | ',' :: r =>
      match skipWs r with
      | '"' :: cs' =>
        match readStrBody (cs'.length + 1) cs' with
        | none => none
        | some (k, r0) =>
          match skipWs r0 with
          | ':' :: r1 =>
            match readValue f (skipWs r1) with
            | none => none
            | some (v, r2) =>
              match readMembers f r2 with
              | none => none
              | some (kvs, r3) => some ((k, v) :: kvs, r3)
          | _ => none
      | _ => none
    | _ => none
end

/-- `dict(pairs)` as `JSONObject` builds it: a later duplicate key overwrites the value but keeps the
    position of the first occurrence. -/
def dictInsert (k : Str) (v : J) : List (Str × J) → List (Str × J)
  | [] => [(k, v)]
  | (k', v') :: rest => if k = k' then (k', v) :: rest else (k', v') :: dictInsert k v rest

mutual
/-- normalise every object to a Python dict (unique keys, last value wins, first position kept). -/
def dedup : J → J
  | .arr xs => .arr (dedupL xs)
  | .obj kvs => .obj (dedupM kvs [])
  | j => j
def dedupL : List J → List J
  | [] => []
  | x :: xs => dedup x :: dedupL xs
def dedupM : List (Str × J) → List (Str × J) → List (Str × J)
  | [], acc => acc
  | (k, v) :: rest, acc => dedupM rest (dictInsert k (dedup v) acc)
end

/-- `json.loads(text)` *before* duplicate keys are merged: leading whitespace, one value, trailing
    whitespace, end of input ("Extra data" otherwise). -/
def parseRaw (s : Str) : Option J :=
  match readValue (s.length + 1) (skipWs s) with
  | none => none
  | some (j, r) => if skipWs r = [] then some j else none

/-- `json.loads(text)`. -/
def parse (s : Str) : Option J := (parseRaw s).map dedup

mutual
/-- keys of every object are pairwise distinct (the value is a nest of Python dicts). -/
def UniqueKeys : J → Prop
  | .arr xs => UniqueKeysL xs
  | .obj kvs => (kvs.map Prod.fst).Nodup ∧ UniqueKeysM kvs
  | _ => True
def UniqueKeysL : List J → Prop
  | [] => True
  | x :: xs => UniqueKeys x ∧ UniqueKeysL xs
def UniqueKeysM : List (Str × J) → Prop
  | [] => True
  | (_, v) :: rest => UniqueKeys v ∧ UniqueKeysM rest
end

end Pyxv.JV
