import Pyxv.Model.Rows
import Pyxv.Generated.Tables
/-!
# Binds: survey header row + cells ↦ the `<bind>` elements of the XForm (property C05)

Mirrors, stage by stage,
* `sheet_headers.to_snake_case`, `process_header`, the header loop of `dealias_and_group_headers`
  (sheet_headers.py 89-146, 222-246) with the tables `aliases.survey_header` and
  `MultipleChoiceQuestion.get_slot_names()` regenerated from the source (`Pyxv.Gen`);
* `xls2json.clean_text_values` for survey cells (xls2json.py 87-111: strip, `( )+` → one space,
  smart quotes) and `process_row` / `merge_dicts` restricted to what reaches the `bind` dict
  (sheet_headers.py 26-59, 148-182);
* the part of the row loop of `workbook_to_json` that decides which elements exist and what bind
  dict they carry (xls2json.py 543-1430: disabled, comment rows, end/begin control, the
  `<repeat>_count` helper, selects and the `<select>_other` companion, the generated
  `meta/instanceID`);
* `Question.__init__` (question.py 106-134: type-table bind `update`d with the row's bind) and
  `Section.__init__` (section.py 40-71);
* `SurveyElement.xml_bindings` (survey_element.py 547-583: trigger drops `calculate`,
  `BINDING_CONVERSIONS` for `CONVERTIBLE_BIND_ATTRIBUTES`, message redirection to itext) and
  `setAttribute` per entry (a `nodeset` entry is rejected);
* `Survey.insert_xpaths` for `${name}` where `name` is a question that is a direct child of the
  survey (always the absolute path with a space on either side, survey.py 1177-1195).

Python dicts are insertion-ordered association lists.  Outside the fragment (`unsupported`, said by
the model itself): non-ASCII headers, loops, osm, external
selects, `save_to`, background-geopoint, references to anything but a top-level question,
`last-saved#`, names that are not unique in the form, bind cells nested deeper than
`bind::attr::lang`, headers whose shape contradicts their slot (F14 class).
-/
namespace Pyxv.Binds
open Pyxv

/-! ## Python dict operations on association lists -/

/-- `d[k] = v`: an existing key keeps its position -/
def dictSet {β} (d : List (Str × β)) (k : Str) (v : β) : List (Str × β) :=
  match d with
  | [] => [(k, v)]
  | (k', v') :: rest => if k = k' then (k', v) :: rest else (k', v') :: dictSet rest k v

/-- `d.update(e)` -/
def dictUpdate {β} (d : List (Str × β)) : List (Str × β) → List (Str × β)
  | [] => d
  | (k, v) :: rest => dictUpdate (dictSet d k v) rest

/-! ## `to_snake_case` (sheet_headers.py 89-95) -/

/-- Python `value.split()` (no argument): maximal runs of non-whitespace -/
def splitWsAux : Str → Str → List Str
  | cur, [] => if cur.isEmpty then [] else [cur.reverse]
  | cur, c :: cs =>
    if pyIsSpace c then
      (if cur.isEmpty then splitWsAux [] cs else cur.reverse :: splitWsAux [] cs)
    else splitWsAux (c :: cur) cs

def splitWs (s : Str) : List Str := splitWsAux [] s

/-- `"_".join(value.split()).lower()` (ASCII lower-casing: the model answers `unsupported` for
    non-ASCII headers) -/
def toSnakeCase (v : Str) : Str := lowerAscii (joinWith ['_'] (splitWs v))

def isAscii (s : Str) : Bool := s.all fun c => c.toNat < 128

/-- Python `s.split("::")` generalised to a doubled one-character delimiter -/
def splitOn2 (d : Char) : Str → List Str
  | [] => [[]]
  | [c] => [[c]]
  | c1 :: c2 :: cs =>
    if c1 = d ∧ c2 = d then [] :: splitOn2 d cs
    else match splitOn2 d (c2 :: cs) with
      | [] => [[c1]]          -- unreachable
      | f :: fs => (c1 :: f) :: fs

/-- the `jr` repair for single-colon headers (sheet_headers.py 125-132); `none` = IndexError -/
def jrFix : List Str → Option (List Str)
  | [] => some []
  | t :: rest =>
    if t = "jr".toList then
      match rest with
      | [] => none
      | n :: r2 => some (("jr:".toList ++ n) :: r2)
    else (jrFix rest).map (t :: ·)

def surveyAliases : List (Str × List Str) :=
  Pyxv.Gen.aliasSurveyHeader.map fun (k, v) => (k.toList, v.map String.toList)

def surveyColumns : List Str := Pyxv.Gen.selectQuestionFields.map String.toList

/-- `new_header` of `process_header`: a string, or a tuple (which never equals a header string) -/
inductive NH where
  | str (s : Str)
  | tup
deriving DecidableEq, Repr

/-- `process_header` (sheet_headers.py 98-145); `none` = the IndexError of a trailing `jr` token -/
def processHeader (udc : Bool) (al : List (Str × List Str)) (cols : List Str) (h : Str) :
    Option (NH × List Str) :=
  if cols.contains h && (lookup h al).isNone then some (.str h, [h]) else
  let hn := toSnakeCase h
  if cols.contains hn && (lookup hn al).isNone then some (.str hn, [hn]) else
  let tokens : Option (List Str) :=
    if udc || isInfix "::".toList h then some ((splitOn2 ':' h).map strip)
    else jrFix ((splitOnChar ':' h).map strip)
  match tokens with
  | none => none
  | some [] => none      -- unreachable: split never returns an empty list
  | some (t0 :: rest) =>
    let nh := toSnakeCase t0
    match lookup nh al with
    | some (a :: as) => some (if as.isEmpty then .str a else .tup, (a :: as) ++ rest)
    | _ =>           -- no alias (or a falsy alias value: none in the table)
      if cols.contains nh then some (.str nh, nh :: rest) else some (.str h, t0 :: rest)

inductive HErr where
  | dup (other header : Str)
  | unsupported (why : String)
deriving Repr

def lookupToks (t : List Str) : List (List Str × Str) → Option Str
  | [] => none
  | (t', h) :: rest => if t = t' then some h else lookupToks t rest

/-- header loop of `dealias_and_group_headers` (sheet_headers.py 228-246): header ↦ tokens;
    two different spellings of one column are rejected -/
def headerKeys (udc : Bool) (al : List (Str × List Str)) (cols : List Str) :
    List Str → List (Str × List Str) → List (List Str × Str) → Except HErr (List (Str × List Str))
  | [], key, _ => .ok key
  | h :: hs, key, tk =>
    if h.isEmpty then .error (.unsupported "empty header") else
    if (lookup h key).isSome then headerKeys udc al cols hs key tk else
    match processHeader udc al cols h with
    | none => .error (.unsupported "jr token at the end of a header (IndexError)")
    | some (nh, toks) =>
      match lookupToks toks tk with
      | some other =>
        if nh ≠ .str h then .error (.dup other h)
        else headerKeys udc al cols hs (key ++ [(h, toks)]) ((toks, h) :: tk.filter (·.1 ≠ toks))
      | none => headerKeys udc al cols hs (key ++ [(h, toks)]) ((toks, h) :: tk)

def headerKey (headers : List Str) : Except HErr (List (Str × List Str)) :=
  headerKeys (headers.any fun h => isInfix "::".toList h) surveyAliases surveyColumns headers [] []

/-! ## cells -/

/-- `RE_WHITESPACE.sub(" ", …)` with `RE_WHITESPACE = ( )+` -/
def collapseSpaces : Str → Str
  | [] => []
  | [c] => [c]
  | c1 :: c2 :: cs =>
    if c1 = ' ' ∧ c2 = ' ' then collapseSpaces (c2 :: cs) else c1 :: collapseSpaces (c2 :: cs)

def smartQuote (c : Char) : Str :=
  match Pyxv.Gen.smartQuotes.find? fun p => p.1.toList = [c] with
  | some (_, v) => v.toList
  | none => [c]

/-- `clean_text_values(strip_whitespace=True)` on one non-empty cell (xls2json.py 99-105) -/
def cleanCell (v : Str) : Str := (collapseSpaces (strip v)).flatMap smartQuote

def isSimpleNameChar (c : Char) : Bool := c.isAlphanum || c == '_' || c == '-' || c == '.'

/-- every `${` opens a reference `${name}` with an ASCII identifier inside (the only shape of
    reference the model answers for; anything else is `unsupported`) -/
def refsSimple : Option Nat → Str → Bool
  | none, [] => true
  | none, [_] => true
  | none, c1 :: c2 :: cs =>
    if c1 = '$' ∧ c2 = '{' then refsSimple (some 0) cs else refsSimple none (c2 :: cs)
  | some _, [] => false
  | some n, c :: cs =>
    if c = '}' then decide (n > 0) && refsSimple none cs
    else isSimpleNameChar c && (decide (n > 0) || c.isAlpha || c == '_') && refsSimple (some (n + 1)) cs

/-- `re.search(BRACKETED_TAG_REGEX, v)` on a cell without newlines -/
def hasTag : Bool → Str → Bool
  | _, [] => false
  | false, [_] => false
  | false, c1 :: c2 :: cs => if c1 = '$' ∧ c2 = '{' then hasTag true cs else hasTag false (c2 :: cs)
  | true, c :: cs => if c = '}' then true else hasTag true cs

/-- value of a bind attribute after `process_row`: a string or a `{language: text}` dict -/
inductive BVal where
  | s (v : Str)
  | d (m : List (Str × Str))
deriving DecidableEq, Repr, Inhabited

abbrev BindDict := List (Str × BVal)

/-- union of two language dicts (`merge_dicts` on dicts; two plain values for one language: the
    later one wins, in the earlier one's position — sheet_headers.py 41-46) -/
def mergeLang (a : List (Str × Str)) : List (Str × Str) → Option (List (Str × Str))
  | [] => some a
  | (l, v) :: rest => mergeLang (dictSet a l v) rest

/-- `merge_dicts(a, b, default_language)` on bind values (sheet_headers.py 26-59) -/
def mergeVal (dl : Str) : BVal → BVal → Option BVal
  | .s _, .s b => some (.s b)
  | .s a, .d b => if (lookup dl b).isSome then some (.d b) else (mergeLang [(dl, a)] b).map .d
  | .d a, .s b => if (lookup dl a).isSome then some (.d a) else (mergeLang a [(dl, b)]).map .d
  | .d a, .d b => (mergeLang a b).map .d

def setBind (dl : Str) (b : BindDict) (a : Str) (v : BVal) : Option BindDict :=
  match lookup a b with
  | none => some (b ++ [(a, v)])
  | some old => (mergeVal dl old v).map fun nv => dictSet b a nv

/-- what the model keeps of a row after `process_row` -/
structure PRow where
  type : Option Str := none
  name : Option Str := none
  trigger : Option Str := none
  parameters : Option Str := none
  disabled : Option Str := none
  default_ : Option Str := none
  count : Option Str := none
  appearance : Option Str := none
  choiceFilter : Bool := false
  hasLabel : Bool := false
  hasHint : Bool := false
  /-- the row's `bind` dict; `none` = the row has no `bind` key -/
  bind : Option BindDict := none
  /-- number of keys other than `disabled` -/
  keys : Nat := 0
deriving Repr, Inhabited

def scalarSlots : List Str :=
  ["type", "name", "trigger", "parameters", "disabled", "default", "choice_filter"].map String.toList

/-- a one-token column: `out_row[token] = val` -/
def stepScalar (r0 : PRow) (k v : Str) : Except String PRow :=
  let r := if k = "disabled".toList then r0 else { r0 with keys := r0.keys + 1 }
  if k = "type".toList then .ok { r with type := some v }
  else if k = "name".toList then .ok { r with name := some v }
  else if k = "trigger".toList then .ok { r with trigger := some v }
  else if k = "parameters".toList then .ok { r with parameters := some v }
  else if k = "disabled".toList then .ok { r with disabled := some v }
  else if k = "default".toList then .ok { r with default_ := some v }
  else if k = "choice_filter".toList then .ok { r with choiceFilter := true }
  else if k = "label".toList then .ok { r with hasLabel := true }
  else if k = "hint".toList then .ok { r with hasHint := true }
  else if k = "bind".toList || k = "control".toList then .error "plain bind/control column (F14 class)"
  else .ok r

/-- a `bind` column: `merge_dicts(out_row, {"bind": {attr: val}})` / `{attr: {lang: val}}` -/
def stepBindCell (dl : Str) (r : PRow) (a : Str) (rest : List Str) (v : Str) : Except String PRow :=
  let nv : Option BVal := match rest with
    | [] => some (.s v)
    | [l] => some (.d [(l, v)])
    | _ => none
  match nv with
  | none => .error "bind cell nested deeper than bind::attr::lang"
  | some nv =>
    match setBind dl (r.bind.getD []) a nv with
    | none => .error "bind leaf collision"
    | some b => .ok { r with bind := some b, keys := r.keys + 1 }

/-- any other grouped column -/
def stepOther (r0 : PRow) (k a : Str) (rest : List Str) (v : Str) : Except String PRow :=
  let r := { r0 with keys := r0.keys + 1 }
  if k = "control".toList then
    if !rest.isEmpty then .error "nested control cell"
    else if a = "jr:count".toList then .ok { r with count := some v }
    else if a = "appearance".toList then .ok { r with appearance := some v }
    else .ok r
  else if scalarSlots.contains k then .error "grouped header on a scalar column (F14 class)"
  else if k = "label".toList then .ok { r with hasLabel := true }
  else if k = "hint".toList then .ok { r with hasHint := true }
  else .ok r

def stepTokens (dl : Str) (r : PRow) (v : Str) : List Str → Except String PRow
  | [] => .error "empty token list"
  | [k] => stepScalar r k v
  | k :: a :: rest => if k = "bind".toList then stepBindCell dl r a rest v else stepOther r k a rest v

/-- one cell through `clean_text_values` and `process_row` (sheet_headers.py 164-180) -/
def stepCell (dl : Str) (key : List (Str × List Str)) (r : PRow) (h v0 : Str) : Except String PRow :=
  let v := cleanCell v0
  if v.isEmpty then .error "whitespace-only cell" else
  if !refsSimple none v then .error "reference shape" else
  match lookup h key with
  | none => .error "cell under a column that is not in the header row"
  | some toks => stepTokens dl r v toks

def processRow (dl : Str) (key : List (Str × List Str)) : PRow → List (Str × Str) → Except String PRow
  | r, [] => .ok r
  | r, (h, v) :: rest =>
    match stepCell dl key r h v with
    | .ok r' => processRow dl key r' rest
    | .error e => .error e

/-! ## rows → elements -/

/-- an element that may carry a bind -/
structure Q where
  name : Str
  /-- the `bind` section of the type-table entry (`none`: the entry has none, or a section) -/
  tt : Option (List (Str × Str))
  /-- the row's bind dict -/
  bind : Option BindDict
  /-- the `trigger` cell -/
  trig : Option Str := none
  /-- renders a visible control (a question a trigger may name) -/
  visible : Bool := false
deriving Repr, Inhabited

def Q.trigger (q : Q) : Bool := q.trig.isSome

inductive RK where
  | skip
  | qs (l : List Q)
  | begin_ (rep : Bool) (pre : List Q) (q : Q)
  | end_ (rep : Bool)
  | unsupported (why : String)
deriving Repr, Inhabited

/-- bind section of the type-table entry of `t` -/
def typeBind (t : Str) : Option (List (Str × Str)) :=
  match Rows.typeEntry t with
  | none => none
  | some e =>
    if Rows.entryHas e "bind" then
      some ((e.filter fun x => x.1 = "bind").map fun x => (x.2.1.toList, x.2.2.toList))
    else none

def dealiasType (t : Str) : Str :=
  match lookup t (Rows.gtab Pyxv.Gen.typeAliasMap) with
  | some t' => t'
  | none => t

/-! ### `parameters` (validators/pyxform/parameters_generic.py; xls2json.py 172-210, 1229-1377) -/

/-- `raw.split(";")`, else `split(",")`, else `split()` -/
def splitParts (p : Str) : List Str :=
  let a := splitOnChar ';' p
  if a.length ≠ 1 then a else
  let b := splitOnChar ',' p
  if b.length ≠ 1 then b else splitWs p

def caseSensitiveParams : List Str := Pyxv.Gen.caseSensitiveParamValues.map String.toList

/-- `parameters_generic.parse`: `key=value` parts into an ordered dict (later duplicates win);
    `none` = "Expecting parameters to be in the form of …" -/
def parseParts : List Str → List (Str × Str) → Option (List (Str × Str))
  | [], acc => some acc
  | part :: rest, acc =>
    match splitOnChar '=' part with
    | k :: v :: _ =>
      let key := strip (lowerAscii k)
      let val := if caseSensitiveParams.contains key then strip v else strip (lowerAscii v)
      parseParts rest (dictSet acc key val)
    | _ => none

def parseParams (p : Str) : Option (List (Str × Str)) := parseParts (splitParts p) []

def isDigits (s : Str) : Bool := !s.isEmpty && s.all Char.isDigit

def unsigned (s : Str) : Str :=
  match s with
  | '+' :: r => r
  | '-' :: r => r
  | _ => s

/-- literals `int()` accepts that the model answers for: optional sign, digits -/
def isIntLit (s : Str) : Bool := isDigits (unsigned s)

/-- literals `float()` accepts that the model answers for (`12`, `1.5`, `.5`, `5.`, signed):
    (is non-zero, is written with a `.`) -/
def floatLit (s : Str) : Option (Bool × Bool) :=
  match splitOnChar '.' (unsigned s) with
  | [a] => if isDigits a then some (a.any (· ≠ '0'), false) else none
  | [a, b] =>
    if (a.isEmpty || isDigits a) && (b.isEmpty || isDigits b) && !(a.isEmpty && b.isEmpty)
    then some ((a ++ b).any (· ≠ '0'), true) else none
  | _ => none

def allowedOnly (ps : List (Str × Str)) (allowed : List String) : Bool :=
  ps.all fun kv => allowed.any fun a => a.toList = kv.1

def rangeDefaults : List (Str × Str) := Rows.gtab Pyxv.Gen.rangeDefaults

/-- `process_range_question_type`: written parameters first, missing ones appended with defaults -/
def rangeWithDefaults (ps : List (Str × Str)) : List (Str × Str) :=
  ps ++ rangeDefaults.filter fun d => (lookup d.1 ps).isNone

/-- `float(x) and "." in str(x)` for some parameter (xls2json.py 193-197) -/
def rangeIsDecimal (vals : List Str) : Bool := vals.any fun v => floatLit v == some (true, true)

def audioQualities : List String := Pyxv.Gen.audioQualityValues

/-- bind attributes a row's `parameters` add to its bind dict, for the type cell `t`;
    `.error` = rejected by pyxform or outside the fragment -/
def paramBind (t : Str) (ps : List (Str × Str)) : Except String (List (Str × BVal)) :=
  let get (k : String) : Option Str := lookup k.toList ps
  if t = "range".toList then
    if !allowedOnly ps ["start", "end", "step"] then .error "range parameter name"
    else
      let vals := (rangeWithDefaults ps).map (·.2)
      if !(vals.all fun v => (floatLit v).isSome) then .error "range parameter value"
      else if rangeIsDecimal vals then .ok [("type".toList, .s "decimal".toList)] else .ok []
  else if t = "photo".toList then
    if !allowedOnly ps ["max-pixels"] then .error "photo parameter (app / unknown)"
    else match get "max-pixels" with
      | some v => if isIntLit v then .ok [("orx:max-pixels".toList, .s v)] else .error "max-pixels value"
      | none => .ok []
  else if t = "audio".toList then
    if !allowedOnly ps ["quality"] then .error "audio parameter name"
    else match get "quality" with
      | some v => if audioQualities.any (·.toList = v) then .ok [("odk:quality".toList, .s v)] else .error "quality value"
      | none => .ok []
  else if t = "background-audio".toList then
    if !allowedOnly ps ["quality"] then .error "audio parameter name"
    else match get "quality" with
      | some v => if (audioQualities.take 3).any (·.toList = v) then .ok [] else .error "quality value"
      | none => .ok []
  else if t = "geopoint".toList || t = "geoshape".toList || t = "geotrace".toList then
    let allowed := if t = "geopoint".toList then ["allow-mock-accuracy", "capture-accuracy", "warning-accuracy"]
                   else ["allow-mock-accuracy"]
    if !allowedOnly ps allowed then .error "geo parameter name"
    else if !((get "capture-accuracy").all fun v => (floatLit v).isSome) then .error "capture-accuracy value"
    else if !((get "warning-accuracy").all fun v => (floatLit v).isSome) then .error "warning-accuracy value"
    else match get "allow-mock-accuracy" with
      | some v => if v = "true".toList || v = "false".toList
                  then .ok [("odk:allow-mock-accuracy".toList, .s v)] else .error "allow-mock-accuracy value"
      | none => .ok []
  else if t = "text".toList then
    if !allowedOnly ps ["rows"] then .error "text parameter name"
    else if !((get "rows").all isIntLit) then .error "rows value" else .ok []
  else .ok []

/-- the row's bind dict after `new_dict["bind"].update(…)` -/
def withParamBind (b : Option BindDict) (upd : List (Str × BVal)) : Option BindDict :=
  if upd.isEmpty then b else some (dictUpdate (b.getD []) upd)

/-- `MultipleChoiceQuestion.build_xml` (question.py 369-370) rejects a select whose bind type was
    overridden to anything but `string` / `odk:rank` -/
def badSelectType : Option BindDict → Bool
  | some b =>
    (match lookup "type".toList b with
     | some v => !(v == BVal.s "string".toList || v == BVal.s "odk:rank".toList)
     | none => false)
  | none => false

def selectTags : List String := ["select", "select1", "odk:rank"]

/-- the `table_list` variable of the row loop (xls2json.py 532-534): `None`, `True`, or the list
    name of the first select seen in a table-list group -/
inductive TL where
  | off
  | armed
  | list (ln : Str)
deriving DecidableEq, Repr, Inhabited

def isTableList (r : PRow) : Bool :=
  match r.appearance with
  | some a => (splitWs a).contains "table-list".toList
  | none => false

/-- rows with a valid name that are not `end` rows: the RKs they contribute (a table-list `begin`
    row also contributes the generated label note as first child; the first select of a table-list
    group also contributes the generated label-only header select before itself) and the new
    `table_list` state -/
def classifyNamed (lists : List Str) (n : Nat) (tl : TL) (r : PRow) (ps : List (Str × Str)) (t name : Str) :
    List RK × TL :=
  if (match r.bind with | some b => (lookup "entities:saveto".toList b).isSome | none => false) then
    ([.unsupported "save_to"], tl)
  else
  match Rows.matchControl "begin" true t with
  | some c =>
    (match Rows.ctlOf c with
     | some .loop => ([.unsupported "loop"], tl)
     | none => ([.unsupported "control type"], tl)
     | some ct =>
       let pre : List Q := match r.count with
         | some e =>
           if Rows.isPyxformRef e then []
           else [{ name := name ++ "_count".toList, tt := typeBind "calculate".toList,
                   bind := some [("readonly".toList, .s "true()".toList), ("calculate".toList, .s e)] }]
         | none => []
       let note : List RK :=
         if isTableList r && (r.hasLabel || r.hasHint) then
           [.qs [{ name := "generated_table_list_label_".toList ++ Rows.natToStr n,
                   tt := typeBind "note".toList, bind := none }]]
         else []
       (.begin_ (ct == .rep) pre { name, tt := none, bind := r.bind } :: note,
        if isTableList r then .armed else tl))
  | none =>
  match Rows.matchSelect t with
  | some (sel, ln, other) =>
    if r.parameters.isSome then ([.unsupported "select with parameters"], tl)
    else if sel = "select one external".toList then ([.unsupported "select_one_external"], tl)
    else if (splitOnChar '.' ln).length > 1 || isInfix "${".toList ln then ([.unsupported "select from file / repeat"], tl)
    else if !lists.contains ln then ([.unsupported "list not in choices"], tl)
    else if other && r.choiceFilter then ([.unsupported "or_other with choice_filter"], tl)
    else if badSelectType r.bind then ([.unsupported "select with a bind type other than string / odk:rank"], tl)
    else if tl = .armed && r.choiceFilter then ([.unsupported "choice filter in a table-list"], tl)
    else if (match tl with | .list l0 => !(l0 == ln) | _ => false) then ([.unsupported "table-list list names differ"], tl)
    else
      let q : Q := { name, tt := typeBind sel, bind := r.bind, trig := r.trigger, visible := r.hasLabel }
      let o : List Q := if other then
        [{ name := name ++ "_other".toList, tt := typeBind "text".toList,
           bind := some [("relevant".toList,
             .s ("selected(../".toList ++ name ++ ", 'other')".toList))] }] else []
      -- the label-only header of a table-list (xls2json.py 1163-1184): no bind dict of its own
      let hdr : List Q := if tl = .armed then
        [{ name := "reserved_name_for_field_list_labels_".toList ++ Rows.natToStr n, tt := typeBind sel, bind := none }]
        else []
      ([.qs (hdr ++ q :: o)], if tl = .off then .off else .list ln)
  | none =>
  if isInfix "osm".toList t then ([.unsupported "osm"], tl)
  else if t = "background-geopoint".toList then ([.unsupported "background-geopoint"], tl)
  else if t = "xml-external".toList || t = "csv-external".toList then ([.unsupported "external instance row"], tl)
  else
  match Rows.typeEntry t with
  | none => ([.unsupported "unknown type"], tl)
  | some e =>
    if (match Rows.entryGet e "control" "tag" with | some tag => selectTags.contains tag | none => false) then
      ([.unsupported "select type without list"], tl)
    else
    match paramBind t ps with
    | .error w => ([.unsupported w], tl)
    | .ok upd =>
      let tag := (Rows.entryGet e "control" "tag").getD ""
      ([.qs [{ name, tt := typeBind t, bind := withParamBind r.bind upd, trig := r.trigger,
                visible := t ≠ "calculate".toList && r.hasLabel && Rows.tagHasControl tag }]], tl)

/-! ### `audit` rows → the meta block (xls2json.py 587-749) -/

def strNat (s : Str) : Nat := s.foldl (fun n c => n * 10 + (c.toNat - 48)) 0

/-- `int(x)` succeeds and is `≥ 0` -/
def intNonneg (s : Str) : Option Nat :=
  if isIntLit s then
    let v := strNat (unsigned s)
    if s.head? = some '-' && v != 0 then none else some v
  else none

def locationPriorities : List String := ["no-power", "low-power", "balanced", "high-accuracy"]

/-- bind attributes the parameters of an `audit` row add, in the order the row loop adds them -/
def auditBind (ps : List (Str × Str)) : Except String (List (Str × BVal)) :=
  let get (k : String) : Option Str := lookup k.toList ps
  let tf (v : Str) : Bool := v = "true".toList || v = "false".toList
  if !allowedOnly ps Pyxv.Gen.auditParamNames then .error "audit parameter name"
  else if !((get "track-changes").all tf) then .error "track-changes value"
  else if !((get "track-changes-reasons").all (· = "on-form-edit".toList)) then .error "track-changes-reasons value"
  else if !((get "identify-user").all tf) then .error "identify-user value"
  else
  let a1 : List (Str × BVal) := match get "track-changes" with
    | some v => [("odk:track-changes".toList, .s v)] | none => []
  let a2 : List (Str × BVal) := match get "track-changes-reasons" with
    | some v => [("odk:track-changes-reasons".toList, .s v)] | none => []
  let a3 : List (Str × BVal) := match get "identify-user" with
    | some v => [("odk:identify-user".toList, .s v)] | none => []
  match get "location-priority", get "location-min-interval", get "location-max-age" with
  | none, none, none => .ok (a1 ++ a2 ++ a3)
  | some p, some mi, some ma =>
    if !(locationPriorities.any (·.toList = p)) then .error "location-priority value"
    else match intNonneg mi, intNonneg ma with
      | some i, some a =>
        if a < i then .error "location-max-age < location-min-interval"
        else .ok (a1 ++ a2 ++ a3 ++ [("odk:location-max-age".toList, .s ma),
                   ("odk:location-min-interval".toList, .s mi), ("odk:location-priority".toList, .s p)])
      | _, _ => .error "location interval value"
  | _, _, _ => .error "location parameters must come together"

/-- is the processed row an audit row that reaches the meta block?  `none`: not an audit row (or
    disabled / empty); `some (.error _)`: rejected; `some (.ok q)`: the `meta/audit` element -/
def auditOf (r : PRow) : Option (Except String Q) :=
  if (match r.disabled with | some v => Rows.yesNoTrue v | none => false) then none
  else if r.keys = 0 then none
  else
  match r.type with
  | none => none
  | some t0 =>
    if dealiasType t0 ≠ "audit".toList then none
    else
    let psO : Option (List (Str × Str)) := match r.parameters with
      | some p => if isAscii p then parseParams p else none
      | none => some []
    match psO with
    | none => some (.error "parameters cell not of the form key=value")
    | some ps =>
      if (match r.name with | some nm => !(nm == "audit".toList) | none => false) then some (.error "audit name")
      else if r.trigger.isSome then some (.error "audit row with a trigger")
      else match auditBind ps with
        | .error w => some (.error w)
        | .ok upd => some (.ok { name := "audit".toList, tt := typeBind "audit".toList, bind := withParamBind r.bind upd })

/-- one processed row (number `n`, header row = 1) through the row loop of `workbook_to_json`:
    the RKs it contributes and the new `table_list` state (every `end` row resets it) -/
def classify (lists : List Str) (n : Nat) (tl : TL) (r : PRow) : List RK × TL :=
  if (match r.disabled with | some v => Rows.yesNoTrue v | none => false) then ([.skip], tl)
  else if r.keys = 0 then ([.skip], tl)
  else
  match r.type with
  | none => if r.name.isSome || r.hasLabel then ([.unsupported "row without type"], tl) else ([.skip], tl)
  | some t0 =>
    let t := dealiasType t0
    let psO : Option (List (Str × Str)) := match r.parameters with
      | some p => if isAscii p then parseParams p else none
      | none => some []
    match psO with
    | none => ([.unsupported "parameters cell not of the form key=value"], tl)
    | some ps =>
    if t = "audit".toList then
      (match auditOf r with
       | some (.ok _) => ([.skip], tl)              -- goes to the meta block (`metaOfRows`)
       | some (.error w) => ([.unsupported w], tl)
       | none => ([.unsupported "audit"], tl))
    else if t = "calculate".toList &&
        !(match r.bind with | some b => (lookup "calculate".toList b).isSome | none => false) then
      ([.unsupported "calculate without calculation"], tl)
    else if Rows.settingsTypes.contains t then ([.skip], tl)
    else
    match Rows.matchControl "end" false t with
    | some c =>
      (match Rows.ctlOf c with
       | some .group => ([.end_ false], .off)
       | some .rep => ([.end_ true], .off)
       | _ => ([.unsupported "control type"], tl))
    | none =>
    match Rows.nameOrErr [] t n, r.name with
    | _, some nm =>
      if Rows.isXmlTag nm then classifyNamed lists n tl r ps t nm else ([.unsupported "invalid name"], tl)
    | .ok gen, none => classifyNamed lists n tl r ps t gen
    | .error _, none => ([.unsupported "no name"], tl)

/-- a positioned element -/
structure Elem where
  path : List Str
  q : Q
deriving Repr, Inhabited

def mkElem (root : Str) (st : List (Str × Bool)) (q : Q) : Elem :=
  { path := root :: ((st.map (·.1)).reverse ++ [q.name]), q }

/-- the begin/end stack of the row loop: elements in document order with their paths -/
def walk (root : Str) : List (Str × Bool) → List RK → Option (List Elem)
  | st, [] => if st.isEmpty then some [] else none
  | st, .skip :: rs => walk root st rs
  | st, .qs l :: rs => (walk root st rs).map (l.map (mkElem root st) ++ ·)
  | st, .begin_ rep pre q :: rs =>
    (walk root ((q.name, rep) :: st) rs).map ((pre ++ [q]).map (mkElem root st) ++ ·)
  | [], .end_ _ :: _ => none
  | (_, rep') :: st, .end_ rep :: rs => if rep = rep' then walk root st rs else none
  | _, .unsupported _ :: _ => none

/-- names of the questions that are direct children of the survey -/
def topNames : Nat → List RK → List Str
  | _, [] => []
  | d, .skip :: rs => topNames d rs
  | d, .qs l :: rs => (if d = 0 then l.map (·.name) else []) ++ topNames d rs
  | d, .begin_ _ pre _ :: rs => (if d = 0 then pre.map (·.name) else []) ++ topNames (d + 1) rs
  | d, .end_ _ :: rs => topNames (d - 1) rs
  | d, .unsupported _ :: rs => topNames d rs

/-- a section without children (crashes `Section.validate`, F13) -/
def emptySection : Bool → List RK → Bool
  | _, [] => false
  | j, .skip :: rs => emptySection j rs
  | _, .qs _ :: rs => emptySection false rs
  | _, .begin_ _ _ _ :: rs => emptySection true rs
  | j, .end_ _ :: rs => j || emptySection false rs
  | j, .unsupported _ :: rs => emptySection j rs

/-- names of the visible questions that are direct children of the survey -/
def visibleTops : Nat → List RK → List Str
  | _, [] => []
  | d, .skip :: rs => visibleTops d rs
  | d, .qs l :: rs => (if d = 0 then (l.filter (·.visible)).map (·.name) else []) ++ visibleTops d rs
  | d, .begin_ _ _ _ :: rs => visibleTops (d + 1) rs
  | d, .end_ _ :: rs => visibleTops (d - 1) rs
  | d, .unsupported _ :: rs => visibleTops d rs

/-- `${name}` → `name` -/
def refName (s : Str) : Option Str :=
  match s with
  | '$' :: '{' :: r => if r.getLast? = some '}' then some r.dropLast else none
  | _ => none

/-- every trigger cell is exactly one reference to a visible top-level question (anything else is
    C10's business: F8) -/
def triggersOK (vis : List Str) : List RK → Bool
  | [] => true
  | .qs l :: rs => l.all (fun q => match q.trig with
      | none => true
      | some t => Rows.isPyxformRef t && (match refName t with | some n => vis.contains n && n ≠ q.name | none => false))
      && triggersOK vis rs
  | _ :: rs => triggersOK vis rs

/-- the generated `meta/instanceID` element (xls2json.py 1393-1402, default settings) -/
def instanceID (root : Str) : Elem :=
  { path := [root, "meta".toList, "instanceID".toList],
    q := { name := "instanceID".toList, tt := typeBind "calculate".toList,
           bind := some [("readonly".toList, .s "true()".toList), ("jr:preload".toList, .s "uid".toList)] } }

/-! ## element → `<bind>` -/

/-- `Question.__init__` merge / `Section.__init__`; an empty dict is never stored -/
def rawBind (q : Q) : BindDict :=
  match q.tt with
  | some tt => dictUpdate (tt.map fun (k, v) => (k, BVal.s v)) (q.bind.getD [])
  | none => q.bind.getD []

def elemBind (q : Q) : Option BindDict :=
  if (rawBind q).isEmpty then none else some (rawBind q)

def convertible (k : Str) : Bool := Pyxv.Gen.convertibleBindAttributes.any fun a => a.toList = k

def conversion (v : Str) : Option Str := lookup v (Rows.gtab Pyxv.Gen.bindingConversions)

def itextRef (path k : Str) : Str := "jr:itext('".toList ++ path ++ ":".toList ++ k ++ "')".toList

def msgKeys : List Str := ["jr:constraintMsg".toList, "jr:requiredMsg".toList]

/-- the value conversions of `xml_bindings` (survey_element.py 566-581); `none` = `str(dict)` -/
def convVal (path k : Str) : BVal → Option Str
  | .s v =>
    if convertible k && (conversion v).isSome then conversion v
    else if msgKeys.contains k && hasTag false v then some (itextRef path k)
    else some v
  | .d _ =>
    if msgKeys.contains k || k = "jr:noAppErrorString".toList then some (itextRef path k) else none

/-- `insert_xpaths` for references to top-level questions: ` /root/name ` -/
def subst (root : Str) (tops : List Str) : Option Str → Str → Option Str
  | none, [] => some []
  | none, [c] => some [c]
  | none, c1 :: c2 :: cs =>
    if c1 = '$' ∧ c2 = '{' then subst root tops (some []) cs
    else (subst root tops none (c2 :: cs)).map (c1 :: ·)
  | some _, [] => none
  | some acc, c :: cs =>
    if c = '}' then
      let name := acc.reverse
      if tops.contains name then
        (subst root tops none cs).map ((" /".toList ++ root ++ "/".toList ++ name ++ " ".toList) ++ ·)
      else none
    else subst root tops (some (c :: acc)) cs

def calcKey : Str := "calculate".toList

/-- attribute list of the bind (after `nodeset`) -/
def attrsOf (root : Str) (tops : List Str) (path : Str) (trigger : Bool) : BindDict → Option (List (Str × Str))
  | [] => some []
  | (k, v) :: rest =>
    if trigger && k = calcKey then attrsOf root tops path trigger rest
    else
    match convVal path k v with
    | none => none
    | some s =>
      match subst root tops none s with
      | none => none
      | some s' => (attrsOf root tops path trigger rest).map ((k, s') :: ·)

structure Bind where
  path : List Str
  attrs : List (Str × Str)
deriving Repr, DecidableEq

/-- `xml_bindings` of one element: `some none` = no bind element -/
def xmlBind (root : Str) (tops : List Str) (e : Elem) : Option (Option Bind) :=
  match elemBind e.q with
  | none => some none
  | some b =>
    if (lookup "nodeset".toList b).isSome then none      -- rejected: 'nodeset' is set by pyxform
    else (attrsOf root tops (Form.xpathStr e.path) e.q.trigger b).map fun a => some { path := e.path, attrs := a }

def renderAll (root : Str) (tops : List Str) : List Elem → Option (List Bind)
  | [] => some []
  | e :: es =>
    match xmlBind root tops e with
    | none => none
    | some ob =>
      match renderAll root tops es with
      | none => none
      | some bs => some (match ob with | some b => b :: bs | none => bs)

/-! ## whole form -/

def firstUnsupported : List RK → Option String
  | [] => none
  | .unsupported w :: _ => some w
  | _ :: rest => firstUnsupported rest

/-- one raw row (number `n`, `table_list` state `tl`) ↦ the RKs it contributes and the new state -/
def rowRKs (dl : Str) (key : List (Str × List Str)) (lists : List Str) (n : Nat) (tl : TL)
    (cells : List (Str × Str)) : Except String (List RK × TL) :=
  match processRow dl key {} cells with
  | .error e => .error e
  | .ok r =>
    match firstUnsupported (classify lists n tl r).1 with
    | some w => .error w
    | none => .ok (classify lists n tl r)

def processRows (dl : Str) (key : List (Str × List Str)) (lists : List Str) :
    Nat → TL → List (List (Str × Str)) → Except String (List RK)
  | _, _, [] => .ok []
  | n, tl, cells :: rest =>
    match rowRKs dl key lists n tl cells with
    | .error e => .error e
    | .ok (ks0, tl') =>
      match processRows dl key lists (n + 1) tl' rest with
      | .ok ks => .ok (ks0 ++ ks)
      | .error e => .error e

/-- the second accumulator of the row loop: `meta_children` (audit rows, in order) -/
def metaOfRows (dl : Str) (key : List (Str × List Str)) : List (List (Str × Str)) → Except String (List Q)
  | [] => .ok []
  | cells :: rest =>
    match processRow dl key {} cells with
    | .error e => .error e
    | .ok r =>
      match metaOfRows dl key rest with
      | .error e => .error e
      | .ok qs =>
        match auditOf r with
        | some (.ok q) => .ok (q :: qs)
        | some (.error e) => .error e
        | none => .ok qs

def rkNames : RK → List Str
  | .qs l => l.map (·.name)
  | .begin_ _ pre q => pre.map (·.name) ++ [q.name]
  | _ => []

def reservedNames (root : Str) : List Str := [lowerAscii root, "meta".toList, "instanceid".toList]

inductive Out where
  | ok (binds : List Bind)
  | dupHeader (other header : Str)
  | unsupported (why : String)
deriving Repr

/-- characters XML allows (utils.INVALID_XML_CHAR_REGEX) -/
def xmlChar (c : Char) : Bool :=
  let n := c.toNat
  n == 9 || n == 10 || n == 13 || (0x20 ≤ n && n ≤ 0xD7FF) || (0xE000 ≤ n && n ≤ 0xFFFD) || 0x10000 ≤ n

def declaredPrefixes : List Str :=
  Pyxv.Gen.nsmap.filterMap fun kv =>
    match kv.1.toList with
    | 'x' :: 'm' :: 'l' :: 'n' :: 's' :: ':' :: p => some p
    | _ => none

/-- `utils._validate_xml_name` for an attribute: an XML name whose prefix (if any) is declared on
    `h:html` (prefixes `xml` / `xmlns` are left to `unsupported`) -/
def attrNameOK (k : Str) (extra : List Str := []) : Bool :=
  Rows.isXmlTag k &&
  (match splitOnChar ':' k with
   | [_] => true
   | p :: _ => (declaredPrefixes ++ extra).contains p
   | [] => false)

/-- `utils.validate_xml_document` restricted to one bind element -/
def bindValid (b : Bind) (extra : List Str := []) : Bool :=
  b.attrs.all fun kv => attrNameOK kv.1 extra && kv.2.all xmlChar

/-- classified rows ↦ the bind elements, in document order -/
def metaElem (root : Str) (q : Q) : Elem := { path := [root, "meta".toList, q.name], q }

def allNames (ks : List RK) (metas : List Q) : List Str := ks.flatMap rkNames ++ metas.map (·.name)

/-- classified rows + meta block ↦ the bind elements, in document order.  `extra`: namespace prefixes declared
    on `h:html` besides the standard ones (`entities` when an entity is declared — C19; settings `namespaces`) -/
def bindsOfRows (root : Str) (ks : List RK) (metas : List Q) (extra : List Str := []) : Out :=
  let names := (allNames ks metas).map lowerAscii
  if !(decide names.Nodup) || names.any (reservedNames root).contains then .unsupported "names not unique" else
  if emptySection false ks then .unsupported "empty group" else
  if !triggersOK (visibleTops 0 ks) ks then .unsupported "trigger target" else
  match walk root [] ks with
  | none => .unsupported "unbalanced begin/end"
  | some es =>
    match renderAll root (topNames 0 ks) (es ++ (metas.map (metaElem root) ++ [instanceID root])) with
    | none => .unsupported "reference or value outside the fragment"
    | some bs =>
      if bs.all (fun b => bindValid b extra) then .ok bs
      else .unsupported "attribute name or character not allowed in XML"

/-- survey header row + raw rows ↦ the bind elements, in document order -/
def formBinds (root dl : Str) (lists : List Str) (headers : List Str) (rows : List (List (Str × Str))) : Out :=
  if !(headers.all isAscii) then .unsupported "non-ASCII header" else
  match headerKey headers with
  | .error (.dup a b) => .dupHeader a b
  | .error (.unsupported w) => .unsupported w
  | .ok key =>
    if !(key.any fun kt => kt.2.head? = some "type".toList) then .unsupported "no type column" else
    match processRows dl key lists 2 .off rows with
    | .error w => .unsupported w
    | .ok ks =>
      match metaOfRows dl key rows with
      | .error w => .unsupported w
      | .ok metas => bindsOfRows root ks metas

/-! ## Spec: what C05 demands of one row's bind (a finite map, stated by lookup) -/

namespace Spec

/-- the attribute value the property prescribes for key `k` with cell value / table value `v` -/
def value (root : Str) (tops : List Str) (path k : Str) (v : BVal) : Option Str :=
  (convVal path k v).bind (subst root tops none)

/-- source of attribute `k`: the row's own logic cell wins over the type table; a triggered
    question's `calculate` goes to a setvalue action, not to the bind -/
def source (tt : List (Str × Str)) (logic : BindDict) (trigger : Bool) (k : Str) : Option BVal :=
  if trigger && k = calcKey then none
  else match lookup k logic with
    | some v => some v
    | none => (lookup k tt).map BVal.s

def dedup : List Str → List Str
  | [] => []
  | k :: ks => k :: (dedup ks).filter (· ≠ k)

/-- expected attribute map as a list sorted by nothing in particular: keys of the table then of the
    row, each once; `none` = a value outside the fragment -/
def expected (root : Str) (tops : List Str) (path : Str) (tt : List (Str × Str)) (logic : BindDict)
    (trigger : Bool) : Option (List (Str × Str)) :=
  let keys := dedup (tt.map (·.1) ++ logic.map (·.1))
  keys.foldr (fun k acc =>
    match acc with
    | none => none
    | some l =>
      match source tt logic trigger k with
      | none => some l
      | some v =>
        match value root tops path k v with
        | none => none
        | some s => some ((k, s) :: l)) (some [])

end Spec

end Pyxv.Binds
