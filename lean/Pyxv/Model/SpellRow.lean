import Pyxv.Model.Spell
/-!
# `merge_dicts`, `list_to_nested_dict`, `process_row` (sheet_headers.py:27-64, 67-75, 156-190)

The repaired `merge_dicts` (two plain values for one key: the later, explicitly suffixed one wins;
keys absent from `dict_b` are left alone).  Python dict = insertion-ordered association list with
unique keys; Python truthiness of `None` / `""` / `{}` is explicit (`falsy`).
-/
namespace Pyxv.Spell
open Pyxv

mutual
/-- a cell value or a nested dict of them -/
inductive Val where
  | str (s : Str)
  | dict (kvs : KVs)
/-- insertion-ordered dict body -/
inductive KVs where
  | nil
  | cons (k : Str) (v : Val) (rest : KVs)
end

namespace KVs
def get (k : Str) : KVs → Option Val
  | .nil => none
  | .cons k' v rest => if k = k' then some v else get k rest
/-- `d[k] = v` -/
def set (k : Str) (v : Val) : KVs → KVs
  | .nil => .cons k v .nil
  | .cons k' v' rest => if k = k' then .cons k v rest else .cons k' v' (set k v rest)
def has (k : Str) (d : KVs) : Bool := (d.get k).isSome
end KVs

/-- Python `not x` for `x` a string or dict -/
def falsy : Val → Bool
  | .str [] => true
  | .dict .nil => true
  | _ => false

mutual
/-- `merge_dicts(a, b, dk)` for two present values -/
def mergeV (dk : Str) (a : Val) : Val → Val
  | .str sb =>
    if falsy a then .str sb else if sb.isEmpty then a else
    match a with
    | .str _ => .str sb
    | .dict ka => if ka.has dk then a else .dict (ka.set dk (.str sb))
  | .dict kb =>
    if falsy a then .dict kb else
    match kb with
    | .nil => a
    | .cons k v rest =>
      match a with
      | .str _ => if (KVs.cons k v rest).has dk then .dict (.cons k v rest) else .dict (.cons dk a (.cons k v rest))
      | .dict ka => .dict (mergeL dk ka (.cons k v rest))
/-- the key loop of `merge_dicts` for two dicts: for each key of `dict_b`, in order -/
def mergeL (dk : Str) (ka : KVs) : KVs → KVs
  | .nil => ka
  | .cons k vb rest =>
    let ka' := match ka.get k with
      | some va => ka.set k (mergeV dk va vb)
      | none => ka.set k vb
    mergeL dk ka' rest
end

/-- `list_to_nested_dict((*tokens, val))` -/
def nest : List Str → Str → Val
  | [], v => .str v
  | t :: ts, v => .dict (.cons t (nest ts v) .nil)

/-- one iteration of the `process_row` loop for a cell whose header maps to `tokens` (non-empty) -/
def rowStep (dl : Str) (out : KVs) (cell : List Str × Str) : KVs :=
  match cell with
  | ([], _) => out                       -- raises INVALID_HEADER in Python; never generated
  | ([t0], v) =>
    match out.get t0 with
    | some (.dict d) =>
      (match mergeV dl (.dict out) (.dict (.cons t0 (.str v) .nil)) with | .dict r => r | .str _ => out)
    | _ => out.set t0 (.str v)
  | (t0 :: ts, v) =>
    (match mergeV dl (.dict out) (.dict (.cons t0 (nest ts v) .nil)) with | .dict r => r | .str _ => out)

/-- `process_row` on the cells of one row, headers already mapped to token tuples -/
def processRow (dl : Str) (cells : List (List Str × Str)) : KVs := cells.foldl (rowStep dl) .nil

end Pyxv.Spell
