import Pyxv.Model.OpsBackends
import Pyxv.Model.BackendsTyped
/-! Driver operations for the per-backend typed cell model (C12). -/
namespace Pyxv.Backends.Typed
open Lean Pyxv Pyxv.Backends

def natsOf (j : Json) (k : String) : Except String (List Nat) := do
  (← getArr j k).toList.mapM fun x => x.getNat?

def optIntOf (j : Json) (k : String) : Except String (Option Int) :=
  match j.getObjVal? k with
  | .ok (.null) => pure .none
  | .ok v => do let n ← v.getInt?; pure (some n)
  | .error _ => pure .none

def xlsxValOfJson (j : Json) : Except String XlsxVal := do
  match j with
  | .null => pure .none
  | .str s => pure (.str s.toList)
  | .bool b => pure (.bool b)
  | _ =>
    let t ← j.getObjValAs? String "t"
    if t = "int" then pure (.int (← j.getObjValAs? Int "v"))
    else if t = "float" then pure (.float (← optIntOf j "i") (← getStr j "repr"))
    else if t = "datetime" then
      match ← natsOf j "f" with
      | [y, mo, d, h, mi, s, us] => pure (.datetime y mo d h mi s us)
      | _ => throw "datetime: 7 fields"
    else if t = "time" then
      match ← natsOf j "f" with
      | [h, mi, s, us] => pure (.time h mi s us)
      | _ => throw "time: 4 fields"
    else if t = "other" then pure (.other (← getStr j "repr"))
    else throw "bad xlsx value"

def xlsValOfJson (j : Json) : Except String XlsVal := do
  let ct ← j.getObjValAs? Nat "ct"
  match ct with
  | 0 | 6 => pure .empty
  | 1 => pure (.text (← getStr j "v"))
  | 2 => pure (.number (← optIntOf j "i") (← getStr j "repr"))
  | 3 =>
    match j.getObjVal? "tup" with
    | .ok (.str "ambiguous") => pure (.date .ambiguous)
    | .ok (.str _) => pure (.date .invalid)
    | _ =>
      match ← natsOf j "tup" with
      | [y, mo, d, h, mi, s] => pure (.date (.tuple y mo d h mi s))
      | _ => throw "date: 6 fields"
  | 4 => pure (.bool (← j.getObjValAs? Nat "v"))
  | 5 => pure (.error (← j.getObjValAs? Nat "v"))
  | _ => throw "bad ctype"

def opsBackendsTyped (op : String) (j : Json) : Option (Except String Json) :=
  match op with
  | "be.xlsx_cell_text" => some do
      let vs ← (← getArr j "cells").toList.mapM xlsxValOfJson
      pure (Json.arr (vs.map fun v => optStrJson (xlsxCellText v)).toArray)
  | "be.xls_cell_text" => some do
      let vs ← (← getArr j "cells").toList.mapM xlsValOfJson
      pure (Json.arr (vs.map fun v =>
        match xlsCellText v with
        | .ok t => optStrJson t
        | .error .dateAmbiguous => Json.mkObj [("err", "dateAmbiguous")]
        | .error .dateInvalid => Json.mkObj [("err", "dateInvalid")]).toArray)
  | _ => none

end Pyxv.Backends.Typed
