import Pyxv.Model.Headers
/-!
# Spec of C08: the text each language is shown, read straight off the sheets

Independent of the grouping/merging code: a header is read as (kind, optional language) by the documented
syntax (`name::language`, `:` when no header of the sheet uses `::`, spaces around tokens ignored, first
token case/space-insensitive, optional `media`/`bind` group token), and the demanded text per
(element, kind, language) is
* the `kind::language` cell of the row; else, for the default language, the unsuffixed cell
  (a cell suffixed with the default language wins over the unsuffixed one);
* else the placeholder `-` when the (element, kind) has itext content in some language (media: absent);
* an (element, kind) that is not itext-bearing shows its unsuffixed cell to everybody.
Itext-bearing (documented behaviour, part of the property's wording): any suffixed cell of that kind;
a label next to any media cell; a hint next to any guidance cell; guidance hints and media always;
a constraint/required message that contains a `${reference}`;
a choice when any choice of its list has a suffixed label or media.
Only string primitives (`splitDC`, `splitOnChar`, `strip`, `toSnakeCase`, `fixJr`) are shared with the model.
-/
namespace Pyxv.TextSpec
open Pyxv Pyxv.Headers

def s (x : String) : Str := x.toList

structure Cell where
  kind : Str
  lang : Option Str
  text : Str

def textKinds : List Str := [s "label", s "hint", s "guidance_hint", s "constraint_message", s "required_message"]
def mediaKinds : List Str := [s "image", s "audio", s "video", s "big-image"]

/-- documented spellings of the translatable columns (the spec's own table) -/
def kindOf : List (Str × Str) :=
  [(s "label", s "label"), (s "caption", s "label"), (s "hint", s "hint"), (s "guidance_hint", s "guidance_hint"),
   (s "constraint_message", s "constraint_message"), (s "constraining_message", s "constraint_message"),
   (s "required_message", s "required_message"), (s "requiredmsg", s "required_message"),
   (s "image", s "image"), (s "audio", s "audio"), (s "video", s "video"), (s "big-image", s "big-image")]

def groupedKindOf : List (Str × Str × Str) :=
  [(s "media", s "image", s "image"), (s "media", s "audio", s "audio"), (s "media", s "video", s "video"),
   (s "media", s "big-image", s "big-image"),
   (s "bind", s "jr:constraintMsg", s "constraint_message"), (s "bind", s "jr:requiredMsg", s "required_message")]

def tokens (double : Bool) (h : Str) : Option (List Str) :=
  if double || isInfix (s "::") h then some ((splitDC h).map strip)
  else match fixJr ((splitOnChar ':' h).map strip) with
    | .ok t => some t
    | .error _ => none

/-- (kind, language) named by a header, if it is a translatable column -/
def readHeader (double : Bool) (h : Str) : Option (Str × Option Str) :=
  match tokens double h with
  | none => none
  | some [] => none
  | some (t0 :: rest) =>
    let first := toSnakeCase t0
    let viaGroup : Option (Str × List Str) :=
      match rest with
      | t1 :: rest' => (groupedKindOf.find? fun g => g.1 = first ∧ g.2.1 = t1).map fun g => (g.2.2, rest')
      | [] => none
    let r : Option (Str × List Str) := match viaGroup with
      | some x => some x
      | none => (lookup first kindOf).map fun k => (k, rest)
    match r with
    | some (k, []) => some (k, none)
    | some (k, [l]) => some (k, some l)
    | _ => none

def cellsOf (double : Bool) (allowed : List Str) (row : List (Str × Str)) : List Cell :=
  row.filterMap fun (h, v) =>
    if v.isEmpty then none else
    match readHeader double h with
    | some (k, l) => if allowed.contains k then some ⟨k, l, v⟩ else none
    | none => none

def suffixed (cells : List Cell) (k : Str) : List (Str × Str) :=
  cells.filterMap fun c => match c.lang with
    | some l => if c.kind = k then some (l, c.text) else none
    | none => none

def unsuffixed (cells : List Cell) (k : Str) : Option Str :=
  (cells.find? fun c => c.kind = k ∧ c.lang.isNone).map (·.text)

/-- what is written per language for an itext-bearing (element, kind) -/
def langMap (dl : Str) (cells : List Cell) (k : Str) : List (Str × Str) :=
  let sfx := suffixed cells k
  match unsuffixed cells k with
  | some u => if (lookup dl sfx).isSome then sfx else sfx ++ [(dl, u)]
  | none => sfx

/-- does the text contain a `${…}` reference (closing brace on the same line)?  Such a message needs an
`<output>` element and therefore lives in itext (documented behaviour). -/
def hasRef : Str → Bool
  | [] => false
  | c :: cs =>
    (startsWith (c :: cs) (s "${") && ((((c :: cs).drop 2).takeWhile (· ≠ '\n')).contains '}')) || hasRef cs

inductive Plan where
  | inline (t : Str)
  | itext (m : List (Str × Str))

def hasKind (cells : List Cell) (k : Str) : Bool := cells.any fun c => c.kind = k

def kindsPresent (cells : List Cell) : List Str :=
  (textKinds ++ mediaKinds).filter (hasKind cells)

/-- plan of a survey element; `isGroup`: a group shows label and (through its label) media only -/
def planElem (dl : Str) (isGroup : Bool) (cells : List Cell) : List (Str × Plan) :=
  let hasMedia := mediaKinds.any (hasKind cells)
  let hasGuid := hasKind cells (s "guidance_hint")
  let p := (kindsPresent cells).map fun k =>
    let bearing : Bool :=
      mediaKinds.contains k || k = s "guidance_hint" || !(suffixed cells k).isEmpty ||
      (k = s "label" && hasMedia) || (k = s "hint" && hasGuid) ||
      ((k = s "constraint_message" || k = s "required_message") && hasRef ((unsuffixed cells k).getD []))
    if bearing then (k, Plan.itext (langMap dl cells k))
    else (k, Plan.inline ((unsuffixed cells k).getD []))
  if isGroup && !hasKind cells (s "label") then [] else p

def planChoice (dl : Str) (itext : Bool) (cells : List Cell) : List (Str × Plan) :=
  (kindsPresent cells).map fun k =>
    if itext then (k, Plan.itext (langMap dl cells k)) else (k, Plan.inline ((unsuffixed cells k).getD []))

/-- the text demanded for one (kind, plan) in language `lang` (`""` = view without translations) -/
def demanded (kind : Str) (p : Plan) (lang : Str) : Option Str :=
  match p with
  | .inline t => some t
  | .itext m =>
    if lang.isEmpty then some (s "<itext-without-translation>") else
    match lookup lang m with
    | some t => some t
    | none => if mediaKinds.contains kind || m.isEmpty then none else some (s "-")

structure Sheet where
  cols : List Str
  rows : List (List (Str × Str))

structure Case where
  survey : Sheet
  choices : Sheet
  settingDl : Option Str
  argDl : Option Str

def defaultLanguage (c : Case) : Str :=
  match c.settingDl with
  | some d => d
  | none => match c.argDl with
    | some d => d
    | none => s "default"

def isDouble (sh : Sheet) : Bool := sh.cols.any fun h => isInfix (s "::") h

def cellStr (row : List (Str × Str)) (k : Str) : Str := (lookup k row).getD []

def natStr (n : Nat) : Str := (toString n).toList

inductive RowRole where
  | elem (isGroup : Bool) (list : Option Str)
  | endGroup

def roleOf (row : List (Str × Str)) : RowRole :=
  match splitWs (cellStr row (s "type")) with
  | w :: rest =>
    if w = s "end" then .endGroup
    else if w = s "begin" then .elem true none
    else if w = s "select_one" ∨ w = s "select_multiple" then .elem false rest.head?
    else .elem false none
  | [] => .elem false none

def dedupKeys : List Str → List Str → List Str
  | [], acc => acc.reverse
  | x :: xs, acc => if acc.contains x then dedupKeys xs acc else dedupKeys xs (x :: acc)

structure SpecOut where
  langs : List Str          -- every language named by a translated column or given content
  langsContent : List Str   -- languages that have content
  plans : List (Str × List (Str × Plan))

def indexed {α} : List α → Nat → List (Nat × α)
  | [], _ => []
  | x :: xs, i => (i, x) :: indexed xs (i + 1)

def spec (c : Case) : SpecOut :=
  let dl := defaultLanguage c
  let sd := isDouble c.survey
  let cd := isDouble c.choices
  let named :=
    (c.survey.cols.filterMap fun h => match readHeader sd h with
      | some (_, some l) => some l
      | _ => none) ++
    (c.choices.cols.filterMap fun h => match readHeader cd h with
      | some (k, some l) => if k = s "label" ∨ mediaKinds.contains k then some l else none
      | _ => none)
  let elemPlans := (indexed c.survey.rows 0).filterMap fun (i, row) =>
    match roleOf row with
    | .endGroup => none
    | .elem g _ =>
      let allowed := if g then [s "label", s "image"] else textKinds ++ mediaKinds
      some (s "s" ++ natStr i, planElem dl g (cellsOf sd allowed row))
  let used := c.survey.rows.filterMap fun row => match roleOf row with
    | .elem _ (some l) => some l
    | _ => none
  let callowed := s "label" :: mediaKinds
  let listOf (row : List (Str × Str)) : Str := cellStr row (s "list_name")
  let itextList (l : Str) : Bool :=
    (c.choices.rows.filter fun r => listOf r = l).any fun r =>
      let cs := cellsOf cd callowed r
      mediaKinds.any (hasKind cs) || !(suffixed cs (s "label")).isEmpty
  let choicePlans := (indexed c.choices.rows 0).filterMap fun (i, row) =>
    if used.contains (listOf row) then
      some (s "c" ++ natStr i, planChoice dl (itextList (listOf row)) (cellsOf cd callowed row))
    else none
  let plans := elemPlans ++ choicePlans
  let content := plans.flatMap fun (_, ps) => ps.flatMap fun (_, p) => match p with
    | .itext m => m.map (·.1)
    | .inline _ => []
  { langs := dedupKeys (content ++ named) [], langsContent := dedupKeys content [], plans := plans }

/-- the text demanded for (element key, kind, language), given the plans of the whole case -/
def textOf (o : SpecOut) (key kind lang : Str) : Option Str :=
  match lookup key o.plans with
  | none => none
  | some ps => match lookup kind ps with
    | none => none
    | some p => demanded kind p lang

/-- `Spec.text`: the text demanded for (element key, kind, language) -/
def text (c : Case) (key kind lang : Str) : Option Str := textOf (spec c) key kind lang

end Pyxv.TextSpec
