import Pyxv.Model.Json
import Pyxv.Model.OpsForm
import Pyxv.Model.Controls
/-! Driver operations for the body-control attributes (C04, second half). -/
namespace Pyxv.Controls
open Lean Pyxv Pyxv.Rows Pyxv.Form

def ctlsToJson (cs : List Ctl) : Json :=
  Json.arr (cs.map fun (t, a) => Json.arr #[jstr t, pairsToJson a]).toArray

def rowNumbered (f : Nat → Cells → List Dict) : Nat → List Cells → List Dict
  | _, [] => []
  | n, r :: rs => f n r ++ rowNumbered f (n + 1) rs

/-- structural pipeline (`Form.formModel`) on the prepared rows + the flat list of control attributes -/
def controlsModel (root : Str) (lists : List Str) (rows : List Cells) (settings : Cells) : Json :=
  let unsup (w : String) := Json.mkObj [("outcome", "unsupported"), ("why", Json.str w)]
  if !triggersOk lists rows then unsup "trigger shape" else
  match allControls lists 2 rows with
  | .error (.unsup w) => unsup w
  | .error (.err w) =>
    -- an unsupported row elsewhere dominates
    (match classifyAll lists 2 (rows.map fun r => (prep r).1) with
     | .error w' => unsup w'
     | .ok _ => Json.mkObj [("outcome", "error"), ("err", Json.mkObj [("kind", "controls"), ("what", Json.str w)])])
  | .ok cs =>
    let rows' := rows.map fun r => (prep r).1
    if (match formOut root lists rows' settings with | .ok o => emptySecL o.items | .error _ => false) then
      Json.mkObj [("outcome", "error"), ("err", Json.mkObj [("kind", "emptySection")])]
    else
    let base := formModel root lists rows' settings
    match base.getObjVal? "outcome" with
    | .ok (.str "ok") =>
      base.setObjVal! "ctlAttrs" (ctlsToJson cs)
        |>.setObjVal! "specAttrs" (Json.arr ((rowNumbered (Spec.rowSpecs lists) 2 rows).map pairsToJson).toArray)
    | _ => base

def opsControls (op : String) (j : Json) : Option (Except String Json) :=
  match op with
  | "controls.model" => some do
      let rows ← (← getArr j "rows").toList.mapM cellsOfJson
      let lists ← getStrList j "lists"
      let settings ← cellsOfJson (← j.getObjVal? "settings")
      pure (controlsModel (getStrD j "root" "data") lists rows settings)
  | "controls.params" => some do
      let raw ← getStr j "raw"
      pure (match parseParams raw with
        | some d => Json.mkObj [("ok", true), ("params", pairsToJson d)]
        | none => Json.mkObj [("ok", false)])
  | _ => none

end Pyxv.Controls
