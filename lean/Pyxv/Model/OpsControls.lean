import Pyxv.Model.Json
import Pyxv.Model.OpsForm
import Pyxv.Model.Controls
import Pyxv.Model.TableList
import Pyxv.Model.OpsEntities
/-! Driver operations for the body-control attributes (C04, second half). -/
namespace Pyxv.Controls
open Lean Pyxv Pyxv.Rows Pyxv.Form

def ctlsToJson (cs : List Ctl) : Json :=
  Json.arr (cs.map fun (t, a) => Json.arr #[jstr t, pairsToJson a]).toArray

def numbered (f : Nat → Cells → List Dict) : List (Nat × Cells) → List Dict
  | [] => []
  | (n, r) :: rs => f n r ++ numbered f rs

def errJson (kind what : String) : Json :=
  Json.mkObj [("outcome", "error"), ("err", Json.mkObj [("kind", Json.str kind), ("what", Json.str what)])]

/-- table-list expansion, then the structural pipeline (`Rows.formOutN`, rendered as `Form.formModel` renders
    `formOut`) on the prepared rows + the flat list of control attributes -/
def controlsModel (root : Str) (lists : List Str) (rows : List Cells) (settings : Cells) : Json :=
  let unsup (w : String) := Json.mkObj [("outcome", "unsupported"), ("why", Json.str w)]
  if !triggersOk lists rows then unsup "trigger shape" else
  let nrows := TableList.sheetRows rows
  let prows := nrows.map fun nr => (nr.1, (prep nr.2).1)
  match allControlsN lists nrows with
  | .error (.unsup w) => unsup w
  | .error (.err w) =>
    -- an unsupported row elsewhere dominates
    (match classifyNum lists prows with
     | .error w' => unsup w'
     | .ok _ => errJson "controls" w)
  | .ok cs =>
    match TableList.formOutT root lists rows settings with
    | .error (.unsupported w) => unsup w
    | .error (.err e) => Json.mkObj [("outcome", "error"), ("err", errToJson e)]
    | .error (.unknownType n) => Json.mkObj [("outcome", "error"), ("err", Json.mkObj [("kind", "unknownType"), ("row", n)])]
    | .ok o =>
      if emptySecL o.items then errJson "emptySection" ""
      else if omitWithKey settings then errJson "omitWithKey" "omit_instanceID with public_key"
      else
      Json.mkObj [("outcome", "ok"), ("instance", ntToJson o.inst), ("binds", pathsToJson o.binds),
        ("body", pathsToJson o.body),
        ("ctl", Json.arr (o.ctl.map fun (t, p) => Json.arr #[jstr t, jstr (xpathStr p)]).toArray),
        ("closed", Json.bool ((o.binds ++ o.body).all (resolves o.inst))),
        ("ctlAttrs", ctlsToJson cs),
        ("specAttrs", Json.arr ((numbered (Spec.rowSpecs lists) nrows).map pairsToJson).toArray),
        ("expanded", Json.bool (nrows.length != rows.length))]

/-- the `meta/entity` node (children by name) appended to the meta block of the instance -/
def addEntity (kids : List Str) : NT → NT
  | .node root t ks =>
    let ent := NT.node (k!"entity") false (kids.map fun k => NT.node k false [])
    match ks.reverse with
    | .node n mt mks :: before =>
      if n = (k!"meta") then .node root t ((NT.node n mt (mks ++ [ent]) :: before).reverse)
      else .node root t (ks ++ [NT.node (k!"meta") false [ent]])
    | [] => .node root t [NT.node (k!"meta") false [ent]]

/-- forms with an entities sheet or `save_to` cells: the declaration, its binds and the validity of the
    `save_to` cells are `Pyxv.Entities` (op `entities.model`); the rows themselves are plain questions here -/
def withEntities (j : Json) (base : Json) : Json :=
  let unsup (w : String) := Json.mkObj [("outcome", "unsupported"), ("why", Json.str w)]
  match Entities.opsEntities "entities.model" j with
  | some (.ok e) =>
    (match e.getObjVal? "outcome" with
     | .ok (.str "ok") =>
       (match base.getObjVal? "outcome" with
        | .ok (.str "ok") =>
          (match e.getObjVal? "entity" with
           | .ok (.obj _) =>
             let ent := (e.getObjVal? "entity").toOption.getD Json.null
             let kids : List Str := match ent.getObjVal? "kids" with
               | .ok (.arr a) => a.toList.filterMap fun x => match x with | .str s => some s.toList | _ => none
               | _ => []
             let nodes : List Json := match e.getObjVal? "nodes" with | .ok (.arr a) => a.toList | _ => []
             let nodesets : List Json := nodes.filterMap fun n =>
               match n.getObjVal? "tag", n.getObjVal? "attrs" with
               | .ok (.str "bind"), .ok (.arr attrs) =>
                 attrs.toList.findSome? fun p => match p with
                   | .arr #[.str "nodeset", .str v] => some (Json.str v)
                   | _ => none
               | _, _ => none
             let inst := match base.getObjVal? "instance" with
               | .ok ij => (match ntOfJson ij with | .ok nt => ntToJson (addEntity kids nt) | .error _ => ij)
               | .error _ => Json.null
             let binds := match base.getObjVal? "binds" with | .ok (.arr a) => a.toList | _ => []
             base.setObjVal! "instance" inst |>.setObjVal! "binds" (Json.arr (binds ++ nodesets).toArray)
               |>.setObjVal! "entity" (Json.bool true)
           | _ => base)
        | _ => base)
     | .ok (.str "unsupported") => unsup ("entities: " ++ (match e.getObjVal? "why" with | .ok (.str w) => w | _ => "?"))
     | _ =>
       -- rejected by the entities stage; an unsupported answer of the structural stage dominates
       (match base.getObjVal? "outcome" with
        | .ok (.str "unsupported") => base
        | _ => errJson "entities" "rejected by the entities sheet / save_to validation"))
  | _ => unsup "entities op"

def opsControls (op : String) (j : Json) : Option (Except String Json) :=
  match op with
  | "controls.model" => some do
      let rows ← (← getArr j "rows").toList.mapM cellsOfJson
      let lists ← getStrList j "lists"
      let settings ← cellsOfJson (← j.getObjVal? "settings")
      let base := controlsModel (getStrD j "root" "data") lists rows settings
      let hasEnt := match j.getObjVal? "entities" with | .ok (.arr a) => !a.isEmpty | _ => false
      let hasSaveto := rows.any fun r => has r "bind::entities:saveto"
      if hasEnt || hasSaveto then
        let j' := (j.setObjVal! "survey" ((j.getObjVal? "rows").toOption.getD Json.null))
        let j' := match j.getObjVal? "entities" with | .ok _ => j' | .error _ => j'.setObjVal! "entities" (Json.arr #[])
        pure (withEntities j' base)
      else pure base
  | "controls.params" => some do
      let raw ← getStr j "raw"
      pure (match parseParams raw with
        | some d => Json.mkObj [("ok", true), ("params", pairsToJson d)]
        | none => Json.mkObj [("ok", false)])
  | _ => none

end Pyxv.Controls
