import Pyxv.Model.Json
import Pyxv.Model.OpsForm
import Pyxv.Model.Controls
import Pyxv.Model.TableList
/-! Driver operations for the body-control attributes (C04, second half). -/
namespace Pyxv.Controls
open Lean Pyxv Pyxv.Rows Pyxv.Form

def ctlsToJson (cs : List Ctl) : Json :=
  Json.arr (cs.map fun (t, a) => Json.arr #[jstr t, pairsToJson a]).toArray

def numbered (f : Nat → Cells → List Dict) : List (Nat × Cells) → List Dict
  | [] => []
  | (n, r) :: rs => f n r ++ numbered f rs

def errJson (kind what : String) : Json :=
  Json.mkObj [("outcome", "error"), ("err", Json.mkObj [("kind", Json.str kind), ("what", Json.str what)])]

/-- table-list expansion, then the structural pipeline (`Rows.formOutN`, rendered as `Form.formModel` renders
    `formOut`) on the prepared rows + the flat list of control attributes -/
def controlsModel (root : Str) (lists : List Str) (rows : List Cells) (settings : Cells) : Json :=
  let unsup (w : String) := Json.mkObj [("outcome", "unsupported"), ("why", Json.str w)]
  if !triggersOk lists rows then unsup "trigger shape" else
  let nrows := TableList.sheetRows rows
  let prows := nrows.map fun nr => (nr.1, (prep nr.2).1)
  match allControlsN lists nrows with
  | .error (.unsup w) => unsup w
  | .error (.err w) =>
    -- an unsupported row elsewhere dominates
    (match classifyNum lists prows with
     | .error w' => unsup w'
     | .ok _ => errJson "controls" w)
  | .ok cs =>
    match TableList.formOutT root lists rows settings with
    | .error (.unsupported w) => unsup w
    | .error (.err e) => Json.mkObj [("outcome", "error"), ("err", errToJson e)]
    | .error (.unknownType n) => Json.mkObj [("outcome", "error"), ("err", Json.mkObj [("kind", "unknownType"), ("row", n)])]
    | .ok o =>
      if emptySecL o.items then errJson "emptySection" ""
      else
      Json.mkObj [("outcome", "ok"), ("instance", ntToJson o.inst), ("binds", pathsToJson o.binds),
        ("body", pathsToJson o.body),
        ("ctl", Json.arr (o.ctl.map fun (t, p) => Json.arr #[jstr t, jstr (xpathStr p)]).toArray),
        ("closed", Json.bool ((o.binds ++ o.body).all (resolves o.inst))),
        ("ctlAttrs", ctlsToJson cs),
        ("specAttrs", Json.arr ((numbered (Spec.rowSpecs lists) nrows).map pairsToJson).toArray),
        ("expanded", Json.bool (nrows.length != rows.length))]

def opsControls (op : String) (j : Json) : Option (Except String Json) :=
  match op with
  | "controls.model" => some do
      let rows ← (← getArr j "rows").toList.mapM cellsOfJson
      let lists ← getStrList j "lists"
      let settings ← cellsOfJson (← j.getObjVal? "settings")
      pure (controlsModel (getStrD j "root" "data") lists rows settings)
  | "controls.params" => some do
      let raw ← getStr j "raw"
      pure (match parseParams raw with
        | some d => Json.mkObj [("ok", true), ("params", pairsToJson d)]
        | none => Json.mkObj [("ok", false)])
  | _ => none

end Pyxv.Controls
