import Pyxv.Model.Entities
import Pyxv.Model.Binds
/-!
# Entities sheet: the full header loop (`dealias_and_group_headers` on the entities sheet)

`Pyxv.Entities.dealiasRows` answers `unsupported` for an entities header containing `:` and for two
headers of one row that dealias to the same column.  This file models what the code does there, by
instantiating C05's model of `process_header` and of the header loop (`Binds.processHeader`,
`Binds.headerKeys`, tied by C05's correspondence stream on survey headers) with the entities sheet's
alias table and column set (xls2json.py 447-470):

* the header loop runs over the *sheet header* (all columns, also those whose cells are empty), in
  column order; a header whose tokens were already produced by an earlier header is rejected with
  `INVALID_DUPLICATE` unless `process_header` left it unchanged (then the later cell overwrites the
  earlier one in `process_row`, in the earlier one's position);
* a header with a delimiter (`::` if any header of the sheet has one, else `:`) becomes the tokens
  `(first, …)`; `process_row` files the cell under the first token.  When the first token is not an
  entities column, the key alone decides (`validate_entities_columns` names it; no entity function reads
  the value), so the model keeps the key with an empty placeholder value.  When the first token *is* an
  entities column the cell value becomes a dict (`{'en': 'x'}` is then formatted into the bind, or
  `.startswith` raises AttributeError for `dataset`): that stays `unsupported`.

Still outside: the empty header, a header ending in the token `jr` (IndexError), grouped known columns.
-/
namespace Pyxv.Entities
open Pyxv

/-- `aliases.entities_header` in the shape of C05's alias tables (every alias is a single string) -/
def entityAliasesB : List (Str × List Str) := entityAliases.map fun p => (p.1, [p.2])

/-- `INVALID_DUPLICATE.format(sheet_name="entities", other=…, header=…)` (sheet_headers.py 15-19) -/
def dupMsg (other header : Str) : Str :=
  "Invalid headers provided for sheet: 'entities'. Headers that are different names for the same column were found: '".toList
    ++ other ++ "', '".toList ++ header ++ "'. Rename or remove one of these columns.".toList

/-- the header loop on the entities sheet: header ↦ tokens -/
def entityHeaderKey (headers : List Str) : Except Rej (List (Str × List Str)) :=
  match Binds.headerKeys (headers.any fun h => isInfix "::".toList h) entityAliasesB entityHeaderColumns headers [] [] with
  | .ok key => .ok key
  | .error (.dup other header) => .error (.msg (dupMsg other header))
  | .error (.unsupported why) => .error (.unsupported why)

/-- Python `d[k] = v` on an insertion-ordered dict of cells -/
def setCell (d : Cells) (k v : Str) : Cells :=
  if d.any (fun p => p.1 = k) then d.map (fun p => if p.1 = k then (k, v) else p) else d ++ [(k, v)]

/-- `process_row` on one entities row (`acc` = `out_row` so far) -/
def processRowE (key : List (Str × List Str)) : Cells → Cells → Except Rej Cells
  | acc, [] => .ok acc
  | acc, (h, v) :: r =>
    match lookup h key with
    | none => .error (.unsupported "entities cell without a header")
    | some [] => .error (.unsupported "entities header without tokens")
    | some [t] => processRowE key (setCell acc t v) r
    | some (t0 :: _ :: _) =>
      if entityColumnsL.contains t0 then .error (.unsupported "grouped entities column (dict-valued cell)")
      else processRowE key (setCell acc t0 []) r

def processRowsE (key : List (Str × List Str)) : List Cells → Except Rej (List Cells)
  | [] => .ok []
  | r :: rs =>
    match processRowE key [] r, processRowsE key rs with
    | .ok r', .ok rs' => .ok (r' :: rs')
    | .error e, _ => .error e
    | _, .error e => .error e

/-- `dealias_and_group_headers(sheet_name="entities", …).data`; an empty sheet is not looked at
    (`if workbook_dict.entities:`) -/
def dealiasSheet (headers : List Str) (rows : List Cells) : Except Rej (List Cells) :=
  match rows with
  | [] => .ok []
  | _ :: _ =>
    match entityHeaderKey headers with
    | .error e => .error e
    | .ok key => processRowsE key rows

/-- the sheet header when none is given: the keys of the rows in order of first appearance -/
def headersOf : List Str → List Cells → List Str
  | acc, [] => acc
  | acc, r :: rs => headersOf (r.foldl (fun a p => if a.contains p.1 then a else a ++ [p.1]) acc) rs

/-- the whole mechanism with the full header loop in front -/
def convertH (root : Str) (sub : Str → Str) (settings : Cells) (headers : List Str) (entities : List Cells)
    (survey : List Cells) : Except Rej Out :=
  match dealiasSheet headers entities with
  | .error e => .error e
  | .ok ents => convert root sub settings ents survey

end Pyxv.Entities
