import Pyxv.Model.Refs
import Pyxv.Model.Channel
/-!
# Refs, part 3: finding and replacing the `${…}` occurrences of a cell

`Survey.insert_xpaths` (survey.py 1197-1214) is `re.sub(BRACKETED_TAG_REGEX, _var_repl_function, str(text))`.
The regex `\$\{(last-saved#)?(.*?)\}` (utils.py 24) is the one modelled by `Pyxv.Chan.matchRef`
(optional greedy group, lazy run up to the next `}` on the same line); `re.sub` scans left to right,
replaces every non-overlapping match and copies everything else.
-/
namespace Pyxv.Refs
open Pyxv

/-- `re.sub(BRACKETED_TAG_REGEX, repl, s)`; `repl atStart rest ls name = none` is the PyXFormError of an
unknown/ambiguous name.  `atStart` is the text from the `$` of the match on and `rest` the text behind its `}`
(the match object's `start()` / `end()` relative to the whole string: `whole.length - atStart.length`,
`whole.length - rest.length`).  Fuel: `s.length + 1` suffices. -/
def substRefs (repl : Str → Str → Bool → Str → Option Str) : Nat → Str → Option Str
  | 0, _ => none
  | _ + 1, [] => some []
  | fuel + 1, c :: r =>
    if c = '$' ∧ r.head? = some '{' then
      match Chan.matchRef r.tail with
      | some (ls, name, rest) =>
        match repl (c :: r) rest ls name, substRefs repl fuel rest with
        | some v, some out => some (v ++ out)
        | _, _ => none
      | none => (substRefs repl fuel r).map (c :: ·)
    else (substRefs repl fuel r).map (c :: ·)

/-- the occurrences the regex finds, in order: (last-saved?, name) -/
def findRefs : Nat → Str → List (Bool × Str)
  | 0, _ => []
  | _ + 1, [] => []
  | fuel + 1, c :: r =>
    if c = '$' ∧ r.head? = some '{' then
      match Chan.matchRef r.tail with
      | some (ls, name, rest) => (ls, name) :: findRefs fuel rest
      | none => findRefs fuel r
    else findRefs fuel r

/-- every `${` of the cell opens a reference (what `validate_pyxform_reference_syntax` enforces when
`clean_text_values` is on; F21 is its absence) -/
def refsClosed : Nat → Str → Bool
  | 0, _ => true
  | _ + 1, [] => true
  | fuel + 1, c :: r =>
    if c = '$' ∧ r.head? = some '{' then
      match Chan.matchRef r.tail with
      | some (_, _, rest) => refsClosed fuel rest
      | none => false
    else refsClosed fuel r

/-- `insert_xpaths(text, context, use_current, reference_parent)` with the occurrence-level flags fixed -/
def insertXpaths (els : List Chain) (ctx : Option Chain) (fl : Flags) (s : Str) : Option Str :=
  substRefs (fun _ _ ls name => (refFor els ctx name { fl with lastSaved := ls }).text) (s.length + 1) s

/-! ## the occurrence-level flags, computed from the cell text (survey.py 1142-1232) -/

def instanceTag : Str := "instance(".toList
def indexedTag : Str := "indexed-repeat(".toList

/-- `RE_INSTANCE = instance\([^)]+.+` matched *at* this position: `instance(`, one character that is not `)`,
then (after any further non-`)` characters, which the greedy `[^)]+` may give back) one character that is not a
newline — i.e. some non-newline character follows the first one. -/
def reInstanceHere (s : Str) : Bool :=
  startsWith s instanceTag &&
    match s.drop instanceTag.length with
    | [] => false
    | c :: r => c != ')' && r.any (· != '\n')

/-- `RE_INSTANCE.search(s) is not None` -/
def reInstanceSearch : Str → Bool
  | [] => false
  | c :: r => reInstanceHere (c :: r) || reInstanceSearch r

/-- bracket depth after reading `s` (the loop of `_in_secondary_instance_predicate` since 63a5727) -/
def bracketDepth (depth : Nat) : Str → Nat
  | [] => depth
  | c :: r =>
    if c = '[' then bracketDepth (depth + 1) r
    else if c = ']' ∧ depth > 0 then bracketDepth (depth - 1) r
    else bracketDepth depth r

/-- `_in_secondary_instance_predicate()` for the occurrence `whole[start:end]` -/
def inPredicateAt (whole : Str) (start end_ : Nat) : Bool :=
  reInstanceSearch whole && bracketDepth 0 (whole.take start) > 0 && (whole.drop end_).contains ']'

/-- `[^)]+\)` after `indexed-repeat(`: the argument text and what follows the `)` -/
def takeArgs : Str → Option (Str × Str)
  | [] => none
  | c :: r =>
    if c = ')' then some ([], r)
    else match takeArgs r with
      | some (a, rest) => some (c :: a, rest)
      | none => none

/-- `RE_INDEXED_REPEAT.finditer(s)`: non-overlapping leftmost matches as (start, end, argument text); `pos` is the
index of the head of `s` in the whole string.  Fuel: `s.length + 1`. -/
def indexedRepeatMatches : Nat → Nat → Str → List (Nat × Nat × Str)
  | 0, _, _ => []
  | _ + 1, _, [] => []
  | fuel + 1, pos, c :: r =>
    if startsWith (c :: r) indexedTag then
      match takeArgs ((c :: r).drop indexedTag.length) with
      | some (a, rest) =>
        if a.isEmpty then indexedRepeatMatches fuel (pos + 1) r
        else (pos, pos + indexedTag.length + a.length + 1, a) ::
          indexedRepeatMatches fuel (pos + indexedTag.length + a.length + 1) rest
      | none => indexedRepeatMatches fuel (pos + 1) r
    else indexedRepeatMatches fuel (pos + 1) r

/-- index of the last argument that contains `${name}` (`for idx, arg in enumerate(args): if name_arg in arg.strip()`;
the needle starts with `$` and ends with `}`, so stripping the argument cannot remove an occurrence) -/
def lastArgWith (needle : Str) : Nat → List Str → Option Nat → Option Nat
  | _, [], acc => acc
  | i, a :: as, acc => lastArgWith needle (i + 1) as (if isInfix needle a then some i else acc)

/-- The verdict of `_is_return_relative_path`'s indexed-repeat part for the occurrence `whole[start:end]` of `${name}`:
`some true` = absolute by design, `some false` = relative allowed.  `RE_FUNCTION_ARGS` has `re.DOTALL` since 9564302, so its
group 1 is the whole argument text also when that spans several lines; the result is never `none` (the `Option` is kept
for the callers' sake). -/
def indexedArgAt (whole : Str) (start end_ : Nat) (name : Str) : Option Bool :=
  match (indexedRepeatMatches (whole.length + 1) 0 whole).find? fun (a, b, _) => a ≤ start && end_ ≤ b with
  | none => some false
  | some (_, _, args) =>
    let needle := '$' :: '{' :: name ++ ['}']
    match lastArgWith needle 0 (splitOnChar ',' args) none with
    | some i => some (i == 0 || i == 1 || i == 3 || i == 5)
    | none => some true

inductive TextOut where
  | ok (s : Str)
  /-- PyXFormError naming the reference -/
  | unknown (name : Str)
  | ambiguous (name : Str)
  | unsupported
deriving DecidableEq, Repr, Inhabited

/-- the replacement for one occurrence, flags computed from the cell text -/
def replAt (els : List Chain) (ctx : Option Chain) (useCurrent referenceParent : Bool) (whole : Str)
    (atStart rest : Str) (ls : Bool) (name : Str) : Option Out :=
  let start := whole.length - atStart.length
  let end_ := whole.length - rest.length
  match indexedArgAt whole start end_ name with
  | none => none
  | some ia =>
    some (refFor els ctx name { lastSaved := ls, indexedArg := ia, inPredicate := inPredicateAt whole start end_,
                                useCurrent := useCurrent, referenceParent := referenceParent })

/-- **`Survey.insert_xpaths(text, context, use_current, reference_parent)` from the cell text alone.** -/
def insertXpathsText (els : List Chain) (ctx : Option Chain) (useCurrent referenceParent : Bool) (whole : Str) :
    Option Str :=
  substRefs (fun atStart rest ls name =>
    match replAt els ctx useCurrent referenceParent whole atStart rest ls name with
    | some o => o.text
    | none => none) (whole.length + 1) whole

/-- the first failing reference, for the error message: unknown / ambiguous name, or outside the fragment -/
def firstFailure (els : List Chain) (ctx : Option Chain) (useCurrent referenceParent : Bool) (whole : Str) :
    Nat → Str → TextOut
  | 0, _ => .unsupported
  | _ + 1, [] => .ok []
  | fuel + 1, c :: r =>
    if c = '$' ∧ r.head? = some '{' then
      match Chan.matchRef r.tail with
      | some (ls, name, rest) =>
        match replAt els ctx useCurrent referenceParent whole (c :: r) rest ls name with
        | none => .unsupported
        | some (.unknown n) => .unknown n
        | some (.ambiguous n) => .ambiguous n
        | some (.ok _ _) => firstFailure els ctx useCurrent referenceParent whole fuel rest
      | none => firstFailure els ctx useCurrent referenceParent whole fuel r
    else firstFailure els ctx useCurrent referenceParent whole fuel r

end Pyxv.Refs
