import Pyxv.Model.Refs
import Pyxv.Model.Channel
/-!
# Refs, part 3: finding and replacing the `${…}` occurrences of a cell

`Survey.insert_xpaths` (survey.py 1197-1214) is `re.sub(BRACKETED_TAG_REGEX, _var_repl_function, str(text))`.
The regex `\$\{(last-saved#)?(.*?)\}` (utils.py 24) is the one modelled by `Pyxv.Chan.matchRef`
(optional greedy group, lazy run up to the next `}` on the same line); `re.sub` scans left to right,
replaces every non-overlapping match and copies everything else.
-/
namespace Pyxv.Refs
open Pyxv

/-- `re.sub(BRACKETED_TAG_REGEX, repl, s)`; `repl ls name = none` is the PyXFormError of an unknown/ambiguous name.
Fuel: `s.length + 1` suffices. -/
def substRefs (repl : Bool → Str → Option Str) : Nat → Str → Option Str
  | 0, _ => none
  | _ + 1, [] => some []
  | fuel + 1, c :: r =>
    if c = '$' ∧ r.head? = some '{' then
      match Chan.matchRef r.tail with
      | some (ls, name, rest) =>
        match repl ls name, substRefs repl fuel rest with
        | some v, some out => some (v ++ out)
        | _, _ => none
      | none => (substRefs repl fuel r).map (c :: ·)
    else (substRefs repl fuel r).map (c :: ·)

/-- the occurrences the regex finds, in order: (last-saved?, name) -/
def findRefs : Nat → Str → List (Bool × Str)
  | 0, _ => []
  | _ + 1, [] => []
  | fuel + 1, c :: r =>
    if c = '$' ∧ r.head? = some '{' then
      match Chan.matchRef r.tail with
      | some (ls, name, rest) => (ls, name) :: findRefs fuel rest
      | none => findRefs fuel r
    else findRefs fuel r

/-- every `${` of the cell opens a reference (what `validate_pyxform_reference_syntax` enforces when
`clean_text_values` is on; F21 is its absence) -/
def refsClosed : Nat → Str → Bool
  | 0, _ => true
  | _ + 1, [] => true
  | fuel + 1, c :: r =>
    if c = '$' ∧ r.head? = some '{' then
      match Chan.matchRef r.tail with
      | some (_, _, rest) => refsClosed fuel rest
      | none => false
    else refsClosed fuel r

/-- `insert_xpaths(text, context, use_current, reference_parent)` with the occurrence-level flags fixed -/
def insertXpaths (els : List Chain) (ctx : Option Chain) (fl : Flags) (s : Str) : Option Str :=
  substRefs (fun ls name => (refFor els ctx name { fl with lastSaved := ls }).text) (s.length + 1) s

end Pyxv.Refs
