import Pyxv.Model.Warnings
import Pyxv.Model.Lexer
/-!
# Warnings, extension (C20, phase 8): single-colon header delimiter, `jr:` prefixes, `default` on begin rows

`Pyxv.Warn.processHeader` answers `none` (outside the fragment) for a header that needs the single-colon
branch of `sheet_headers.process_header` (127-137), and `typedOut` answers `unsupported` for a `begin` row
with a `default` cell (its label check calls `default_is_dynamic`, xls2json.py 859-862).  This file brings
both into the model:

* `splitC`, `jrMerge`, `processHeader2`, `headerKey2`: the complete `process_header`, including
  `header.split(":")` and the `if "jr" in tokens` rewrite; the one way that branch can fail (`jr` is the last
  token: `tokens[jr_idx + 1]` raises IndexError) is the outcome `HdrRes.raises`;
* `deDefault`: a begin row with a `default` cell is reduced to a row the existing row model answers: the
  `default` cells are dropped and, when `default_is_dynamic(default, type)` (C10's `Lexer.defaultIsDynamic`)
  holds, a non-empty `bind::calculate` cell takes its place — `noLabelCond_deDefault` (Proofs/C20Ext) states that
  the label check of the reduced row is the code's label check including its `default` clause
  (`noLabelCond2`);
* `view2`, `workbookToJson2`, `Spec.workbookDue2`: header processing and conversion on top of them; the row
  loop, the translation checks and everything else are `convertOn` / `Spec.dueOn` unchanged, so the capstones
  carry over verbatim.
-/
namespace Pyxv.Warn
open Pyxv

/-- Python `s.split(":")` -/
def splitC : Str → Str → List Str
  | acc, [] => [acc.reverse]
  | acc, ':' :: r => acc.reverse :: splitC [] r
  | acc, c :: r => splitC (c :: acc) r

def jrTok : Str := ['j', 'r']

/-- `if "jr" in tokens: jr_idx = tokens.index("jr"); tokens = (*tokens[:jr_idx], f"jr:{tokens[jr_idx+1]}",
    *tokens[jr_idx+2:])`; `none` = IndexError (the first `jr` is the last token) -/
def jrMerge : List Str → Option (List Str)
  | [] => some []
  | t :: rest =>
    if t = jrTok then
      match rest with
      | [] => none
      | n :: rest' => some ((jrTok ++ ':' :: n) :: rest')
    else (jrMerge rest).map (t :: ·)

inductive HdrRes where
  | ok (tokens : List Str)
  /-- the implementation raises IndexError (`jr` as last single-colon token) -/
  | raises
  /-- outside the modelled fragment (U+212A / U+0130: `str.lower()`) -/
  | outside
deriving Repr, DecidableEq, Inhabited

/-- the delimiter step of `process_header` (127-137) -/
def headerTokens (useDC : Bool) (h : Str) : Option (List Str) :=
  if useDC || isInfix "::".toList h then some ((splitDC [] h).map strip)
  else jrMerge ((splitC [] h).map strip)

/-- `process_header(header, use_double_colon, header_aliases, header_columns)[1]`, every branch -/
def processHeader2 (useDC : Bool) (al : Aliases) (cols : List Str) (h : Str) : HdrRes :=
  if !lowerSafe h then .outside
  else if cols.contains h && (lookup h al).isNone then .ok [h]
  else
    let n := toSnake h
    if cols.contains n && (lookup n al).isNone then .ok [n]
    else
      match headerTokens useDC h with
      | none => .raises
      | some [] => .outside
      | some (t0 :: rest) =>
        let nh := toSnake t0
        match lookup nh al with
        | some (a :: as) => .ok ((a :: as) ++ rest)
        | _ => if cols.contains nh then .ok (nh :: rest) else .ok (t0 :: rest)

def headerKey2Go (useDC : Bool) (al : Aliases) (cols : List Str) : List Str → Except Stop (List (Str × List Str))
  | [] => .ok []
  | h :: hs =>
    match processHeader2 useDC al cols h with
    | .raises => .error (.error 0 "header: IndexError (jr is the last token)")
    | .outside => .error (.unsupported "header: non-ASCII lower-casing")
    | .ok t =>
      match headerKey2Go useDC al cols hs with
      | .error e => .error e
      | .ok r => .ok ((h, t) :: r)

/-- `dealias_and_group_headers`: the header key for one header row -/
def headerKey2 (al : Aliases) (cols : List Str) (hdr : List Str) : Except Stop (List (Str × List Str)) :=
  headerKey2Go (hdr.any fun h => isInfix "::".toList h) al cols hdr

/-! ## `default` on a begin row -/

def isBeginRow (r : PRow) : Bool :=
  match rowType r with
  | some t => (Rows.matchControl "begin" true t).isSome
  | none => false

def dropDefault (r : PRow) : PRow := r.filter fun c => c.1.head? ≠ some "default".toList

def calcMark : List Str × Str := (["bind".toList, "calculate".toList], ['1'])

/-- `row.get("default") and default_is_dynamic(row.get("default"), question_type)`; `none` = the lexer's rule
    table is not the modelled one -/
def dynDefault (r : PRow) : Option Bool :=
  match val1 r "default" with
  | none => some false
  | some v => if v.isEmpty then some false else Lexer.defaultIsDynamic v ((rowType r).getD [])

/-- the reduction: only begin rows with a `default` cell are touched -/
def deDefault (r : PRow) : Option PRow :=
  if isBeginRow r && keyIn r "default" then
    match dynDefault r with
    | none => none
    | some true => some (calcMark :: dropDefault r)
    | some false => some (dropDefault r)
  else some r

/-- the begin row's label check of xls2json.py 852-868 with its `default` clause, read directly -/
def noLabelCond2 (r : PRow) (ct : Str) (dyn : Bool) : Bool :=
  !keyIn r "label" && !keyIn r "media"
    && !(match val2 r "bind" "calculate" with | some v => !v.isEmpty | none => false)
    && !dyn
    && !(ct = "group".toList && val2 r "control" "appearance" = some "field-list".toList)

def deDefaultRows : List PRow → Except Stop (List PRow)
  | [] => .ok []
  | r :: rs =>
    match deDefault r with
    | none => .error (.unsupported "default on a begin row: lexer table")
    | some r' =>
      match deDefaultRows rs with
      | .error e => .error e
      | .ok rs' => .ok (r' :: rs')

/-! ## the workbook -/

def view2 (wb : WB) : Except Stop View :=
  match (if wb.choices.isEmpty then .ok [] else headerKey2 listAliases choicesCols wb.choicesHeader) with
  | .error e => .error e
  | .ok chk =>
  match wb.choices.mapM (processRow id chk) with
  | none => .error (.error 0 "choices: cell without header")
  | some chRows =>
  match headerKey2 surveyAliases surveyCols wb.surveyHeader with
  | .error e => .error e
  | .ok shk =>
  match wb.survey.mapM (processRow cleanSurveyVal shk) with
  | none => .error (.error 0 "survey: cell without header")
  | some svRows0 =>
  match deDefaultRows svRows0 with
  | .error e => .error e
  | .ok svRows => .ok { chHeaders := distinctTokens chk, chRows := chRows, svHeaders := distinctTokens shk, svRows := svRows }

/-- `workbook_to_json(workbook_dict, warnings=w0)` with the complete header processing -/
def workbookToJson2 (lower : Str → Str) (wb : WB) (w0 : List W) : Except Stop (Res × List W) :=
  match view2 wb with
  | .error e => .error e
  | .ok v => convertOn lower wb v w0

namespace Spec

def workbookDue2 (dist : Str → Str → Nat) (lower : Str → Str) (wb : WB) : Except Stop (List W) :=
  match view2 wb with
  | .error e => .error e
  | .ok v => .ok (dueOn dist lower wb v)

end Spec

end Pyxv.Warn
