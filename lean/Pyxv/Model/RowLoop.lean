import Pyxv.Model.Base
/-!
# C17: the partial operations of the row loop, explicit

A variant of the row loop of `xls2json.workbook_to_json` (xls2json.py 537-1400, tree with the approved
fixes) in which every operation that can raise something other than `PyXFormError` is an explicit step
with an `internal` outcome:

* cells are *typed* as header grouping leaves them — `Val.str` for an ungrouped column, `Val.dict` for a
  grouped one (`bind::x`, `label::en`) — so that `row.get("bind", {}).get(…)` on a string
  (`AttributeError`), `parameters.split` on a dict, `yes_no.get(<dict>)` (`TypeError: unhashable`) are
  visible;
* `choices[list_name]` (xls2json.py `add_choices_info_to_question`, and the table-list header) and
  `for tag in osm_tags.get(list)` are lookups that may fail.

Everything total (the regexes, parameter validation, name syntax, …) is abstracted into `Env`: these
steps can only reject (`PyXFormError`) or pass, which is all that matters for "no internal exception";
the theorems hold for every `Env`.  The driver instantiates `Env` with the functions of `Pyxv.Rows`.
-/
namespace Pyxv.RowLoop
open Pyxv

inductive Val where
  | str (s : Str)
  | dict (kv : List (Str × Val))
deriving Repr, Inhabited

def Val.isStr : Val → Bool
  | .str _ => true
  | .dict _ => false

abbrev TRow := List (Str × Val)

inductive Stop where
  /-- the library's own error: `PyXFormError` -/
  | reject (what : String)
  /-- an exception that is not `PyXFormError` -/
  | internal (cls : String) (site : String)
deriving Repr, DecidableEq

abbrev M := Except Stop

def k (s : String) : Str := s.toList

/-- `row.get(key)` where string code follows (`.split`, regex search, `.lower()`, dict key) -/
def strCell (site : String) (cls : String) (r : TRow) (key : String) : M (Option Str) :=
  match lookup (k key) r with
  | none => .ok none
  | some (.str s) => .ok (some s)
  | some (.dict _) => .error (.internal cls site)

/-- `row.get(key, {}).get(sub)` — the cell must be a dict (or absent) -/
def dictCell (site : String) (r : TRow) (key : String) : M (List (Str × Val)) :=
  match lookup (k key) r with
  | none => .ok []
  | some (.dict d) => .ok d
  | some (.str _) => .error (.internal "AttributeError" site)

def subStr (site : String) (cls : String) (d : List (Str × Val)) (key : String) : M (Option Str) :=
  match lookup (k key) d with
  | none => .ok none
  | some (.str s) => .ok (some s)
  | some (.dict _) => .error (.internal cls site)

inductive Ctl where
  | group | rep | loop
deriving DecidableEq, Repr

/-- the total parts of the loop (each can only pass or reject) -/
structure Env where
  yes : Str → Bool
  paramsParse : Str → Bool
  settingsType : Str → Bool
  endCtl : Str → Option Ctl
  beginCtl : Str → Option Ctl
  select : Str → Option (Str × Str × Bool)      -- (select type, list name, or_other)
  osm : Str → Option (Option Str)               -- `RE_OSM`: list name if any
  xmlTag : Str → Bool
  dynDefault : Str → Str → Bool
  isRef : Str → Bool
  fileExt : Str → Bool
  hasRef : Str → Bool
  randomize : Str → Bool
  hasApp : Str → Bool
  /-- remaining total checks of a branch (parameter domains, save_to names, labels, …) -/
  branchOk : String → TRow → Bool

inductive TL where
  | off | pending | named (ln : Str)
deriving Repr, DecidableEq

structure St where
  stack : List Ctl := []
  tableList : TL := .off
deriving Repr

structure Sheets where
  choices : List Str
  external : List Str
  hasExternal : Bool
  osm : Option (List Str)
  hasEntities : Bool

def site := "xls2json.py:workbook_to_json"

def cellIsStr (r : TRow) (key : String) : Bool :=
  match lookup (k key) r with
  | some (.dict _) => false
  | _ => true

def cellIsDict (r : TRow) (key : String) : Bool :=
  match lookup (k key) r with
  | some (.str _) => false
  | _ => true

def subIsStr (r : TRow) (key sub : String) : Bool :=
  match lookup (k key) r with
  | some (.dict d) => (match lookup (k sub) d with | some (.dict _) => false | _ => true)
  | _ => true

def rejectIf (c : Bool) (w : String) : M Unit := if c then .error (.reject w) else .ok ()
def crashIf (c : Bool) (cls site : String) : M Unit := if c then .error (.internal cls site) else .ok ()

/-- `validate_entity_saveto` (entities_parsing.py 83-125) -/
def saveToVal (env : Env) (sh : Sheets) (r : TRow) (t : Str) (inRepeat : Bool) : Option Val → M Unit
  | none => .ok ()
  | some v => do
    rejectIf (!sh.hasEntities) "save_to without entities sheet"
    rejectIf (isInfix (k "group") t || isInfix (k "repeat") t) "save_to on group"
    rejectIf inRepeat "save_to in repeat"
    crashIf (!v.isStr) "AttributeError" "entities_parsing.py:validate_entity_saveto"   -- `save_to.lower()`
    rejectIf (!env.branchOk "save_to" r) "save_to name"

def saveTo (env : Env) (sh : Sheets) (r : TRow) (t : Str) (inRepeat : Bool) : M Unit := do
  let bind ← dictCell "entities_parsing.py:validate_entity_saveto" r "bind"
  saveToVal env sh r t inRepeat (lookup (k "entities:saveto") bind)

def tableListAfterBegin (st : St) : Option Str → TL
  | some a => if (splitOnChar ' ' a).contains (k "table-list") then TL.pending else st.tableList
  | none => st.tableList

/-- a `begin group|repeat|loop` row (xls2json.py 832-965).  `row.get("bind", {}).get("calculate")` and
    `….get("jr:count")` only test truthiness / go through `is_pyxform_reference`, which tolerate a dict;
    `ctrl_ap.split()` does not -/
def beginRow (env : Env) (r : TRow) (ct : Ctl) (st : St) : M St := do
  let _ ← dictCell site r "bind"
  let ctrl ← dictCell site r "control"
  rejectIf (ct == .loop && !env.branchOk "loop list" r) "loop list"
  let ap ← subStr site "AttributeError" ctrl "appearance"
  .ok { stack := ct :: st.stack, tableList := tableListAfterBegin st ap }

/-- table-list bookkeeping (xls2json.py 1150-1190): the generated header row, and
    `new_json_dict["control"]["appearance"] = "list-nolabel"` (item assignment: the cell must be a dict) -/
def tableListStep (sh : Sheets) (r : TRow) (ln : Str) (filter : Bool) (st : St) : TL → M St
  | .off => .ok st
  | .pending => do
    rejectIf filter "table-list with choice_filter"
    -- 350c9c2: "The table-list appearance needs a choice list from the choices sheet" (was `choices[list_name]`)
    rejectIf (!sh.choices.contains ln) "table-list without choice list"
    crashIf (!cellIsDict r "control") "TypeError" site
    .ok { st with tableList := .named ln }
  | .named l0 => do
    rejectIf (l0 != ln) "table-list lists differ"
    crashIf (!cellIsDict r "control") "TypeError" site
    .ok st

/-- a select row (xls2json.py 970-1200) -/
def selectRow (env : Env) (sh : Sheets) (r : TRow) (params : Str) (sel ln : Str) (other : Bool) (st : St) : M St := do
  -- `row.get("choice_filter")` is only tested for truthiness
  let filter : Bool := (lookup (k "choice_filter") r).isSome
  let ext : Bool := sel == k "select one external"
  rejectIf (ext && !sh.hasExternal) "no external_choices sheet"
  rejectIf (ext && !sh.external.contains ln) "list not in external choices"
  rejectIf (!env.branchOk "file extension" r) "file extension"
  rejectIf (!sh.choices.contains ln && !ext && !(env.fileExt ln || env.hasRef ln)) "list not in choices"
  -- spaces check: `choices[list_name]` guarded by `list_name in choices` (ffc4d77)
  rejectIf (!env.branchOk "choice names" r) "choice name with space"
  rejectIf (other && filter) "or_other with choice_filter"
  rejectIf (other && !sh.choices.contains ln) "or_other without choices"
  rejectIf (!env.branchOk "select parameters" r) "select parameters"
  -- add_choices_info_to_question (xls2json.py 221-268): `choices[list_name]`
  crashIf (!filter && !(env.randomize params || env.fileExt ln || env.hasRef ln) && !sh.choices.contains ln)
    "KeyError" "xls2json.py:add_choices_info_to_question"
  tableListStep sh r ln filter st st.tableList

/-- 1203-1218 `tags = osm_tags.get(list_name)`; 6eb0107: "List name not in osm sheet" (was `for tag in None`) -/
def osmRow (sh : Sheets) (st : St) : Option (List Str) → Option Str → M St
  | some tags, some ln => do
    rejectIf (!tags.contains ln) "list not in osm sheet"
    .ok st
  | _, _ => .ok st

/-- an ordinary question (xls2json.py 1215-1390) -/
def questionRow (env : Env) (r : TRow) (t params : Str) (st : St) : M St :=
  if t = k "photo" || t = k "image" then do
    -- `row.get("control", {}).get("appearance")` only when the `app` parameter is given
    let _ ← (if env.hasApp params then dictCell site r "control" else .ok [])
    rejectIf (!env.branchOk "photo" r) "photo parameters"
    .ok st
  else if t = k "background-geopoint" then do
    let trg ← strCell "expression.py:is_pyxform_reference" "TypeError" r "trigger"
    rejectIf trg.isNone "background-geopoint trigger"
    rejectIf (!env.branchOk "background-geopoint" r) "background-geopoint"
    .ok st
  else do
    rejectIf (!env.branchOk "question parameters" r) "question parameters"
    .ok st

def nameOk (env : Env) (r : TRow) (t : Str) : Bool :=
  match lookup (k "name") r with
  | some (.str n) => env.xmlTag n
  | some (.dict _) => false          -- `str(dict)` is never an XML tag
  | none => t == k "note"

/-- a row with a valid name that is not an `end` row: save_to, then begin / select / osm / question -/
def namedRow (env : Env) (sh : Sheets) (r : TRow) (t params : Str) (st : St) : M St := do
  rejectIf (!nameOk env r t) "name"
  saveTo env sh r t (st.stack.contains .rep)
  match env.beginCtl t with
  | some ct => beginRow env r ct st
  | none =>
  match env.select t with
  | some (sel, ln, other) => selectRow env sh r params sel ln other st
  | none =>
  match env.osm t with
  | some oln => osmRow sh st sh.osm oln
  | none => questionRow env r t params st

def endRow (ct : Ctl) (st : St) : M St :=
  match st.stack with
  | top :: rest => do
    rejectIf (top != ct) "unmatched end"
    .ok { stack := rest, tableList := .off }
  | [] => .error (.reject "unmatched end")

/-- 752-760 `row.get("bind", {}).get("calculate")` (truthiness), `default_is_dynamic(row.get("default"), …)`
    (false for a dict) -/
def calcCheck (env : Env) (r : TRow) (t : Str) : M Unit :=
  if t = k "calculate" then do
    let bind ← dictCell site r "bind"
    let dyn := match lookup (k "default") r with | some (.str d) => env.dynDefault d t | _ => false
    rejectIf ((lookup (k "calculate") bind).isNone && !dyn) "missing calculation"
  else .ok ()

/-- a row that has a type cell -/
def typedRow (env : Env) (sh : Sheets) (r : TRow) (t : Str) (st : St) : M St := do
  -- 594 `parameters_generic.parse(row.get("parameters", ""))`
  let ps ← strCell "parameters_generic.py:parse" "AttributeError" r "parameters"
  rejectIf (!env.paramsParse (ps.getD [])) "parameters syntax"
  if t = k "audit" then do
    rejectIf (!env.branchOk "audit" r) "audit"
    .ok st
  else do
    calcCheck env r t
    if env.settingsType t then .ok st else
    match env.endCtl t with
    | some ct => endRow ct st
    | none => namedRow env sh r t (ps.getD []) st

def rowBody (env : Env) (sh : Sheets) (r : TRow) (st : St) : M St :=
  if r.isEmpty then .ok st else do
  -- `dealias_types` has already used the type cell as a dict key
  let ty ← strCell "xls2json.py:dealias_types" "TypeError" r "type"
  match ty with
  | none => do
    rejectIf ((lookup (k "name") r).isSome || (lookup (k "label") r).isSome) "no type"
    .ok st
  | some t => typedRow env sh r t st

/-- one row of the loop -/
def rowStep (env : Env) (sh : Sheets) (r : TRow) (st : St) : M St := do
  -- 549-560 `aliases.yes_no.get(row.pop("disabled"))`: the cell is used as a dict key
  let dis ← strCell site "TypeError" r "disabled"
  if (match dis with | some v => env.yes v | none => false) then .ok st
  else rowBody env sh (r.filter fun kv => kv.1 ≠ k "disabled") st

def rowLoop (env : Env) (sh : Sheets) : List TRow → St → M St
  | [], st => pure st
  | r :: rs, st => do
    let st' ← rowStep env sh r st
    rowLoop env sh rs st'

/-- the loop followed by the `len(stack) != 1` check -/
def sheet (env : Env) (sh : Sheets) (rows : List TRow) : M Unit := do
  let st ← rowLoop env sh rows {}
  rejectIf (!st.stack.isEmpty) "unmatched begin"

/-! ## The guard: complements of the open crash classes, as far as the row loop can reach them -/

/-- complement of F14-header-shape on the columns whose *shape* the row loop depends on: string-slot columns
    carry no `::` suffix, `bind` / `control` are grouped, and `control::appearance` / `bind::entities:saveto` are
    plain.  (Other columns — `default::x`, `choice_filter::x`, `calculation::x`, `repeat_count::x` — are only
    tested for truthiness in the loop; they crash later stages, not this one.) -/
def shapeOk (r : TRow) : Bool :=
  cellIsStr r "disabled" && cellIsStr r "type" && cellIsStr r "parameters" && cellIsStr r "trigger" &&
  cellIsDict r "bind" && cellIsDict r "control" &&
  subIsStr r "bind" "entities:saveto" && subIsStr r "control" "appearance"

/-- complement of F13-select-one-external-unlisted (`choices[list_name]` in `add_choices_info_to_question`: no
    choice_filter, not randomized / from file / from a repeat, list not on the choices sheet).  (The table-list
    header lookup and the osm tag loop were two more such lookups — F44, F13-osm-unlisted — until 350c9c2 / 6eb0107
    turned them into located rejections.) -/
def listsOk (env : Env) (sh : Sheets) (r : TRow) : Bool :=
  match lookup (k "type") r with
  | some (.str t) =>
    (match env.select t with
     | some (_, ln, _) =>
       let noFilter := (lookup (k "choice_filter") r).isNone
       let params := match lookup (k "parameters") r with | some (.str p) => p | _ => []
       !(noFilter && !(env.randomize params || env.fileExt ln || env.hasRef ln) && !sh.choices.contains ln)
     | none => true)
  | _ => true

def rowGuard (env : Env) (sh : Sheets) (r : TRow) : Bool :=
  let r' := r.filter fun kv => kv.1 ≠ k "disabled"
  cellIsStr r "disabled" && shapeOk r' && listsOk env sh r'

/-- the guard on a sheet: every row satisfies it (it no longer depends on the loop state) -/
def sheetGuard (env : Env) (sh : Sheets) (rows : List TRow) : Bool := rows.all (rowGuard env sh)

end Pyxv.RowLoop
