import Pyxv.Model.Choices
/-!
# C09 — what the property demands of the in-line items of a `search()` select and of the `query` of a
`select_one_external`

`MultipleChoiceQuestion.build_xml` (question.py, the `search()` branch after 00d5762 / 51586cd) writes one
`<item>` per choice of the select's own list, in sheet order: `<label ref="jr:itext('LIST-i')"/>` when the
list requires itext, else `<label>` with the plain label (empty when the choice has none), and `<value>` with
the choice name.  `InputQuestion.build_xml` writes `query="instance('LIST')/root/item[FILTER]"`.

These are the *specifications*; `Pyxv.Choices.inlineItems` and `Pyxv.Choices.selObs` (the functions the driver op
`choices.model` runs and the check compares with the implementation) are proved equal to them in
`Pyxv.Proofs.C09Inline`.
-/
namespace Pyxv.Choices.Spec
open Pyxv Pyxv.Rows Pyxv.Choices

/-- the plain label text of a choice (`option.label` when it is a string, else nothing) -/
def plainLabel (c : Choice) : Str :=
  match c.label with
  | .plain s => s
  | _ => []

/-- the itext id of choice `i` of list `l` — the same id the static instance would carry as `itextId` -/
def itextIdOf (l : Str) (i : Nat) : Str := l ++ c!"-" ++ natToStr i

/-- in-line item `i` of a `search()` select on list `l`: (label is a `ref`?, label ref / text) and the value -/
def inlineItem (itext : Bool) (l : Str) (i : Nat) (c : Choice) : (Bool × Str) × Str :=
  (if itext then (true, c!"jr:itext('" ++ itextIdOf l i ++ c!"')") else (false, plainLabel c), c.name)

/-- `enumerate(choices)` from `i` -/
def inlineFrom (itext : Bool) (l : Str) : Nat → List Choice → List ((Bool × Str) × Str)
  | _, [] => []
  | i, c :: cs => inlineItem itext l i c :: inlineFrom itext l (i + 1) cs

/-- the `query` attribute of a `select_one_external` on list `ln` with the substituted filter `pred` -/
def externalQuery (ln pred : Str) : Str := c!"instance('" ++ ln ++ c!"')/root/item[" ++ pred ++ c!"]"

end Pyxv.Choices.Spec
