import Pyxv.Model.RowLoop
/-!
# C17: partial operations before and around the row loop — settings merge and header splitting

* `sheet_headers.process_header` (single-colon mode): `tokens[jr_idx + 1]` when the header's first `jr` token is
  its last token (`x:jr`) → `IndexError`.
* `workbook_to_json`'s own reads of the settings row (xls2json.py 356-392, 447, 1412-1440): the yes/no settings are
  used as dict keys (`aliases.yes_no.get(settings.get(k))` → `TypeError: unhashable` for a grouped `k::x`), and
  `json_dict.update(settings)` lets a `children` column replace the list the rows are appended to
  (`AttributeError: 'str' object has no attribute 'append'`).
What the *builder / Survey* do with the other merged keys (`attribute`, `bind`, `name::x`, `_translations`, …) is
outside this model: F22 stays an open finding for those.
-/
namespace Pyxv.PreLoop
open Pyxv Pyxv.RowLoop

def jr : Str := ['j', 'r']

/-- `process_header`, `":"`-delimited branch: `tokens[0:i] + ("jr:" + tokens[i+1],) + tokens[i+2:]` at the first `jr` -/
def jrJoin : List Str → M (List Str)
  | [] => .ok []
  | t :: rest =>
    if t = jr then
      (match rest with
       | [] => .error (.internal "IndexError" "sheet_headers.py:process_header")
       | n :: rest' => .ok ((jr ++ ':' :: n) :: rest'))
    else
      (match jrJoin rest with
       | .ok ts => .ok (t :: ts)
       | .error e => .error e)

/-- header → tokens as `process_header` splits them (`useDouble`: some header of the sheet contains `::`) -/
def headerTokens (useDouble : Bool) (h : Str) : M (List Str) :=
  if useDouble || isInfix [':', ':'] h then .ok (splitDouble h)
  else jrJoin ((splitOnChar ':' h).map strip)
where
  /-- `h.split("::")` -/
  splitDouble (h : Str) : List Str := go h [] []
  go : Str → Str → List Str → List Str
    | [], cur, acc => (acc ++ [strip cur.reverse])
    | ':' :: ':' :: rest, cur, acc => go rest [] (acc ++ [strip cur.reverse])
    | c :: rest, cur, acc => go rest (c :: cur) acc

/-- complement of the `x:jr` shape of F14: the first `jr` token is not the last token -/
def jrOk : List Str → Bool
  | [] => true
  | t :: rest => if t = jr then !rest.isEmpty else jrOk rest

/-! ## settings -/

structure SCtx where
  /-- a choices sheet is present (`allow_choice_duplicates` is read only then) -/
  hasChoices : Bool
  /-- something gets appended to the survey's children: a row of the loop, or the meta block -/
  appends : Bool

/-- `aliases.yes_no.get(settings.get(key, …))`: the cell is a dict key -/
def hashKey (s : TRow) (key : String) : M Unit :=
  match lookup (k key) s with
  | some (.dict _) => .error (.internal "TypeError" "xls2json.py:workbook_to_json")
  | _ => .ok ()

def whenM (b : Bool) (m : M Unit) : M Unit := if b then m else .ok ()

/-- the reads of the settings row in `workbook_to_json`, in source order -/
def settingsOps (s : TRow) (c : SCtx) : M Unit := do
  hashKey s "clean_text_values"
  whenM (lookup (k "add_none_option") s).isSome (hashKey s "add_none_option")
  whenM c.hasChoices (hashKey s "allow_choice_duplicates")
  -- `json_dict.update(settings)`; `stack[0]["parent_children"] = json_dict.get("children")`; `.append(row)`
  crashIf ((lookup (k "children") s).isSome && c.appends) "AttributeError" "xls2json.py:workbook_to_json"
  hashKey s "omit_instanceID"

/-- complement of F22-settings-internal-slot on the keys `workbook_to_json` itself reads -/
def settingsOk (s : TRow) : Bool :=
  cellIsStr s "clean_text_values" && cellIsStr s "add_none_option" && cellIsStr s "allow_choice_duplicates" &&
  cellIsStr s "omit_instanceID" && (lookup (k "children") s).isNone

end Pyxv.PreLoop
