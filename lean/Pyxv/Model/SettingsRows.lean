import Pyxv.Model.SettingsSpec
/-!
# Settings given on the *survey* sheet (legacy): rows whose type is a settings alias

Mirrors `xls2json.workbook_to_json` 771-774: inside the row loop,
`settings_type = aliases.settings_header.get(question_type); if settings_type:
json_dict[settings_type] = str(row.get("name")); continue` — i.e. *after* `json_dict.update(settings)`,
in row order, straight into the root dict (not into `settings`: the meta block, `omit_instanceID`,
`instance_name`, the `title` default and the `sms_keyword` default do not see these rows).
The cells are taken as they are after the survey sheet's `clean_text_values` (C13's subject); a
missing name cell gives the text `None` (`str(None)`).
-/
namespace Pyxv.Settings
open Pyxv

/-- one survey row `(type, name?)` ↦ the root-dict assignment it performs, if its type is a settings alias -/
def surveyRowSetting (p : Str × Option Str) : Option (Str × SVal) :=
  match aliasOf p.1 with
  | some (c :: cs) => some (c :: cs, .s (p.2.getD (S "None")))
  | _ => none

def surveyAssigns (ss : List (Str × Option Str)) : Dict := ss.filterMap surveyRowSetting

/-- the root dict after the row loop -/
def jsonRoot2 (st : Dict) (a : Args) (ss : List (Str × Option Str)) : Dict :=
  aupdate (jsonRoot st a) (surveyAssigns ss)

def headerOf2 (st : Dict) (ss : List (Str × Option Str)) (a : Args) : Header :=
  let sv := surveyOf (jsonRoot2 st a ss)
  { title := sv.title, rootName := sv.name, rootAttrs := rootAttrsOf sv,
    submission := submissionOf sv, bodyClass := sv.style, nsmap := nsmapOf sv,
    instanceID := !omits st, instanceName := instanceNameOf st }

/-- `header` with the survey-sheet settings rows applied -/
def header2 (st : Dict) (ss : List (Str × Option Str)) (a : Args) : M Header :=
  if omits st && truthy (aget (S "public_key") st) then .error (.err .omitWithKey) else
  if (surveyOf (jsonRoot2 st a ss)).idString == S "None" then .error (.err .emptyId) else
  if !Pyxv.Rows.isXmlTag (surveyOf (jsonRoot2 st a ss)).name then
    .error (.err (.badName (surveyOf (jsonRoot2 st a ss)).name)) else
  if nsTricky (surveyOf (jsonRoot2 st a ss)) || headerTricky st (headerOf2 st ss a) then
    .error (.unsupported "namespace prefix `xmlns` / with a colon in `namespaces`, or ${ in instance_name") else
  if !(headerOf2 st ss a).xmlOk then .error (.err .xmlInvalid) else
  .ok (headerOf2 st ss a)

def model2 (sheet : Option (List Str × List (Str × Str))) (ss : List (Str × Option Str)) (a : Args) : M Header :=
  match sheet with
  | none => header2 [] ss a
  | some (hdr, row) =>
    match dealias hdr row with
    | .ok st => header2 st ss a
    | .error e => .error e

/-- the `default_language` slot of the Survey object (xls2json.py 359 + 381: settings sheet, else the
    `default_language` argument, else `default`); it decides which `<translation>` carries
    `default="true()"` (`Pyxv.Itext`, C07 `default_mark`) -/
def defaultLanguageOf (st : Dict) (a : Args) : Str := slotStr (jsonRoot st a) "default_language"

namespace Spec

/-- documented: the settings sheet's `default_language`, else the argument, else `default` -/
def defaultLanguage (σ : Sigma) (a : Args) : Str :=
  match σ (S "default_language") with
  | some x => txt (some x)
  | none => a.defaultLanguage.getD (S "default")

/-- the settings as the header sees them when the survey sheet carries settings rows: the last such
    row for a setting wins over the settings sheet; the *title default* is still the id of the
    settings sheet / file name (it is fixed before the rows are read). -/
def overlay (σ : Sigma) (a : Args) (assigns : Dict) : Sigma := fun k =>
  match agetLast k assigns with
  | some x => some x
  | none =>
    if k = S "title" then
      (match σ k with
       | some x => some x
       | none => some (.s (idString σ a)))
    else σ k

end Spec
end Pyxv.Settings
