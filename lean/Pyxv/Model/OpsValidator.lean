import Pyxv.Model.Json
import Pyxv.Model.Validator
import Pyxv.Model.ExtChoices
import Pyxv.Model.OpsJVal
/-! Driver operations for the C18 model (validator state machine, error cleaner, args logic). -/
namespace Pyxv.Validator
open Lean Pyxv

def optStr (j : Json) (k : String) : Option Str :=
  match j.getObjVal? k with
  | .ok (.str s) => some s.toList
  | _ => none

def strsD (j : Json) (k : String) : List Str :=
  match getStrList j k with
  | .ok l => l
  | .error _ => []

def formOfJson (j : Json) : Except String Form := do
  let k ← getStr j "k"
  match String.ofList k with
  | "early" => pure (.early (getStrD j "msg" ""))
  | "late" => pure (.late (getStrD j "msg" ""))
  | "unencodable" => pure (.unencodable (getStrD j "msg" ""))
  | "diskfault" => pure (.diskFault (getStrD j "msg" ""))
  | "ok" => pure (.ok (getStrD j "ugly" "") (getStrD j "pretty" "") (optStr j "itemsets") (strsD j "preW") (strsD j "postW"))
  | o => throw s!"form kind {o}"

def envOfJson (j : Json) : Except String Env := do
  if getBoolD j "absent" false then pure .javaAbsent else
  let rc ← (← j.getObjVal? "rc").getInt?
  pure (.ran ⟨rc, getBoolD j "timeout" false, getStrD j "stderr" ""⟩)

def fsOfJson (j : Json) : Except String FS := do
  match j.getObjVal? "fs" with
  | .ok (.arr a) =>
    a.toList.mapM fun e => do
      let l ← strList e
      match l with
      | [d, n, c] => pure (Path.file d n, c)
      | _ => throw "fs entry"
  | _ => pure []

def jopt (o : Option Str) : Json := match o with | some s => jstr s | none => Json.null
def jstrs (l : List Str) : Json := Json.arr (l.map jstr).toArray

def logToJson : LogRec → Json
  | .info m => Json.arr #[Json.str "INFO", jstr m, Json.null]
  | .warning m => Json.arr #[Json.str "WARNING", jstr m, Json.null]
  | .exception m c => Json.arr #[Json.str "ERROR", jstr m, Json.str c]

def fsToJson (fs : FS) : List (String × Json) :=
  [("tmp", Json.arr ((FS.temps fs).map fun e => match e.1 with
      | .tmp n => Json.str s!"tmp{n}" | .file d n => jstr (pathStr d n)).toArray),
   ("files", Json.mkObj ((FS.files fs).map fun e => match e.1 with
      | .tmp n => (s!"tmp{n}", jstr e.2) | .file d n => (String.ofList (pathStr d n), jstr e.2)))]

def excToJson (e : Option Exc) : List (String × Json) :=
  match e with
  | some x => [("raised", Json.str x.cls), ("msg", jstr x.msg)]
  | none => [("raised", Json.null), ("msg", Json.null)]

def argsOfJson (j : Json) : Args :=
  { json := getBoolD j "json" false, skipValidate := !(getBoolD j "skip" false),
    odkValidate := getBoolD j "odk" false, enketoValidate := getBoolD j "enketo" false,
    prettyPrint := getBoolD j "pretty" false }

def opsValidator (op : String) (j : Json) : Option (Except String Json) :=
  match op with
  | "c18.clean" => some do
      let m ← getStr j "msg"
      pure (Json.mkObj [("out", jstr (odkValidate m)), ("sub", jstr (subPaths m)),
        ("lines", jstrs (cleanupErrors m)), ("noisy_out", Json.bool ((cleanLines m).any isNoisy))])
  | "c18.check" => some do
      let env ← envOfJson j
      match checkXform env with
      | .ok w => pure (Json.mkObj [("raised", Json.null), ("warnings", jstrs w)])
      | .error e => pure (Json.mkObj (excToJson (some e)))
  | "c18.args" => some do
      let a := validatorArgsLogic (argsOfJson j)
      pure (Json.mkObj [("skip_validate", a.skipValidate), ("odk", a.odkValidate), ("enketo", a.enketoValidate)])
  | "c18.hasext" => some do
      let v ← JV.ofWire (← j.getObjVal? "v")
      pure (Json.bool (hasExt v))
  | "c18.xmlpath" => some do
      pure (jstr (getXmlName (← getStr j "name")))
  | "c18.run" => some do
      let form ← formOfJson (← j.getObjVal? "form")
      let env ← envOfJson (← j.getObjVal? "env")
      let fs ← fsOfJson j
      let t := getNatD j "t" 0
      let kind ← getStr j "kind"
      if String.ofList kind == "lib" then
        let r := convert form t (getBoolD j "validate" false) (getBoolD j "pretty" false) env fs
        let (exc, ret) := match r.res with
          | .ok cr => (none, Json.mkObj [("xform", jstr cr.xform), ("warnings", jstrs cr.warnings), ("itemsets", jopt cr.itemsets)])
          | .error e => (some e, Json.null)
        pure (Json.mkObj ([("supported", Json.bool true), ("ret", ret), ("json", Json.null), ("logs", Json.arr #[]),
          ("seen", jstrs r.seen)] ++ excToJson exc ++ fsToJson r.fs))
      else
        let args := argsOfJson (← j.getObjVal? "args")
        let out : Option (Str × Str) := match j.getObjVal? "out" with
          | .ok o => match strList o with
            | .ok [d, n] => some (d, n)
            | _ => none
          | _ => none
        match mainCli args (getStrD j "inDir" "") (getStrD j "inName" "") out form t env fs with
        | none => pure (Json.mkObj [("supported", Json.bool false)])
        | some r =>
          let js := match r.json with
            | some x => Json.mkObj [("code", x.code), ("message", jstr x.message), ("warnings", jstrs x.warnings)]
            | none => Json.null
          pure (Json.mkObj ([("supported", Json.bool true), ("ret", Json.null), ("json", js),
            ("logs", Json.arr (r.logs.map logToJson).toArray), ("seen", jstrs r.seen)]
            ++ excToJson r.raised ++ fsToJson r.fs))
  | _ => none

end Pyxv.Validator
