import Pyxv.Model.Binds
import Pyxv.Model.RefsText
/-!
# Binds ∘ Refs: `${name}` in a logic cell to a question anywhere in the form

`Pyxv.Binds.subst` answers only for references to direct children of the survey.  Here the
substitution of `xml_bindings` (`survey.insert_xpaths(v, context=self)`, survey_element.py 582) is
C03's model of that very function: `Pyxv.Refs.insertXpathsText els (some ctx) false false`, where
`els` are the chains (names + kinds) of all elements of the form in `iter_descendants` order and
`ctx` is the chain of the row's own node.  The chains are built by the same begin/end stack as
`Pyxv.Binds.walk` (`walkC`; `walkC_erase` proves that forgetting the kinds gives `walk`).

Guards kept (the model answers `unsupported`): everything `bindsOfRows` guards (names unique, …),
`${last-saved#…}` occurrences, an unclosed `${`, a reference to an unknown name.
-/
namespace Pyxv.Binds
open Pyxv

def kindOf (rep : Bool) : Refs.Kind := if rep then .rep else .group

/-- chain of the section on top of the begin/end stack -/
def stChain (root : Str) (st : List (Str × Bool)) : Refs.Chain :=
  (root, Refs.Kind.group) :: (st.map fun nr => (nr.1, kindOf nr.2)).reverse

/-- an element with its chain (path + kinds of all ancestors and of itself) -/
structure ElemC where
  chain : Refs.Chain
  q : Q
deriving Repr, Inhabited

def mkElemC (root : Str) (st : List (Str × Bool)) (kind : Refs.Kind) (q : Q) : ElemC :=
  { chain := stChain root st ++ [(q.name, kind)], q }

def ElemC.erase (e : ElemC) : Elem := { path := e.chain.path, q := e.q }

/-- `walk` with kinds -/
def walkC (root : Str) : List (Str × Bool) → List RK → Option (List ElemC)
  | st, [] => if st.isEmpty then some [] else none
  | st, .skip :: rs => walkC root st rs
  | st, .qs l :: rs => (walkC root st rs).map (l.map (mkElemC root st .q) ++ ·)
  | st, .begin_ rep pre q :: rs =>
    (walkC root ((q.name, rep) :: st) rs).map
      ((pre.map (mkElemC root st .q) ++ [mkElemC root st (kindOf rep) q]) ++ ·)
  | [], .end_ _ :: _ => none
  | (_, rep') :: st, .end_ rep :: rs => if rep = rep' then walkC root st rs else none
  | _, .unsupported _ :: _ => none

def metaChain (root : Str) : Refs.Chain := [(root, .group), ("meta".toList, .group)]

def metaElemC (root : Str) (q : Q) : ElemC := { chain := metaChain root ++ [(q.name, .q)], q }

def instanceIDC (root : Str) : ElemC := { chain := metaChain root ++ [("instanceID".toList, .q)], q := (instanceID root).q }

/-- all elements of the survey in `iter_descendants` order: the survey, the rows' elements, the meta group
and its children -/
def allChains (root : Str) (es : List ElemC) (metas : List Q) : List Refs.Chain :=
  [(root, Refs.Kind.group)] :: (es.map (·.chain) ++
    (metaChain root :: ((metas.map (metaElemC root)).map (·.chain) ++ [(instanceIDC root).chain])))

/-- the occurrences are all closed and none is `${last-saved#…}` -/
def plainRefs (s : Str) : Bool :=
  Refs.refsClosed (s.length + 1) s && (Refs.findRefs (s.length + 1) s).all fun p => !p.1

/-- the substitution `xml_bindings` applies to a value of the element with chain `ctx` -/
def substR (els : List Refs.Chain) (ctx : Refs.Chain) (s : Str) : Option Str :=
  if plainRefs s then Refs.insertXpathsText els (some ctx) false false s else none

/-- `attrsOf` with the substitution as a parameter -/
def attrsOfG (sub : Str → Option Str) (path : Str) (trigger : Bool) : BindDict → Option (List (Str × Str))
  | [] => some []
  | (k, v) :: rest =>
    if trigger && k = calcKey then attrsOfG sub path trigger rest
    else
    match convVal path k v with
    | none => none
    | some s =>
      match sub s with
      | none => none
      | some s' => (attrsOfG sub path trigger rest).map ((k, s') :: ·)

def attrsOfR (els : List Refs.Chain) (c : Refs.Chain) (trigger : Bool) (b : BindDict) : Option (List (Str × Str)) :=
  attrsOfG (substR els c) (Form.xpathStr c.path) trigger b

/-- `xml_bindings` of one element: `some none` = no bind element -/
def xmlBindR (els : List Refs.Chain) (e : ElemC) : Option (Option Bind) :=
  match elemBind e.q with
  | none => some none
  | some b =>
    if (lookup "nodeset".toList b).isSome then none
    else (attrsOfR els e.chain e.q.trigger b).map fun a => some { path := e.chain.path, attrs := a }

def renderAllR (els : List Refs.Chain) : List ElemC → Option (List Bind)
  | [] => some []
  | e :: es =>
    match xmlBindR els e with
    | none => none
    | some ob =>
      match renderAllR els es with
      | none => none
      | some bs => some (match ob with | some b => b :: bs | none => bs)

/-- `bindsOfRows` with C03's reference substitution -/
def bindsOfRowsR (root : Str) (ks : List RK) (metas : List Q) (extra : List Str := []) : Out :=
  let names := (allNames ks metas).map lowerAscii
  if !(decide names.Nodup) || names.any (reservedNames root).contains then .unsupported "names not unique" else
  if emptySection false ks then .unsupported "empty group" else
  if !triggersOK (visibleTops 0 ks) ks then .unsupported "trigger target" else
  match walkC root [] ks with
  | none => .unsupported "unbalanced begin/end"
  | some es =>
    match renderAllR (allChains root es metas) (es ++ (metas.map (metaElemC root) ++ [instanceIDC root])) with
    | none => .unsupported "reference or value outside the fragment"
    | some bs =>
      if bs.all (fun b => bindValid b extra) then .ok bs
      else .unsupported "attribute name or character not allowed in XML"

/-- `formBinds` with C03's reference substitution -/
def formBindsR (root dl : Str) (lists : List Str) (headers : List Str) (rows : List (List (Str × Str))) : Out :=
  if !(headers.all isAscii) then .unsupported "non-ASCII header" else
  match headerKey headers with
  | .error (.dup a b) => .dupHeader a b
  | .error (.unsupported w) => .unsupported w
  | .ok key =>
    if !(key.any fun kt => kt.2.head? = some "type".toList) then .unsupported "no type column" else
    match processRows dl key lists 2 .off rows with
    | .error w => .unsupported w
    | .ok ks =>
      match metaOfRows dl key rows with
      | .error w => .unsupported w
      | .ok metas => bindsOfRowsR root ks metas

namespace Spec

/-- the attribute value the property prescribes for key `k` of the element with chain `c`: converted, then
reference-substituted by C03's `insert_xpaths` from the row's own node -/
def valueR (els : List Refs.Chain) (c : Refs.Chain) (k : Str) (v : BVal) : Option Str :=
  (convVal (Form.xpathStr c.path) k v).bind (substR els c)

/-- `Spec.expected` with the value function as a parameter -/
def expectedG (val : Str → BVal → Option Str) (tt : List (Str × Str)) (logic : BindDict) (trigger : Bool) :
    Option (List (Str × Str)) :=
  let keys := dedup (tt.map (·.1) ++ logic.map (·.1))
  keys.foldr (fun k acc =>
    match acc with
    | none => none
    | some l =>
      match source tt logic trigger k with
      | none => some l
      | some v =>
        match val k v with
        | none => none
        | some s => some ((k, s) :: l)) (some [])

/-- expected attribute map of the node with chain `c` (the property's reading, references substituted by C03's model) -/
def expectedR (els : List Refs.Chain) (c : Refs.Chain) (tt : List (Str × Str)) (logic : BindDict) (trigger : Bool) :
    Option (List (Str × Str)) :=
  expectedG (valueR els c) tt logic trigger

end Spec

end Pyxv.Binds
