import Pyxv.Model.FromJson
/-!
# FromJsonChoices: the builder's reading of a survey dict that carries a survey-level `choices` object

Extends `fromJson` (FromJson.lean) by `Survey.__init__`'s treatment of the `choices` keyword (survey.py:280-285):
`choices = kwargs.pop("choices", None)`; a non-empty dict becomes `{list_name: Itemset(name=list_name,
choices=values)}`, and `Itemset.get_options` builds `Option(**c)` for every entry (question.py:340-365).
`Option(**c)` reads the constructor's named parameters (`ctor`; the driver op receives them from
`inspect.signature` of the source under test, the theorems use `C16.optionCtor`) into slots and puts every other
key into `extra_data` (`reloadOption`).

Fragment (anything else is `none` = unsupported): the dict is a survey dict; `choices` is a non-empty object whose
values are arrays of objects; every option object has distinct keys (always true of a Python dict) and a truthy
`name` (`Option.__init__` requires `name`; a falsy one is dropped by the dump and the next load raises); the rest
of the dict (without `choices`) lies in `fromJson`'s fragment — in particular select questions refer to their list
by `itemset` / `list_name` and do not carry their options (`children`/`choices` on a question stays unsupported:
`_create_question_from_dict` then hands the survey-level Itemset to the question).  A select without `children` in
a survey with `choices` is built exactly as without (`d_choices` is `None`, builder.py:147-160).
-/
namespace Pyxv.ToJson
open Pyxv Pyxv.JV

/-- the dict without its `choices` key (`kwargs.pop("choices", None)`) -/
def stripChoices (kvs : Dict) : Dict := kvs.filter fun kv => kv.1 != k!"choices"

/-- `Option(**c)` for one entry of a dumped choice list -/
def optFromJson (ctor : List Str) : J → Option Opt
  | .obj d =>
    if decide (d.map Prod.fst).Nodup && isTruthyAt k!"name" d then some (reloadOption ctor d) else none
  | _ => none

/-- `Itemset(name=list_name, choices=values)` -/
def listFromJson (ctor : List Str) (p : Str × J) : Option (Str × List Opt) :=
  match p.2 with
  | .arr os =>
    match mapOpt (optFromJson ctor) os with
    | some l => some (p.1, l)
    | none => none
  | _ => none

/-- the survey element with its `choices` attribute set -/
def withChoices (ch : List (Str × List Opt)) : El → El
  | .mk cls slots qk kw sc kids opts _ => .mk cls slots qk kw sc kids opts ch

/-- `create_survey_element_from_dict(d)` on `fromJson`'s fragment extended by survey-level `choices`. -/
def fromJsonC (cfg : Cfg) (ctor : List Str) (f : Nat) : J → Option El
  | .obj kvs =>
    match lookup k!"choices" kvs with
    | none => fromJson cfg f (.obj kvs)
    | some (.obj cj) =>
      if cj.isEmpty then none
      else
        match lookup k!"type" (stripChoices kvs) with
        | some (.str t) =>
          if t = k!"survey" then
            match mapOpt (listFromJson ctor) cj with
            | none => none
            | some ch =>
              match fromJson cfg f (.obj (stripChoices kvs)) with
              | none => none
              | some e => some (withChoices ch e)
          else none
        | _ => none
    | some _ => none
  | _ => none

end Pyxv.ToJson
