import Pyxv.Model.RefsSites
import Pyxv.Model.OpsRefs
/-!
# Driver ops for `Pyxv.Refs.cellFlags` (C03: context and flags per cell kind)
-/
namespace Pyxv.Refs
open Pyxv Lean

def cellFlagsJson (cell : String) : Json :=
  let f := cellFlags cell
  Json.mkObj [("cell", cell),
              ("ctx", match f.ctx with | .owner => "owner" | .survey => "survey"),
              ("uc", Json.bool f.useCurrent), ("rp", Json.bool f.referenceParent),
              ("sites", Json.arr ((cellSites cell).map fun (a, b, c, d, e) =>
                Json.arr #[(a : Json), (b : Json), (c : Json), (d : Json), (e : Json)]).toArray)]

def opsRefsSites (op : String) (j : Json) : Option (Except String Json) :=
  match op with
  | "refs.cellflags" => some do
      -- the model's table: context and flags of `insert_xpaths` for each cell kind
      let cells ← getStrList j "cells"
      pure (Json.arr (cells.map fun c => cellFlagsJson (String.ofList c)).toArray)
  | "refs.insertcell" => some do
      -- `insert_xpaths` of a cell: the context and the flags are chosen by the model from the cell kind
      let tree ← elOfJson (← j.getObjVal? "tree")
      let els := tree.chains []
      let items ← getArr j "items"
      let out ← items.toList.mapM fun q => do
        let text ← getStr q "text"
        let cell ← getStr q "cell"
        let owner ← getStr q "owner"
        match findByXpath els owner with
        | none => throw s!"no element at {String.ofList owner}"
        | some o =>
          pure (match insertXpathsCell els o (String.ofList cell) text with
            | some t => Json.mkObj [("out", "ok"), ("text", jstr t)]
            | none => Json.mkObj [("out", "none")])
      pure (Json.arr out.toArray)
  | _ => none

end Pyxv.Refs
