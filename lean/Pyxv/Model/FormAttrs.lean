import Pyxv.Model.FormFlatInst
/-!
# C02: user-supplied `body::ref`, `body::nodeset`, `bind::nodeset`, `action::ref` columns

The attribute dicts of an element are filled from the `bind::x` / `control::x` (`body::x`) / `action::x` cells of its row.
The generators set the reference attribute themselves and (after f98d556, 00e7042, ce2cfa5) treat a user cell for it so:

* `SurveyElement.xml_bindings` (survey_element.py 589-596): `node("bind", nodeset=get_xpath())`, then every item of the
  bind dict by `setAttribute`, a key `nodeset` → "Invalid bind attribute …".  A flat group has no bind.
* `Question._build_xml` (question.py 220-236): `node(tag, ref=get_xpath())`, then every item of the control dict but
  `tag` by `setAttribute`, a key `ref` → "Invalid body attribute …".  `nodeset` passes through as an extra attribute
  (a reference only on `<repeat>`).  A question without control never reads its control dict.
* `Question.xml_action` (question.py 186-200): `node(name, ref=get_xpath())`, items but `name`, a key `ref` → error.
* `GroupedSection.xml_control` (section.py 277-299): the dict, `ref` popped, then `ref = get_xpath()` unless flat.
* `RepeatingSection.xml_control` (section.py 208-221): `nodeset`, then `ref`, in the dict → error; else
  `node("repeat", nodeset=get_xpath(), **dict)` inside the wrapper `<group ref=get_xpath()>`.

`emit*` below are these five attribute lists; `rowEmit` runs them on the cells of one classified row; `formOutAttrs` is
`FormFlat.formOutFlat` on the sheet without these cells, guarded by `rowEmit` succeeding on every row.
-/
namespace Pyxv.FormAttrs
open Pyxv Pyxv.Form Pyxv.Rows Pyxv.FormFlat

abbrev Attrs := List (Str × Str)

/-- `Element.setAttribute`: overwrite the value of an attribute that is there, else append -/
def setAttr : Attrs → Str → Str → Attrs
  | [], k, v => [(k, v)]
  | (k', v') :: rest, k, v => if k' = k then (k, v) :: rest else (k', v') :: setAttr rest k v

inductive Err where
  | bind (attr : Str)
  | body (attr : Str)
  | action (attr : Str)
deriving DecidableEq, Repr

/-- the loop shared by `xml_bindings`, `_build_xml`, `xml_action`: items of the dict in order; the key that pyxform sets
    raises, the key `skip` (`tag` / `name`) is not an attribute, every other item is `setAttribute` -/
def emitGuarded (key skip : Str) (mk : Str → Err) : Attrs → Attrs → Except Err Attrs
  | acc, [] => .ok acc
  | acc, (k, v) :: rest =>
    if k = key then .error (mk k)
    else if k = skip then emitGuarded key skip mk acc rest
    else emitGuarded key skip mk (setAttr acc k v) rest

def emitBind (path : Str) (user : Attrs) : Except Err Attrs :=
  emitGuarded "nodeset".toList [] .bind [("nodeset".toList, path)] user

def emitQuestionCtl (path : Str) (user : Attrs) : Except Err Attrs :=
  emitGuarded "ref".toList "tag".toList .body [("ref".toList, path)] user

def emitAction (path : Str) (user : Attrs) : Except Err Attrs :=
  emitGuarded "ref".toList "name".toList .action [("ref".toList, path)] user

/-- `attributes.pop("ref")`, then `attributes["ref"] = get_xpath()` unless flat -/
def emitGroup (flat : Bool) (path : Str) (user : Attrs) : Attrs :=
  let a := user.filter fun kv => kv.1 ≠ "ref".toList
  if flat then a else a ++ [("ref".toList, path)]

def hasKey (a : Attrs) (k : Str) : Bool := a.any fun kv => kv.1 = k

def emitRepeat (path : Str) (user : Attrs) : Except Err Attrs :=
  if hasKey user "nodeset".toList then .error (.body "nodeset".toList)
  else if hasKey user "ref".toList then .error (.body "ref".toList)
  else .ok (("nodeset".toList, path) :: user)

/-- the only attribute called `key` is the generated path -/
def onlyGenerated (key path : Str) (a : Attrs) : Prop := a.filter (fun kv => kv.1 = key) = [(key, path)]

def noKey (key : Str) (a : Attrs) : Prop := a.filter (fun kv => kv.1 = key) = []

/-! ## One row -/

/-- the `pfx::x` cells of a row, as the dict `{x: value}` -/
def sub (pfx : String) (r : Cells) : Attrs :=
  r.filterMap fun kv =>
    if startsWith kv.1 (pfx ++ "::").toList then some (kv.1.drop (pfx.length + 2), kv.2) else none

/-- the question type has an `action` dict in the type table (`background-audio`, `start-geopoint`, …) -/
def typeAction (r : Cells) : Bool :=
  match get r "type" with
  | some t => (match typeEntry t with | some e => entryHas e "action" | none => false)
  | none => false

/-- what one row's element contributes with a reference attribute: its bind, its body elements (a repeat has two: the
    wrapper group and the repeat), its action -/
structure RowAttrs where
  bind : Option Attrs := none
  /-- body elements: `(reference attribute name, attributes)` -/
  ctl : List (Str × Attrs) := []
  action : Option Attrs := none
deriving Repr

/-- an element that exists only under a condition (`if self.action`, a question type with a control) -/
def optEmit (c : Bool) (e : Except Err Attrs) : Except Err (Option Attrs) :=
  if c then (match e with | .ok a => .ok (some a) | .error x => .error x) else .ok none

def rowEmit (path : Str) (r : Cells) (fl : Bool) : RowK → Except Err RowAttrs
  | .q d _ =>
    match emitBind path (sub "bind" r) with
    | .error e => .error e
    | .ok b =>
      match optEmit (typeAction r) (emitAction path (sub "action" r)) with
      | .error e => .error e
      | .ok a =>
        match optEmit d.control (emitQuestionCtl path (sub "control" r)) with
        | .error e => .error e
        | .ok c => .ok { bind := some b, ctl := (c.map fun x => ("ref".toList, x)).toList, action := a }
  | .begin_ ct _ _ _ =>
    if ct = .rep then
      match emitBind path (sub "bind" r) with
      | .error e => .error e
      | .ok b =>
        match emitRepeat path (sub "control" r) with
        | .error e => .error e
        | .ok c => .ok { bind := some b, ctl := [("ref".toList, [("ref".toList, path)]), ("nodeset".toList, c)] }
    else if fl then .ok { ctl := [("ref".toList, emitGroup true path (sub "control" r))] }
    else
      match emitBind path (sub "bind" r) with
      | .error e => .error e
      | .ok b => .ok { bind := some b, ctl := [("ref".toList, emitGroup false path (sub "control" r))] }
  | _ => .ok {}

/-- the decision alone (the generated path plays no part in it) -/
def rowCheck (r : Cells) (fl : Bool) (k : RowK) : Option Err :=
  match rowEmit [] r fl k with
  | .ok _ => none
  | .error e => some e

/-! ## The sheet -/

def isAttrCell (k : Str) : Bool :=
  k = "control::ref".toList || k = "control::nodeset".toList || k = "bind::nodeset".toList || k = "action::ref".toList

def dropAttrs (r : Cells) : Cells := r.filter fun kv => !isAttrCell kv.1

def checkRows : List Cells → List (Nat × Bool × RowK) → Option (Nat × Err)
  | r :: rs, (n, fl, k) :: ks =>
    (match rowCheck r fl k with
     | some e => some (n, e)
     | none => checkRows rs ks)
  | _, _ => none

/-- `action::x` on a question whose type has no action: the action dict lacks `name` (a crash of the pinned code,
    outside this model) -/
def strayAction : List Cells → List (Nat × RowK) → Bool
  | r :: rs, (_, .q _ _) :: ks => (!(sub "action" r).isEmpty && !typeAction r) || strayAction rs ks
  | _ :: rs, _ :: ks => strayAction rs ks
  | _, _ => false

inductive AErr where
  | unsupported (why : String)
  | form (e : FormErr)
  | attr (row : Nat) (e : Err)
deriving Repr

/-- the flat-aware structural pipeline on a sheet that may carry the four reserved columns -/
def formOutAttrs (root : Str) (lists : List Str) (rows : List Cells) (settings : Cells) : Except AErr FlatOut :=
  let rows0 := rows.map dropAttrs
  match formOutFlat root lists rows0 settings with
  | .error e => .error (.form e)
  | .ok o =>
    match classifyAll lists 2 (rows0.map dropFlat) with
    | .error w => .error (.unsupported w)
    | .ok ks =>
      if strayAction rows ks then .error (.unsupported "action column on a type without action") else
      match checkRows rows (flagRows rows0 ks) with
      | some (n, e) => .error (.attr n e)
      | none => .ok (walkOut root rows0 settings o)

/-! ## Driver op -/
open Lean in
def errJ : Err → Json
  | .bind a => Json.mkObj [("dict", "bind"), ("attr", jstr a)]
  | .body a => Json.mkObj [("dict", "body"), ("attr", jstr a)]
  | .action a => Json.mkObj [("dict", "action"), ("attr", jstr a)]

/-- every row whose element is not emitted (reporting only: the implementation raises for the first one in its own
    generation order — binds, then actions, then the body) -/
def allOffenders : List Cells → List (Nat × Bool × RowK) → List (Nat × Err)
  | r :: rs, (n, fl, k) :: ks =>
    (match rowCheck r fl k with | some e => [(n, e)] | none => []) ++ allOffenders rs ks
  | _, _ => []

def rowName (rows : List Cells) (n : Nat) : Str :=
  match rows[n - 2]? with
  | some r => (get r "name").getD []
  | none => []

open Lean in
def attrsModel (root : Str) (lists : List Str) (rows : List Cells) (settings : Cells) : Json :=
  let pj (ps : List (List Str)) : Json := Json.arr (ps.map fun p => jstr (xpathStr p)).toArray
  match formOutAttrs root lists rows settings with
  | .error (.unsupported w) => Json.mkObj [("outcome", "unsupported"), ("why", Json.str w)]
  | .error (.form (.unsupported w)) => Json.mkObj [("outcome", "unsupported"), ("why", Json.str w)]
  | .error (.form (.err e)) => Json.mkObj [("outcome", "error"), ("err", Json.str (reprStr e))]
  | .error (.form (.unknownType n)) => Json.mkObj [("outcome", "error"), ("err", Json.str s!"unknownType {n}")]
  | .error (.attr n e) =>
    let rows0 := rows.map dropAttrs
    let offs := match classifyAll lists 2 (rows0.map dropFlat) with
      | .ok ks => allOffenders rows (flagRows rows0 ks)
      | .error _ => []
    Json.mkObj [("outcome", "attr"), ("row", Json.num n), ("name", jstr (rowName rows n)), ("err", errJ e),
      ("offenders", Json.arr (offs.map fun ne => Json.mkObj [("name", jstr (rowName rows ne.1)), ("err", errJ ne.2)]).toArray)]
  | .ok o =>
    Json.mkObj [("outcome", "ok"), ("instance", ntJ o.inst), ("binds", pj o.binds), ("body", pj o.body),
      ("closed", Json.bool ((o.binds ++ o.body).all (resolves o.inst)))]

open Lean in
def attrsJ (a : Attrs) : Json := Json.arr (a.map fun kv => Json.arr #[jstr kv.1, jstr kv.2]).toArray

open Lean in
/-- the attribute lists of one row, for the comparison with the element's attributes in the implementation's output -/
def rowAttrsJ (path : Str) (lists : List Str) (r : Cells) : Json :=
  let r0 := dropFlat r
  match classify lists 2 (dropAttrs r0) with
  | .unsupported w => Json.mkObj [("outcome", "unsupported"), ("why", Json.str w)]
  | .row k =>
    match rowEmit path r (flatCell r) k with
    | .error e => Json.mkObj [("outcome", "attr"), ("err", errJ e)]
    | .ok a =>
      Json.mkObj [("outcome", "ok"),
        ("bind", match a.bind with | some b => attrsJ b | none => Json.null),
        ("ctl", Json.arr (a.ctl.map fun c => attrsJ c.2).toArray),
        ("action", match a.action with | some b => attrsJ b | none => Json.null)]

open Lean in
def opsAttrs (op : String) (j : Json) : Option (Except String Json) :=
  match op with
  | "attrs.model" => some do
      let rows ← (← getArr j "rows").toList.mapM pairList
      let lists ← getStrList j "lists"
      let settings ← pairList (← j.getObjVal? "settings")
      pure (attrsModel (getStrD j "root" "data") lists rows settings)
  | "attrs.row" => some do
      let row ← pairList (← j.getObjVal? "row")
      let lists ← getStrList j "lists"
      pure (rowAttrsJ (getStrD j "path" "") lists row)
  | _ => none

end Pyxv.FormAttrs
