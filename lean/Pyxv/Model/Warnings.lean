import Pyxv.Model.Rows
import Pyxv.Generated.Tables
/-!
# Warnings: the advisory-warning mechanisms of pyxform (property C20)

Executable mirror of

* `utils.levenshtein_distance` (utils.py 254-299): the two-row dynamic programme;
* `validators/pyxform/sheet_misspellings.find_sheet_misspellings` (7-34);
* `parsing/sheet_headers.process_header` / `dealias_and_group_headers` (header ↦ token tuple), the
  `::`-delimited and colon-free fragment;
* `validators/pyxform/translations_checks.Translations` / `SheetTranslations` (63-165);
* `validators/pyxform/iana_subtags/validation.get_languages_with_bad_tags` (17-41), subtag membership
  being a parameter (the two subtag files are read at run time by the harness);
* `validators/pyxform/choices.validate_headers` / `validate_choice_list` (warning part);
* the warning sites of `xls2json.workbook_to_json`: duplicate `form_id`/`id_string` headers (317-337),
  sheet misspellings for `settings` / `entities` (352-354, 468-470), the `disabled` column (552-560),
  skipped comment rows (570-580), deprecated metadata types (761-768), unlabeled group / repeat
  (841-862), `select_one_external` without `choice_filter` (961-968), image without `max-pixels`
  (1240-1259), `or_other` + translations (`or_other_check`).

The warnings list is threaded through exactly as the code threads its `warnings` argument (only ever
appended to).  `Spec` (end of file) holds the *trigger predicates* — the separate, declarative
statement of when each warning is due; `Pyxv.Proofs.C20` relates the two.

Outside the fragment (answered `unsupported`): headers that need the single-colon delimiter, headers
containing a non-ASCII character whose `str.lower()` is ASCII (U+212A, U+0130), `loop` sections,
`default` on a `begin` row (needs the expression lexer), a grouped `type::x` / `disabled::x` /
`parameters::x` header (known crash class F14), non-ASCII sheet names (`str.lower()`).
-/
namespace Pyxv.Warn
open Pyxv

/-! ## 1. `levenshtein_distance` -/

/-- Python `min((a, b, c))` -/
def min3 (a b c : Nat) : Nat := min a (min b c)

/-- the inner `for j in range(n)` loop for the character `c = a[i]`: `b` from position `j`, `v0` from
    position `j`, `left = v1[j]`; returns `v1[j+1:]` -/
def rowGo (c : Char) : Str → List Nat → Nat → List Nat
  | bj :: bs, d :: u :: vs, left =>
    let x := min3 (u + 1) (left + 1) (if c = bj then d else d + 1)
    x :: rowGo c bs (u :: vs) x
  | _, _, _ => []

/-- one iteration of the outer loop: `v1[0] = i + 1`, then the inner loop -/
def nextRow (c : Char) (b : Str) (v0 : List Nat) (i1 : Nat) : List Nat := i1 :: rowGo c b v0 i1

/-- the outer `for i in range(m)` loop: remaining characters of `a`, current `v0`, `i` -/
def levRows (b : Str) : Str → List Nat → Nat → List Nat
  | [], v0, _ => v0
  | c :: cs, v0, i => levRows b cs (nextRow c b v0 (i + 1)) (i + 1)

/-- `utils.levenshtein_distance(a, b)`: `v0 = list(range(n + 1))`, m row updates, `v0[n]` -/
def levenshtein (a b : Str) : Nat := ((levRows b a (List.range (b.length + 1)) 0)[b.length]?).getD 0

/-! ## 2. `find_sheet_misspellings` -/

def supported : List Str := Pyxv.Gen.supportedSheetNames.map String.toList

/-- the candidate tuple of `find_sheet_misspellings(key, keys)`; `lower` stands for `str.lower` -/
def misspellCands (lower : Str → Str) (sup : List Str) (key : Str) (keys : List Str) : List Str :=
  keys.filter fun k => decide (levenshtein (lower k) key ≤ 2) && !sup.contains (lower k) && !startsWith k ['_']

/-- `find_sheet_misspellings`: `None` when there is no candidate (or no sheet name at all) -/
def findSheetMisspellings (lower : Str → Str) (sup : List Str) (key : Str) (keys : List Str) : Option (List Str) :=
  match misspellCands lower sup key keys with
  | [] => none
  | c :: cs => some (c :: cs)

/-! ## 3. headers: `to_snake_case`, `process_header` -/

/-- Python `s.split()` (whitespace runs, no empty fields) -/
def pySplitWs : Str → Str → List Str
  | acc, [] => if acc.isEmpty then [] else [acc.reverse]
  | acc, c :: r =>
    if pyIsSpace c then (if acc.isEmpty then pySplitWs [] r else acc.reverse :: pySplitWs [] r)
    else pySplitWs (c :: acc) r

/-- `to_snake_case`: `"_".join(value.split()).lower()` (ASCII lower; see `lowerSafe`) -/
def toSnake (s : Str) : Str := lowerAscii (joinWith ['_'] (pySplitWs [] s))

/-- Python `s.split("::")` -/
def splitDC : Str → Str → List Str
  | acc, [] => [acc.reverse]
  | acc, ':' :: ':' :: r => acc.reverse :: splitDC [] r
  | acc, c :: r => splitDC (c :: acc) r

/-- no character whose `str.lower()` is (or starts with) an ASCII letter although it is not ASCII -/
def lowerSafe (s : Str) : Bool := s.all fun c => c.toNat ≠ 0x212A && c.toNat ≠ 0x130

abbrev Aliases := List (Str × List Str)

def gAliases (t : List (String × List String)) : Aliases := t.map fun (k, v) => (k.toList, v.map String.toList)
def gAliases1 (t : List (String × String)) : Aliases := t.map fun (k, v) => (k.toList, [v.toList])
def gList (t : List String) : List Str := t.map String.toList

/-- `process_header(header, use_double_colon, header_aliases, header_columns)[1]` — the token tuple.
    `none`: outside the modelled fragment. -/
def processHeader (useDC : Bool) (al : Aliases) (cols : List Str) (h : Str) : Option (List Str) :=
  if !lowerSafe h then none
  else if cols.contains h && (lookup h al).isNone then some [h]
  else
    let n := toSnake h
    if cols.contains n && (lookup n al).isNone then some [n]
    else
      let toks? : Option (List Str) :=
        if useDC || isInfix "::".toList h then some ((splitDC [] h).map strip)
        else if h.contains ':' then none
        else some [strip h]
      match toks? with
      | none => none
      | some [] => none
      | some (t0 :: rest) =>
        let nh := toSnake t0
        match lookup nh al with
        | some (a :: as) => some ((a :: as) ++ rest)
        | _ => if cols.contains nh then some (nh :: rest) else some (t0 :: rest)

/-- `dealias_and_group_headers`: the header key (raw header ↦ tokens) for one header row -/
def headerKey (al : Aliases) (cols : List Str) (hdr : List Str) : Option (List (Str × List Str)) :=
  let useDC := hdr.any fun h => isInfix "::".toList h
  hdr.mapM fun h => (processHeader useDC al cols h).map fun t => (h, t)

/-- `tuple(tokens_key)`: distinct token tuples in first-seen order -/
def distinctTokens (hk : List (Str × List Str)) : List (List Str) := (hk.map (·.2)).eraseDups

/-! ## 4. `Translations` / `SheetTranslations` -/

def defaultLang : Str := Pyxv.Gen.defaultLanguageValue.toList

structure Tr where
  /-- `self.seen : defaultdict(list)`, insertion ordered -/
  seen : List (Str × List Str) := []
  /-- `self.columns_seen : set` (only membership is used; the message sorts) -/
  cols : List Str := []
deriving Repr, Inhabited

/-- `self.seen[lang].append(name)` -/
def addSeen (seen : List (Str × List Str)) (lang name : Str) : List (Str × List Str) :=
  if seen.any (fun e => e.1 = lang) then seen.map fun e => if e.1 = lang then (e.1, e.2 ++ [name]) else e
  else seen ++ [(lang, [name])]

/-- the column name recorded for `head[0]`: `translatable_columns[head[0]]`, or `head[0]` itself when
    that value is a tuple (the media columns) -/
def trName (tbl : Aliases) (h0 : Str) : Option Str :=
  match lookup h0 tbl with
  | none => none
  | some [n] => some n
  | some _ => some h0

/-- the nested `process_header(head)` of `_find_translations` -/
def trHead (tbl : Aliases) (t : Tr) (head : List Str) : Tr :=
  match head with
  | [] => t
  | h0 :: rest =>
    match trName tbl h0 with
    | none => t
    | some name =>
      let seen := match rest with
        | [] => addSeen t.seen defaultLang name
        | [l] => addSeen t.seen l name
        | _ => t.seen
      { seen := seen, cols := if t.cols.contains name then t.cols else t.cols ++ [name] }

/-- `header[1:]` when the tuple starts with `media` / `bind` and is longer than 1 -/
def trStrip (h : List Str) : List Str :=
  match h with
  | h0 :: r1 :: rs => if h0 = "media".toList || h0 = "bind".toList then r1 :: rs else h
  | _ => h

def findTranslations (tbl : Aliases) (hs : List (List Str)) : Tr :=
  hs.foldl (fun t h => trHead tbl t (trStrip h)) {}

def seenDefaultOnly (t : Tr) : Bool :=
  t.seen.isEmpty || (t.seen.any (fun e => e.1 = defaultLang) && t.seen.length == 1)

/-- `_find_missing`: `self.missing` (language ↦ columns), entries only for languages lacking something -/
def findMissing (t : Tr) : List (Str × List Str) :=
  if seenDefaultOnly t then []
  else t.seen.filterMap fun e =>
    match t.cols.filter (fun c => !e.2.contains c) with
    | [] => none
    | m => some (e.1, m)

def surveyTrTable : Aliases := gAliases Pyxv.Gen.translatableSurveyColumns
def choicesTrTable : Aliases := gAliases Pyxv.Gen.translatableChoicesColumns

/-! ## 5. `get_languages_with_bad_tags` -/

/-- `LANG_CODE_REGEX = \((.*)\)$` `.search(lang).group(1)`: the leftmost `(` from which the rest of the
    line up to a closing `)` at the end (or before one final newline) can be taken -/
def langCode (lang : Str) : Option Str :=
  let s := match lang.reverse with
    | '\n' :: r => r.reverse
    | _ => lang
  match s.reverse with
  | ')' :: rbody =>
    let body := rbody.reverse
    -- `.` does not match a newline: only the part after the last newline can hold the `(`
    let line := (body.reverse.takeWhile (· ≠ '\n')).reverse
    match line.dropWhile (· ≠ '(') with
    | '(' :: code => some code
    | _ => none
  | _ => none

/-- is this language reported?  (`isTag`: membership in the two IANA subtag files) -/
def badTag (isTag : Str → Bool) (lang : Str) : Bool :=
  if lang = defaultLang || lang.length < 3 then false
  else match langCode lang with
    | none => true
    | some code => !isTag code

def languagesWithBadTags (isTag : Str → Bool) (langs : List Str) : List Str := langs.filter (badTag isTag)

/-! ## 6. warnings as data, rows after header processing -/

inductive W where
  | dupId
  | misspell (key : Str) (cands : List Str)
  | choiceHeader (col : Str)
  | choiceNoLabel (row : Nat)
  | missingTr (sheet lang col : Str)
  | disabled (row : Nat)
  | skipped (row : Nat)
  | deprecated (row : Nat) (type : Str)
  | noLabel (row : Nat) (ctl : Str)
  | extNoFilter (row : Nat)
  | noMaxPixels (row : Nat)
  | orOther
  | iana (langs : List Str)
deriving Repr, DecidableEq, Inhabited

/-- a row after `process_row`: (token tuple, value) per non-empty cell -/
abbrev PRow := List (List Str × Str)

def keyIn (r : PRow) (k : String) : Bool := r.any fun c => c.1.head? = some k.toList
def val1 (r : PRow) (k : String) : Option Str := (r.find? fun c => c.1 = [k.toList]).map (·.2)
def val2 (r : PRow) (k1 k2 : String) : Option Str := (r.find? fun c => c.1 = [k1.toList, k2.toList]).map (·.2)
/-- a key that is present only in grouped form (`type::x`): the code then sees a dict where it expects text -/
def groupedOnly (r : PRow) (k : String) : Bool := keyIn r k && (val1 r k).isNone

/-- `RE_WHITESPACE.sub(" ", value.strip())` and the smart-quote replacement of `clean_text_values` -/
def collapseSpaces : Str → Str
  | ' ' :: ' ' :: r => collapseSpaces (' ' :: r)
  | c :: r => c :: collapseSpaces r
  | [] => []

def smartQuote (c : Char) : Char :=
  if c.toNat = 0x2018 || c.toNat = 0x2019 then '\'' else if c.toNat = 0x201C || c.toNat = 0x201D then '"' else c

def cleanSurveyVal (v : Str) : Str := (collapseSpaces (strip v)).map smartQuote

/-- `parameters_generic.parse(raw)`: the keys; `none` = PyXFormError (a part without `=`) -/
def paramKeys (raw : Str) : Option (List Str) :=
  let p1 := splitOnChar ';' raw
  let parts := if p1.length ≠ 1 then p1 else
    let p2 := splitOnChar ',' raw
    if p2.length ≠ 1 then p2 else pySplitWs [] raw
  parts.mapM fun p =>
    if p.contains '=' then some (strip (lowerAscii (p.takeWhile (· ≠ '=')))) else none

def typeAlias (t : Str) : Str :=
  match lookup t (Rows.gtab Pyxv.Gen.typeAliasMap) with
  | some v => v
  | none => t

def deprecatedTypes : List Str := gList Pyxv.Gen.deprecatedDeviceIdFields
def settingsTypes : List Str := (Rows.gtab Pyxv.Gen.aliasSettingsHeader).map (·.1)

/-- state of the row loop as far as warnings and the surviving rows are concerned -/
structure St where
  warnings : List W
  orOther : Bool := false
  /-- (row number, type) of the rows that are kept as survey elements — the conversion result's proxy -/
  kept : List (Nat × Str) := []
deriving Repr, Inhabited

inductive Stop where
  | error (row : Nat) (what : String)
  | unsupported (why : String)
deriving Repr, Inhabited

/-- the `begin` row's label check (xls2json.py 841-862) -/
def noLabelCond (r : PRow) (ct : Str) : Bool :=
  !keyIn r "label" && !keyIn r "media"
    && !(match val2 r "bind" "calculate" with | some v => !v.isEmpty | none => false)
    && !(ct = "group".toList && val2 r "control" "appearance" = some "field-list".toList)

/-- `aliases.yes_no.get(row.pop("disabled"))` is truthy -/
def disabledYes (r : PRow) : Bool := match val1 r "disabled" with | some v => Rows.yesNoTrue v | none => false
/-- the row after `row.pop("disabled")` -/
def body (r : PRow) : PRow := r.filter fun c => c.1.head? ≠ some "disabled".toList
/-- `row.get("type")` after `dealias_types` -/
def rowType (r : PRow) : Option Str := (val1 (body r) "type").map typeAlias

/-- what one row appends: warnings, the or_other flag, the kept (row number, type) -/
structure RowOut where
  ws : List W := []
  orOther : Bool := false
  kept : List (Nat × Str) := []
deriving Repr, Inhabited

/-- a row with a type (after the `disabled` / empty / comment-row handling): xls2json.py 583-1374, warning sites -/
def typedOut (n : Nat) (r : PRow) (t : Str) (pkeys : List Str) : Except Stop RowOut :=
  if t = "audit".toList then .ok { kept := [(n, t)] }
  else
  let dep := if deprecatedTypes.contains t then [W.deprecated n t] else []
  if settingsTypes.contains t then .ok { ws := dep }
  else if (Rows.matchControl "end" false t).isSome then .ok { ws := dep }
  else
  match Rows.matchControl "begin" true t with
  | some ct =>
    if ct = "loop".toList then .error (.unsupported "loop")
    else if keyIn r "default" then .error (.unsupported "default on a begin row (lexer)")
    else .ok { ws := dep ++ (if noLabelCond r ct then [W.noLabel n ct] else []), kept := [(n, t)] }
  | none =>
  match Rows.matchSelect t with
  | some (sel, _, other) =>
    .ok { ws := dep ++ (if sel = "select one external".toList && !keyIn r "choice_filter" then [W.extNoFilter n] else []),
          orOther := other, kept := [(n, t)] }
  | none =>
    .ok { ws := dep ++ (if t = "photo".toList && !pkeys.contains "max-pixels".toList then [W.noMaxPixels n] else []),
          kept := [(n, t)] }

/-- one iteration of `for row_number, row in enumerate(survey_sheet.data, start=2)`: what it appends -/
def rowOut (n : Nat) (r0 : PRow) : Except Stop RowOut :=
  -- "disabled" (552-560)
  if groupedOnly r0 "disabled" then .error (.unsupported "disabled::x") else
  let dis := if keyIn r0 "disabled" then [W.disabled n] else []
  let r := body r0
  if disabledYes r0 then .ok { ws := dis }
  else if r.isEmpty then .ok { ws := dis }
  else if groupedOnly r "type" then .error (.unsupported "type::x")
  else
  match rowType r0 with
  | none =>
    if !(keyIn r "name" || keyIn r "label") then .ok { ws := dis ++ [W.skipped n] }
    else .error (.error n "Question with no type")
  | some [] =>
    if !(keyIn r "name" || keyIn r "label") then .ok { ws := dis ++ [W.skipped n] }
    else .error (.error n "Question with no type")
  | some (c :: cs) =>
    if groupedOnly r "parameters" then .error (.unsupported "parameters::x") else
    match paramKeys ((val1 r "parameters").getD []) with
    | none => .error (.error n "parameters")
    | some pkeys =>
      match typedOut n r (c :: cs) pkeys with
      | .ok o => .ok { o with ws := dis ++ o.ws }
      | .error e => .error e

/-- the loop body on the threaded state: `warnings.append(…)`, `or_other_seen = True`, children appended -/
def rowStep (n : Nat) (r0 : PRow) (st : St) : Except Stop St :=
  match rowOut n r0 with
  | .ok o => .ok { warnings := st.warnings ++ o.ws, orOther := st.orOther || o.orOther, kept := st.kept ++ o.kept }
  | .error e => .error e

def rowLoop : Nat → List PRow → St → Except Stop St
  | _, [], st => .ok st
  | n, r :: rs, st =>
    match rowStep n r st with
    | .ok st' => rowLoop (n + 1) rs st'
    | .error e => .error e

/-! ## 7. the workbook: `workbook_to_json` as far as warnings go -/

/-- what `workbook_to_json` reads of the workbook for its warnings (raw headers, raw non-empty cells) -/
structure WB where
  sheetNames : List Str
  surveyHeader : List Str
  survey : List (List (Str × Str))
  choicesHeader : List Str
  choices : List (List (Str × Str))
  settingsHeader : List Str
  /-- number of data rows of the settings sheet (`workbook_dict.settings`) -/
  settingsRows : Nat
  /-- `workbook_dict.entities` is non-empty -/
  hasEntities : Bool
deriving Repr, Inhabited

def surveyAliases : Aliases := gAliases Pyxv.Gen.aliasSurveyHeader
def listAliases : Aliases := gAliases Pyxv.Gen.aliasListHeader
def surveyCols : List Str := gList Pyxv.Gen.surveyHeaderColumns
def choicesCols : List Str := gList Pyxv.Gen.choicesHeaderColumns

/-- `process_row` as far as keys go: raw cells ↦ (tokens, value); `none` = header not in the header row -/
def processRow (clean : Str → Str) (hk : List (Str × List Str)) (row : List (Str × Str)) : Option PRow :=
  row.mapM fun (h, v) => (lookup h hk).map fun t => (t, clean v)

/-- `validate_headers` (choices.py 27-38) -/
def choiceHeaderWarnings (hs : List (List Str)) : List W :=
  hs.filterMap fun h =>
    match h with
    | h0 :: _ => if h0 ≠ "list name".toList && (h0.contains ' ' || h0.isEmpty) then some (W.choiceHeader h0) else none
    | [] => none

/-- `group_dictionaries_by_key(…, "list name")`: rows that have a list name, grouped in first-seen order
    of the list; each with its `__row` -/
def groupChoices (rows : List (Nat × PRow)) : List (Str × List (Nat × PRow)) :=
  rows.foldl (fun acc nr =>
    match val1 nr.2 "list name" with
    | none => acc
    | some ln =>
      if acc.any (fun e => e.1 = ln) then acc.map fun e => if e.1 = ln then (e.1, e.2 ++ [nr]) else e
      else acc ++ [(ln, [nr])]) []

/-- `validate_choice_list`, warning part: unlabeled choices; `Stop.error` for a choice without name -/
def choiceListWarnings : List (Nat × PRow) → Except Stop (List W)
  | [] => .ok []
  | (n, r) :: rest =>
    if !keyIn r "name" then .error (.error n "choice without name")
    else match choiceListWarnings rest with
      | .error e => .error e
      | .ok ws => .ok (if !keyIn r "label" then W.choiceNoLabel n :: ws else ws)

def choicesWarnings : List (Str × List (Nat × PRow)) → Except Stop (List W)
  | [] => .ok []
  | (_, opts) :: rest =>
    match choiceListWarnings opts with
    | .error e => .error e
    | .ok ws => match choicesWarnings rest with
      | .error e => .error e
      | .ok ws' => .ok (ws ++ ws')

def numberFrom {α} : Nat → List α → List (Nat × α)
  | _, [] => []
  | n, x :: xs => (n, x) :: numberFrom (n + 1) xs

def missingToW (sheet : String) (m : List (Str × List Str)) : List W :=
  m.flatMap fun e => e.2.map fun c => W.missingTr sheet.toList e.1 c

/-- `SheetTranslations.missing_check`: one message naming every (sheet, language, column) -/
def missingCheck (sv ch : Tr) : List W :=
  missingToW "survey" (findMissing sv) ++ missingToW "choices" (findMissing ch)

/-- `SheetTranslations.or_other_check` -/
def orOtherCheck (orOther : Bool) (sv ch : Tr) : List W :=
  if orOther && (!seenDefaultOnly sv || !seenDefaultOnly ch) then [W.orOther] else []

structure Res where
  kept : List (Nat × Str)
  orOther : Bool
deriving Repr, Inhabited, DecidableEq

/-- header processing of both sheets (`dealias_and_group_headers`): token tuples and rows as (tokens, value) -/
structure View where
  chHeaders : List (List Str)
  chRows : List PRow
  svHeaders : List (List Str)
  svRows : List PRow
deriving Repr, Inhabited

def view (wb : WB) : Except Stop View :=
  match (if wb.choices.isEmpty then some [] else headerKey listAliases choicesCols wb.choicesHeader) with
  | none => .error (.unsupported "choices header")
  | some chk =>
  match wb.choices.mapM (processRow id chk) with
  | none => .error (.error 0 "choices: cell without header")
  | some chRows =>
  match headerKey surveyAliases surveyCols wb.surveyHeader with
  | none => .error (.unsupported "survey header")
  | some shk =>
  match wb.survey.mapM (processRow cleanSurveyVal shk) with
  | none => .error (.error 0 "survey: cell without header")
  | some svRows => .ok { chHeaders := distinctTokens chk, chRows := chRows, svHeaders := distinctTokens shk, svRows := svRows }

/-- `workbook_to_json(workbook_dict, warnings=w0)` after header processing: result proxy and the
    warnings list afterwards.  `lower`: `str.lower` on sheet names. -/
def convertOn (lower : Str → Str) (wb : WB) (v : View) (w0 : List W) : Except Stop (Res × List W) :=
  -- settings (310-354)
  let w1 :=
    if wb.settingsRows > 0 then
      (if wb.settingsHeader.contains "id_string".toList && wb.settingsHeader.contains "form_id".toList
       then w0 ++ [W.dupId] else w0)
    else match findSheetMisspellings lower supported "settings".toList wb.sheetNames with
      | some c => w0 ++ [W.misspell "settings".toList c]
      | none => w0
  -- choices (405-440)
  match choicesWarnings (groupChoices (numberFrom 2 v.chRows)) with
  | .error e => .error e
  | .ok chW =>
  let w2 := if wb.choices.isEmpty then w1 else w1 ++ choiceHeaderWarnings v.chHeaders ++ chW
  -- entities (443-470)
  let w3 :=
    if wb.hasEntities then w2
    else match findSheetMisspellings lower supported "entities".toList wb.sheetNames with
      | some c => w2 ++ [W.misspell "entities".toList c]
      | none => w2
  -- translations (490-502)
  let sv := findTranslations surveyTrTable v.svHeaders
  let ch := findTranslations choicesTrTable v.chHeaders
  let w4 := w3 ++ missingCheck sv ch
  -- rows (542-1374), or_other_check (1376)
  match rowLoop 2 v.svRows { warnings := w4 } with
  | .error e => .error e
  | .ok st => .ok ({ kept := st.kept, orOther := st.orOther }, st.warnings ++ orOtherCheck st.orOther sv ch)

def workbookToJson (lower : Str → Str) (wb : WB) (w0 : List W) : Except Stop (Res × List W) :=
  match view wb with
  | .error e => .error e
  | .ok v => convertOn lower wb v w0

/-- `Survey.print_xform_to_file`, warning part (survey.py 1288-1299): `langs` = keys of `_translations` -/
def ianaWarning (isTag : Str → Bool) (langs : List Str) : List W :=
  match languagesWithBadTags isTag langs with
  | [] => []
  | bad => [W.iana bad]

/-! ## 8. Spec: the trigger predicates (what the property demands), stated without the loops -/
namespace Spec

/-- textbook edit distance -/
def levInner (x : Char) (alen : Nat) (la : Str → Nat) : Str → Nat
  | [] => alen + 1
  | y :: b => min3 (la (y :: b) + 1) (levInner x alen la b + 1) (if x = y then la b else la b + 1)

/-- `lev [] b = |b|`, `lev a [] = |a|`,
    `lev (x::a) (y::b) = min (lev a (y::b) + 1, lev (x::a) b + 1, lev a b + [x ≠ y])` -/
def lev : Str → Str → Nat
  | [] => fun b => b.length
  | x :: a => levInner x a.length (lev a)

/-- sheet `s` is a possible misspelling of the supported name `key`: within distance 2 (`dist` is the edit
    distance: `lev` in the theorems; the driver evaluates it with `levenshtein`, equal by `lev_correct`), not itself a
    spelling (in any letter case) of a supported sheet name, not prefixed with an underscore -/
def isMisspelling (dist : Str → Str → Nat) (lower : Str → Str) (sup : List Str) (key s : Str) : Bool :=
  decide (dist (lower s) key ≤ 2) && !sup.contains (lower s) && !startsWith s ['_']

/-- a language label carries a valid code: it ends in `(code)` with `code` a registered subtag -/
def hasValidCode (isTag : Str → Bool) (lang : Str) : Bool :=
  match langCode lang with
  | some code => isTag code
  | none => false

/-- languages that must be reported -/
def ianaDue (isTag : Str → Bool) (lang : Str) : Bool := lang ≠ defaultLang && !hasValidCode isTag lang

/-- the (column, language) pair a header tuple stands for, if it is a translatable column -/
def trPair (tbl : Aliases) (h : List Str) : Option (Str × Str) :=
  match trStrip h with
  | [h0] => (trName tbl h0).map fun n => (n, defaultLang)
  | [h0, l] => (trName tbl h0).map fun n => (n, l)
  | _ => none

def trPairs (tbl : Aliases) (hs : List (List Str)) : List (Str × Str) := hs.filterMap (trPair tbl)

/-- module docstring of `translations_checks.Translations`: language `lang` is used by some translatable
    column, column `col` is used in some language, and `col` has no `lang` version -/
def trMissing (pairs : List (Str × Str)) (lang col : Str) : Bool :=
  pairs.any (fun p => p.2 = lang) && pairs.any (fun p => p.1 = col) && !pairs.contains (col, lang)

/-- every translatable header has the shape `col` or `col::lang` -/
def trShort (tbl : Aliases) (hs : List (List Str)) : Bool :=
  hs.all fun h => match trStrip h with
    | h0 :: _ :: _ :: _ => (trName tbl h0).isNone
    | _ => true

/-! row-level triggers, on a row after header processing -/

/-- the row takes part in the form: not switched off, not blank -/
def active (r : PRow) : Bool := !disabledYes r && !(body r).isEmpty
def typed (r : PRow) : Bool := match rowType r with | some (_ :: _) => true | _ => false

def disabledTrig (r : PRow) : Bool := keyIn r "disabled"
def skippedTrig (r : PRow) : Bool := active r && !typed r && !(keyIn (body r) "name" || keyIn (body r) "label")
/-- the metadata types documented as deprecated (the model reads `DEPRECATED_DEVICE_ID_METADATA_FIELDS`;
    `C20.deprecated_pinned` states that the two agree) -/
def documentedDeprecated : List Str := ["simserial".toList, "subscriberid".toList]
def deprecatedTrig (r : PRow) (t : Str) : Bool :=
  active r && rowType r = some t && documentedDeprecated.contains t && t ≠ "audit".toList
def noLabelTrig (r : PRow) (ct : Str) : Bool :=
  active r && typed r &&
  (match rowType r with
   | some t => !settingsTypes.contains t && t ≠ "audit".toList && (Rows.matchControl "end" false t).isNone
               && Rows.matchControl "begin" true t = some ct
   | none => false) && noLabelCond (body r) ct
def isSelectExternal (t : Str) : Bool :=
  match Rows.matchSelect t with | some (sel, _, _) => sel = "select one external".toList | none => false
def plainQuestion (t : Str) : Bool :=
  !settingsTypes.contains t && t ≠ "audit".toList && (Rows.matchControl "end" false t).isNone
  && (Rows.matchControl "begin" true t).isNone
def extNoFilterTrig (r : PRow) : Bool :=
  active r && typed r &&
  (match rowType r with | some t => plainQuestion t && isSelectExternal t | none => false)
  && !keyIn (body r) "choice_filter"
def noMaxPixelsTrig (r : PRow) : Bool :=
  active r && typed r &&
  (match rowType r with
   | some t => plainQuestion t && (Rows.matchSelect t).isNone && t = "photo".toList | none => false)
  && !(((paramKeys ((val1 (body r) "parameters").getD [])).getD []).contains "max-pixels".toList)

/-- all row-level warnings due for row `n` -/
def rowDue (n : Nat) (r : PRow) : List W :=
  (if keyIn r "disabled" then [W.disabled n] else []) ++
  (if skippedTrig r then [W.skipped n] else []) ++
  (match rowType r with | some t => if deprecatedTrig r t then [W.deprecated n t] else [] | none => []) ++
  (match rowType r with
   | some t => (match Rows.matchControl "begin" true t with
                | some ct => if noLabelTrig r ct then [W.noLabel n ct] else []
                | none => [])
   | none => []) ++
  (if extNoFilterTrig r then [W.extNoFilter n] else []) ++
  (if noMaxPixelsTrig r then [W.noMaxPixels n] else [])

def rowsDue : Nat → List PRow → List W
  | _, [] => []
  | n, r :: rs => rowDue n r ++ rowsDue (n + 1) rs

/-- the or_other trigger: an active select row spelled with `or_other` … -/
def orOtherRow (r : PRow) : Bool :=
  active r && typed r &&
  (match rowType r with
   | some t => plainQuestion t && (match Rows.matchSelect t with | some (_, _, o) => o | none => false)
   | none => false)

/-- … and some translatable column carries a language on either sheet -/
def translated (pairs : List (Str × Str)) : Bool := pairs.any fun p => p.2 ≠ defaultLang

/-- each element once -/
def dedup : List Str → List Str
  | [] => []
  | x :: xs => if xs.contains x then dedup xs else x :: dedup xs

/-- (sheet, language, column) triples due on one sheet, each once -/
def missingDue (sheet : String) (pairs : List (Str × Str)) : List W :=
  (dedup (pairs.map (·.2))).flatMap fun l =>
    ((dedup (pairs.map (·.1))).filter fun c => trMissing pairs l c).map fun c => W.missingTr sheet.toList l c

def choiceDue (rows : List (Nat × PRow)) : List W :=
  rows.filterMap fun nr => if (val1 nr.2 "list name").isSome && !keyIn nr.2 "label" then some (W.choiceNoLabel nr.1) else none

def misspellDue (dist : Str → Str → Nat) (lower : Str → Str) (key : String) (names : List Str) : List W :=
  match names.filter (isMisspelling dist lower supported key.toList) with
  | [] => []
  | cs => [W.misspell key.toList cs]

/-- every warning due for a workbook (as a multiset; the order is not part of the property) -/
def dueOn (dist : Str → Str → Nat) (lower : Str → Str) (wb : WB) (v : View) : List W :=
  (if wb.settingsRows > 0 then
     (if wb.settingsHeader.contains "id_string".toList && wb.settingsHeader.contains "form_id".toList then [W.dupId] else [])
   else misspellDue dist lower "settings" wb.sheetNames) ++
  (if wb.choices.isEmpty then [] else choiceHeaderWarnings v.chHeaders ++ choiceDue (numberFrom 2 v.chRows)) ++
  (if wb.hasEntities then [] else misspellDue dist lower "entities" wb.sheetNames) ++
  missingDue "survey" (trPairs surveyTrTable v.svHeaders) ++
  missingDue "choices" (trPairs choicesTrTable v.chHeaders) ++
  rowsDue 2 v.svRows ++
  (if v.svRows.any orOtherRow &&
      (translated (trPairs surveyTrTable v.svHeaders) || translated (trPairs choicesTrTable v.chHeaders))
   then [W.orOther] else [])

def workbookDue (dist : Str → Str → Nat) (lower : Str → Str) (wb : WB) : Except Stop (List W) :=
  match view wb with
  | .error e => .error e
  | .ok v => .ok (dueOn dist lower wb v)

def ianaDueW (isTag : Str → Bool) (langs : List Str) : List W :=
  match langs.filter (ianaDue isTag) with
  | [] => []
  | bad => [W.iana bad]

end Spec

end Pyxv.Warn
