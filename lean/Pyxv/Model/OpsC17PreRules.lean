import Pyxv.Model.Json
import Pyxv.Model.PreRules
/-! Driver operations `c17.survey_precheck` / `c17.range_cell`: the missing-survey-sheet pre-check and the parameter
cell of a `range` row with the text of their diagnosis (`Pyxv.PreRules`); compared by stream R of `c17.py` with the
message of `convert()`. -/
namespace Pyxv.PreRules
open Lean Pyxv

def outJson : Outcome → Json
  | .pass => Json.mkObj [("outcome", "pass")]
  | .reject m => Json.mkObj [("outcome", "reject"), ("msg", jstr m)]
  | .unsupported w => Json.mkObj [("outcome", "unsupported"), ("why", Json.str w)]

def opsC17PreRules (op : String) (j : Json) : Option (Except String Json) :=
  match op with
  | "c17.survey_precheck" => some do
      let names ← getStrList j "sheet_names"
      if !(names.all Controls.isAscii) then return outJson (.unsupported "non-ASCII sheet name") else
      pure (outJson (surveyPrecheck lowerAscii (getBoolD j "has_rows" false) (getBoolD j "has_header" false) names))
  | "c17.range_cell" => some do
      let raw ← getStr j "raw"
      if !(Controls.isAscii raw) then return outJson (.unsupported "non-ASCII cell") else
      pure (outJson (rangeCellOfSheet raw))
  | _ => none

end Pyxv.PreRules
