import Pyxv.Model.OpsForm
import Pyxv.Model.Rows17
/-! Driver operation for C17's repaired validation order. -/
namespace Pyxv.Rows17
open Lean Pyxv Pyxv.Form Pyxv.Rows

def opsC17 (op : String) (j : Json) : Option (Except String Json) :=
  match op with
  | "c17.model" => some do
      let rows ← (← getArr j "rows").toList.mapM cellsOfJson
      let lists ← getStrList j "lists"
      let settings ← cellsOfJson (← j.getObjVal? "settings")
      pure (match formOut17 (getStrD j "root" "data") lists rows settings with
        | .unsupported w => Json.mkObj [("outcome", "unsupported"), ("why", Json.str w)]
        | .rowStage (.err e) => Json.mkObj [("outcome", "error"), ("err", errToJson e)]
        | .rowStage (.unknownType n) => Json.mkObj [("outcome", "error"), ("err", Json.mkObj [("kind", "unknownType"), ("row", n)])]
        | .rowStage (.unsupported w) => Json.mkObj [("outcome", "unsupported"), ("why", Json.str w)]
        | .tree (.base e) => Json.mkObj [("outcome", "error"), ("err", errToJson e)]
        | .tree (.emptySection n) => Json.mkObj [("outcome", "error"), ("err", Json.mkObj [("kind", "emptySection"), ("name", jstr n)])]
        | .ok => Json.mkObj [("outcome", "ok")])
  | _ => none

end Pyxv.Rows17
