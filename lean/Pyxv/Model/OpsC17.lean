import Pyxv.Model.OpsForm
import Pyxv.Model.Rows17
import Pyxv.Model.RowLoopEnv
import Pyxv.Model.PreLoop
/-! Driver operation for C17's repaired validation order. -/
namespace Pyxv.Rows17
open Lean Pyxv Pyxv.Form Pyxv.Rows

/-- a typed cell: JSON string, or `[[k, v], …]` for a grouped column -/
partial def valOfJson : Json → Except String RowLoop.Val
  | .str s => pure (.str s.toList)
  | .arr a => do
    let kvs ← a.toList.mapM fun x => do
      let p ← x.getArr?
      if h : p.size = 2 then
        let key ← p[0].getStr?
        let v ← valOfJson p[1]
        pure (key.toList, v)
      else throw "pair expected"
    pure (.dict kvs)
  | _ => throw "cell expected"

def trowOfJson (j : Json) : Except String RowLoop.TRow := do
  match ← valOfJson j with
  | .dict kvs => pure kvs
  | .str _ => throw "row expected"

def opsC17 (op : String) (j : Json) : Option (Except String Json) :=
  match op with
  | "c17.model" => some do
      let rows ← (← getArr j "rows").toList.mapM cellsOfJson
      let lists ← getStrList j "lists"
      let settings ← cellsOfJson (← j.getObjVal? "settings")
      pure (match formOut17 (getStrD j "root" "data") lists rows settings with
        | .unsupported w => Json.mkObj [("outcome", "unsupported"), ("why", Json.str w)]
        | .rowStage (.err e) => Json.mkObj [("outcome", "error"), ("err", errToJson e)]
        | .rowStage (.unknownType n) => Json.mkObj [("outcome", "error"), ("err", Json.mkObj [("kind", "unknownType"), ("row", n)])]
        | .rowStage (.unsupported w) => Json.mkObj [("outcome", "unsupported"), ("why", Json.str w)]
        | .tree (.base e) => Json.mkObj [("outcome", "error"), ("err", errToJson e)]
        | .tree (.emptySection n) => Json.mkObj [("outcome", "error"), ("err", Json.mkObj [("kind", "emptySection"), ("name", jstr n)])]
        | .ok => Json.mkObj [("outcome", "ok")])
  | "c17.rowloop" => some do
      let rows ← (← getArr j "rows").toList.mapM trowOfJson
      let sh : RowLoop.Sheets :=
        { choices := ← getStrList j "choices", external := ← getStrList j "external",
          hasExternal := getBoolD j "hasExternal" false,
          osm := (match j.getObjVal? "osm" with | .ok v => (match strList v with | .ok l => some l | _ => none) | _ => none),
          hasEntities := getBoolD j "hasEntities" false }
      let guard := RowLoop.sheetGuard RowLoop.stdEnv sh rows
      pure (match RowLoop.sheet RowLoop.stdEnv sh rows with
        | .ok () => Json.mkObj [("outcome", "pass"), ("guard", Json.bool guard)]
        | .error (.reject w) => Json.mkObj [("outcome", "reject"), ("what", Json.str w), ("guard", Json.bool guard)]
        | .error (.internal c s) =>
          Json.mkObj [("outcome", "internal"), ("exc", Json.str c), ("site", Json.str s), ("guard", Json.bool guard)])
  | "c17.header" => some do
      let h ← getStr j "header"
      pure (match PreLoop.headerTokens (getBoolD j "useDouble" false) h with
        | .ok ts => Json.mkObj [("outcome", "pass"), ("tokens", Json.arr (ts.map jstr).toArray)]
        | .error (.reject w) => Json.mkObj [("outcome", "reject"), ("what", Json.str w)]
        | .error (.internal c s) => Json.mkObj [("outcome", "internal"), ("exc", Json.str c), ("site", Json.str s)])
  | "c17.settings" => some do
      let row ← trowOfJson (← j.getObjVal? "row")
      let c : PreLoop.SCtx := { hasChoices := getBoolD j "hasChoices" false, appends := getBoolD j "appends" true }
      let guard := PreLoop.settingsOk row
      pure (match PreLoop.settingsOps row c with
        | .ok () => Json.mkObj [("outcome", "pass"), ("guard", Json.bool guard)]
        | .error (.reject w) => Json.mkObj [("outcome", "reject"), ("what", Json.str w), ("guard", Json.bool guard)]
        | .error (.internal c s) =>
          Json.mkObj [("outcome", "internal"), ("exc", Json.str c), ("site", Json.str s), ("guard", Json.bool guard)])
  | _ => none

end Pyxv.Rows17
