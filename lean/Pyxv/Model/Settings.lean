import Pyxv.Model.Rows
import Pyxv.Model.Lexer
import Pyxv.Generated.Tables
/-!
# Settings: settings sheet + convert() arguments ↦ the form header

Mirrors, for the settings sheet only,
* `xls2json.workbook_to_json` (xls2json.py 312-387): the `form_id`+`id_string` double-header pop,
  `dealias_and_group_headers(header_aliases=aliases.settings_header, header_columns=Survey slots)`,
  `clean_text_values` on row 0, the default root dict (`name`, `title`, `id_string`, `sms_keyword`,
  `default_language`) and `json_dict.update(settings)`;
* `parsing/sheet_headers.py`: `to_snake_case` (80-86), `process_header` (89-145), `process_row`
  (148-178) with the `merge_dicts` shape that `attribute::x` columns produce, the header/tokens
  tables and the duplicate-spelling error of `dealias_and_group_headers` (181-263);
* the meta block (xls2json.py 1389-1413): `omit_instanceID`, the encryption conflict, `instance_name`;
* `SurveyElement.__init__` slot assignment (`if value or not hasattr`, survey_element.py 108-114)
  for the `Survey` slots (survey.py 233-275);
* `Survey.validate` (id_string `"None"`, survey.py 283-285), `SurveyElement.validate` on the root name;
* `Survey.get_nsmap` (309-334), `Survey.xml` (`h:title`, body `class`; 336-362), `Survey.xml_model`
  (`<submission>`; 690-704), `Survey.xml_instance` (root attributes in `setAttribute` order; 714-740);
* `SurveyElement.xml_bindings` BINDING_CONVERSIONS on the `calculate` of `meta/instanceName`.

Python dicts are insertion-ordered association lists (`aget`/`aset`).  Answered `unsupported`
(deterministically, counted in the evidence): a header with non-ASCII characters other than
whitespace (`str.lower`),
`jr` tokens in single-colon headers, `::`-grouped headers other than `attribute::<name>`, a plain
`attribute` column, columns named after `Survey` slots that are not settings (`children`, `type`,
`bind`, `flat`, … — the F22 crash class, owned by C17), `fields`, empty cells, and values that
contain `${` (they go through the expression lexer, `validate_pyxform_reference_syntax`).
Settings rows on the *survey* sheet (`type = form_title` …, xls2json.py 771-774), entities and
`audit` (other producers of meta children / namespaces) are outside this model; the generator of the
check does not produce them.
-/
namespace Pyxv.Settings
open Pyxv

/-- string literal as `Str` -/
abbrev S (s : String) : Str := s.toList

/-! ## Python dict as association list -/

/-- `d.get(k)` -/
def aget {κ β : Type} [DecidableEq κ] (k : κ) : List (κ × β) → Option β
  | [] => none
  | (k', v) :: r => if k = k' then some v else aget k r

/-- `d[k] = v` (an existing key keeps its position) -/
def aset {κ β : Type} [DecidableEq κ] (k : κ) (v : β) : List (κ × β) → List (κ × β)
  | [] => [(k, v)]
  | (k', v') :: r => if k = k' then (k', v) :: r else (k', v') :: aset k v r

/-- `d.update(e)` / a sequence of `d[k] = v` -/
def aupdate {κ β : Type} [DecidableEq κ] (d e : List (κ × β)) : List (κ × β) :=
  e.foldl (fun acc kv => aset kv.1 kv.2 acc) d

/-- a settings value after header grouping: a cell text, or the dict an `attribute::x` group builds -/
inductive SVal where
  | s (v : Str)
  | d (kv : List (Str × Str))
deriving DecidableEq, Repr, Inhabited

abbrev Dict := List (Str × SVal)

inductive Err where
  /-- INVALID_DUPLICATE: two spellings of one column -/
  | dupHeader (other header : Str)
  /-- INVALID_HEADER: a row key that the header row does not have -/
  | invalidHeader (header : Str)
  /-- "Cannot omit instanceID, it is required for encryption." -/
  | omitWithKey
  /-- "Survey cannot have an empty id_string" -/
  | emptyId
  /-- root element name is not an XML tag -/
  | badName (name : Str)
  /-- PYXFORM_REFERENCE_INVALID: a settings cell with a malformed `${…}` -/
  | badRef
  /-- `utils.validate_xml_document`: a name that is not an XML name, an undeclared prefix, an illegal
      namespace declaration, or a character XML does not allow -/
  | xmlInvalid
deriving DecidableEq, Repr, Inhabited

inductive Fail where
  | err (e : Err)
  | unsupported (why : String)
deriving DecidableEq, Repr, Inhabited

abbrev M := Except Fail

/-! ## `to_snake_case`, `process_header` -/

/-- Python `s.split()` (runs of whitespace; no empty fields); `cur` is the current word, reversed -/
def splitWsAux : Str → Str → List Str
  | cur, [] => if cur.isEmpty then [] else [cur.reverse]
  | cur, c :: cs =>
    if pyIsSpace c then
      (if cur.isEmpty then splitWsAux [] cs else cur.reverse :: splitWsAux [] cs)
    else splitWsAux (c :: cur) cs

def splitWs (s : Str) : List Str := splitWsAux [] s

/-- `"_".join(value.split()).lower()` — ASCII only (callers answer `unsupported` otherwise) -/
def toSnakeCase (s : Str) : Str := lowerAscii (joinWith ['_'] (splitWs s))

/-- Python `s.split("::")`; `cur` is the current field, reversed -/
def splitDC : Str → Str → List Str
  | cur, [] => [cur.reverse]
  | cur, [c] => [(c :: cur).reverse]
  | cur, c :: c' :: r =>
    if c = ':' ∧ c' = ':' then cur.reverse :: splitDC [] r
    else splitDC (c :: cur) (c' :: r)

def aliasOf (k : Str) : Option Str :=
  aget k (Pyxv.Gen.aliasSettingsHeader.map fun p => (p.1.toList, p.2.toList))

def isColumn (k : Str) : Bool := Pyxv.Gen.surveyFields.any fun c => c.toList == k

/-- `process_header(header, use_double_colon, aliases.settings_header, Survey.get_slot_names())`
    → `(new_header, tokens)` (sheet_headers.py 89-145).  The `jr` re-joining of single-colon
    headers is outside the fragment (see `headerSupported`). -/
def processHeader (useDC : Bool) (h : Str) : Str × List Str :=
  if isColumn h && (aliasOf h).isNone then (h, [h]) else
  let n := toSnakeCase h
  if isColumn n && (aliasOf n).isNone then (n, [n]) else
  let toks := (if useDC || isInfix (S "::") h then splitDC [] h else splitOnChar ':' h).map strip
  match toks with
  | [] => (h, [])
  | t0 :: rest =>
    let nh := toSnakeCase t0
    match aliasOf nh with
    | some (c :: cs) => (c :: cs, (c :: cs) :: rest)
    | _ => if isColumn nh then (nh, nh :: rest) else (h, t0 :: rest)

/-- headers the model answers for -/
def headerSupported (useDC : Bool) (h : Str) : Bool :=
  !h.isEmpty && h.all (fun c => c.toNat < 128 || pyIsSpace c) && h != S "__row" &&
  (useDC || isInfix (S "::") h || !((splitOnChar ':' h).map strip).contains (S "jr"))

/-! ## `dealias_and_group_headers` on the settings sheet -/

structure Keys where
  /-- `header_key`: original header ↦ tokens -/
  hk : List (Str × List Str) := []
  /-- `tokens_key`: tokens ↦ original header -/
  tk : List (List Str × Str) := []
deriving Repr, Inhabited

def headerStep (useDC : Bool) (ks : Keys) (h : Str) : M Keys :=
  if !headerSupported useDC h then .error (.unsupported "header outside the fragment") else
  match aget h ks.hk with
  | some _ => .ok ks
  | none =>
    let p := processHeader useDC h
    match aget p.2 ks.tk with
    | some other =>
      if !other.isEmpty && p.1 != h then .error (.err (.dupHeader other h))
      else .ok ⟨aset h p.2 ks.hk, aset p.2 h ks.tk⟩
    | none => .ok ⟨aset h p.2 ks.hk, aset p.2 h ks.tk⟩

def buildKeys (useDC : Bool) : List Str → Keys → M Keys
  | [], ks => .ok ks
  | h :: hs, ks =>
    match headerStep useDC ks h with
    | .ok ks' => buildKeys useDC hs ks'
    | .error e => .error e

/-- the settings this model follows into the header (all are `Survey` slots or `name`) -/
def modelled : List String :=
  ["name", "title", "id_string", "version", "default_language", "sms_keyword", "public_key",
   "submission_url", "auto_send", "auto_delete", "style", "namespaces", "instance_name",
   "instance_xmlns", "omit_instanceID", "clean_text_values", "allow_choice_duplicates",
   "prefix", "delimiter"]

def isModelled (t : Str) : Bool := modelled.any fun c => c.toList == t

/-- `merge_dicts(out_row, {"attribute": {k: v}})` for the shapes that can occur here -/
def mergeAttr (out : Dict) (k v : Str) : M Dict :=
  match aget (S "attribute") out with
  | none => .ok (aset (S "attribute") (.d [(k, v)]) out)
  | some (.d kv) =>
    (match aget k kv with
     | none => .ok (aset (S "attribute") (.d (kv ++ [(k, v)])) out)
     | some _ => .error (.unsupported "attribute key merged twice"))
  | some (.s _) => .error (.unsupported "plain attribute column")

/-- one `(header, val)` of `process_row` (sheet_headers.py 164-176) -/
def rowStep (ks : Keys) (out : Dict) (hv : Str × Str) : M Dict :=
  if hv.2.isEmpty then .error (.unsupported "empty cell") else
  match aget hv.1 ks.hk with
  | none => .error (.err (.invalidHeader hv.1))
  | some [] => .error (.err (.invalidHeader hv.1))
  | some [t] =>
    if (isColumn t && !isModelled t) || t == S "fields" then
      .error (.unsupported "column named after a non-setting slot (F22 class)")
    else .ok (aset t (.s hv.2) out)
  | some [a, k] =>
    if a == S "attribute" then mergeAttr out k hv.2
    else .error (.unsupported "grouped header on a scalar setting")
  | some _ => .error (.unsupported "nested grouped header")

def processRow (ks : Keys) : List (Str × Str) → Dict → M Dict
  | [], out => .ok out
  | hv :: r, out =>
    match rowStep ks out hv with
    | .ok out' => processRow ks r out'
    | .error e => .error e

/-- xls2json.py 318-337: both `id_string` and `form_id` headers → `id_string` is popped -/
def popIdString (hdr : List Str) (row : List (Str × Str)) : List Str × List (Str × Str) :=
  if hdr.contains (S "id_string") && hdr.contains (S "form_id") then
    (hdr.filter (· != S "id_string"), row.filter (·.1 != S "id_string"))
  else (hdr, row)

/-! ## `clean_text_values` (settings: no whitespace stripping) -/

def smartQ (c : Char) : Str :=
  match aget [c] (Pyxv.Gen.smartQuotes.map fun p => (p.1.toList, p.2.toList)) with
  | some r => r
  | none => [c]

/-- `RE_SMART_QUOTES.sub(...)` -/
def cleanVal (v : Str) : Str := v.flatMap smartQ

def cleanSV : SVal → SVal
  | .s v => .s (cleanVal v)
  | .d kv => .d kv

def cleanD (st : Dict) : Dict := st.map fun kv => (kv.1, cleanSV kv.2)

/-- `validate_pyxform_reference_syntax` runs the lexer exactly on these values -/
def needsLexer : SVal → Bool
  | .s v => v.length > 2 && isInfix (S "${") v
  | .d _ => false

/-- verdict of `validate_pyxform_reference_syntax` on one cell (`Pyxv.Lexer.refSyntaxOk`, the token
    loop of pyxform_reference.py, including the `name_seen` rule for the empty reference `${}`).
    `none`: outside the fragment — the lexer table is not the pinned one.
    Values of `attribute::x` groups are dicts for `clean_text_values` and are never checked. -/
def refVerdict : SVal → Option Bool
  | .s v =>
    if needsLexer (.s v) then
      Pyxv.Lexer.refSyntaxOk v
    else some true
  | .d _ => some true

/-- `clean_text_values` on the settings row: first failing cell decides -/
def refCheck : Dict → M Unit
  | [] => .ok ()
  | kv :: r =>
    match refVerdict kv.2 with
    | none => .error (.unsupported "lexer outside the pinned fragment")
    | some false => .error (.err .badRef)
    | some true => refCheck r

/-- header row + row 0 of the settings sheet ↦ the cleaned `settings` dict -/
def dealias (hdr : List Str) (row : List (Str × Str)) : M Dict :=
  let p := popIdString hdr row
  let useDC := p.1.any fun h => isInfix (S "::") h
  match buildKeys useDC p.1 {} with
  | .error e => .error e
  | .ok ks =>
    match processRow ks p.2 [] with
    | .error e => .error e
    | .ok out =>
      match refCheck out with
      | .error e => .error e
      | .ok _ => .ok (cleanD out)

/-! ## root dict, `Survey` slots -/

structure Args where
  formName : Option Str := none
  defaultLanguage : Option Str := none
  /-- `DefinitionData.fallback_form_name` (file stem for path input, `None` in memory) -/
  fallback : Option Str := none
deriving DecidableEq, Repr, Inhabited

/-- the default root dict of xls2json.py 359-385 -/
def defaults (st : Dict) (a : Args) : Dict :=
  let formName := a.formName.getD Pyxv.Gen.defaultFormName.toList
  let dl0 := a.defaultLanguage.getD Pyxv.Gen.defaultLanguageValue.toList
  let dl := (aget (S "default_language") st).getD (.s dl0)
  let idString := (aget (S "id_string") st).getD (.s (a.fallback.getD Pyxv.Gen.defaultFormName.toList))
  let sms := (aget (S "sms_keyword") st).getD idString
  [(S "type", .s (S "survey")), (S "name", .s formName), (S "title", idString),
   (S "id_string", idString), (S "sms_keyword", sms), (S "default_language", dl),
   (S "children", .d [])]

/-- `json_dict.update(settings)` (xls2json.py 387) -/
def jsonRoot (st : Dict) (a : Args) : Dict := aupdate (defaults st a) st

/-- a slot whose class default is `""`: overwritten only by a truthy value -/
def slotStr (d : Dict) (k : String) : Str :=
  match aget k.toList d with
  | some (.s v) => v
  | _ => []

/-- a slot whose class default is `None`: overwritten only by a truthy value -/
def slotOpt (d : Dict) (k : String) : Option Str :=
  match aget k.toList d with
  | some (.s (c :: cs)) => some (c :: cs)
  | _ => none

def slotDict (d : Dict) (k : String) : Option (List (Str × Str)) :=
  match aget k.toList d with
  | some (.d (p :: ps)) => some (p :: ps)
  | _ => none

structure Survey where
  name : Str
  title : Str
  idString : Str
  version : Str
  style : Option Str
  autoDelete : Option Str
  autoSend : Option Str
  instanceXmlns : Option Str
  namespaces : Option Str
  publicKey : Option Str
  submissionUrl : Option Str
  delimiter : Option Str
  pfx : Option Str
  attrib : Option (List (Str × Str))
deriving Repr, Inhabited

/-- `Survey(**json_dict)` -/
def surveyOf (jd : Dict) : Survey :=
  { name := slotStr jd "name", title := slotStr jd "title", idString := slotStr jd "id_string",
    version := slotStr jd "version", style := slotOpt jd "style",
    autoDelete := slotOpt jd "auto_delete", autoSend := slotOpt jd "auto_send",
    instanceXmlns := slotOpt jd "instance_xmlns", namespaces := slotOpt jd "namespaces",
    publicKey := slotOpt jd "public_key", submissionUrl := slotOpt jd "submission_url",
    delimiter := slotOpt jd "delimiter", pfx := slotOpt jd "prefix",
    attrib := slotDict jd "attribute" }

/-! ## the header -/

structure Header where
  title : Str
  rootName : Str
  /-- attributes of the primary instance root, in `setAttribute` order -/
  rootAttrs : List (Str × Str)
  submission : Option (List (Str × Str))
  bodyClass : Option Str
  /-- `xmlns…` attributes of `h:html` -/
  nsmap : List (Str × Str)
  instanceID : Bool
  /-- `calculate` of the bind of `meta/instanceName` -/
  instanceName : Option Str
deriving DecidableEq, Repr, Inhabited

/-- minidom `Attr.localName` of an attribute created by `setAttribute(qname)`:
    `nodeName.split(":", 1)[-1]` -/
def localName (k : Str) : Str :=
  match k.dropWhile (· != ':') with
  | [] => k
  | _ :: r => r

/-- minidom `Element.setAttribute` (→ `setAttributeNode`): an attribute with the same qualified name
    is updated in place; otherwise every attribute with the same *(namespaceURI = None, localName)*
    is removed first — `jr:x` and `x` evict each other — and the new one is appended. -/
def domSet (k v : Str) (l : List (Str × Str)) : List (Str × Str) :=
  if (aget k l).isSome then aset k v l
  else (l.filter fun p => localName p.1 != localName k) ++ [(k, v)]

abbrev Setter := Str → Str → List (Str × Str) → List (Str × Str)

def setOpt (set : Setter) (k : String) (v : Option Str) (l : List (Str × Str)) : List (Str × Str) :=
  match v with
  | some x => set k.toList x l
  | none => l

/-- `Survey.xml_instance` (survey.py 714-740) on the slot values, parametrised by the attribute
    setter (`domSet` = what minidom does; `aset` = a plain ordered dict) -/
def rootList (set : Setter) (attrs : List (Str × Str)) (id : Str) (x : Option Str) (ver : Str)
    (p d : Option Str) : List (Str × Str) :=
  let r := attrs.foldl (fun acc kv => set kv.1 kv.2 acc) []
  let r := set (S "id") id r
  let r := setOpt set "xmlns" x r
  let r := if ver.isEmpty then r else set (S "version") ver r
  let r := setOpt set "odk:prefix" p r
  setOpt set "odk:delimiter" d r

def rootAttrsWith (set : Setter) (sv : Survey) : List (Str × Str) :=
  rootList set (sv.attrib.getD []) sv.idString sv.instanceXmlns sv.version sv.pfx sv.delimiter

def rootAttrsOf (sv : Survey) : List (Str × Str) := rootAttrsWith domSet sv

/-- `Survey.xml_model` (survey.py 690-704).  The five attribute names have pairwise distinct local
    names, so minidom's `setAttribute` is a plain dict assignment here. -/
def subList (u p s d : Option Str) : Option (List (Str × Str)) :=
  if u.isSome || p.isSome || s.isSome || d.isSome then
    let r := match u with
      | some x => aset (S "method") (S "post") (aset (S "action") x [])
      | none => []
    let r := setOpt aset "base64RsaPublicKey" p r
    let r := setOpt aset "orx:auto-send" s r
    some (setOpt aset "orx:auto-delete" d r)
  else none

def submissionOf (sv : Survey) : Option (List (Str × Str)) :=
  subList sv.submissionUrl sv.publicKey sv.autoSend sv.autoDelete

def nsmapBase : List (Str × Str) := Pyxv.Gen.nsmap.map fun p => (p.1.toList, p.2.toList)

/-- `[ns.split("=") for ns in namespaces.split() if len(ns.split("=")) == 2 and ns.split("=")[0] != ""]` -/
def nsList (ns : Str) : List (Str × Str) :=
  (splitWs ns).filterMap fun w =>
    match splitOnChar '=' w with
    | [k, v] => if k.isEmpty then none else some (k, v)
    | _ => none

def dropQuotes (v : Str) : Str := v.filter fun c => c != '"' && c != '\''

/-- the dict comprehension of `get_nsmap` -/
def nsExtra (ns : Str) : List (Str × Str) :=
  aupdate [] (((nsList ns).map fun kv => (S "xmlns:" ++ kv.1, dropQuotes kv.2)).filter
    fun kv => (aget kv.1 nsmapBase).isNone)

/-- `Survey.get_nsmap` without entities (survey.py 309-334) -/
def nsmapOfNs : Option Str → List (Str × Str)
  | some ns => aupdate nsmapBase (nsExtra ns)
  | none => nsmapBase

def nsmapOf (sv : Survey) : List (Str × Str) := nsmapOfNs sv.namespaces

/-- prefixes whose `xmlns:p` attribute would collide (minidom local names) with another declaration -/
def nsTricky (sv : Survey) : Bool :=
  match sv.namespaces with
  | some ns => (nsList ns).any fun kv => kv.1 == S "xmlns" || kv.1.contains ':'
  | none => false

def truthy : Option SVal → Bool
  | some (.s (_ :: _)) => true
  | some (.d (_ :: _)) => true
  | _ => false

/-- `aliases.yes_no.get(settings.get("omit_instanceID"))` is truthy -/
def omits (st : Dict) : Bool :=
  match aget (S "omit_instanceID") st with
  | some (.s v) => Pyxv.Rows.yesNoTrue v
  | _ => false

/-- BINDING_CONVERSIONS applied to a `calculate` (survey_element.py 566-571) -/
def bindConv (v : Str) : Str :=
  match aget v (Pyxv.Gen.bindingConversions.map fun p => (p.1.toList, p.2.toList)) with
  | some r => r
  | none => v

def instanceNameOf (st : Dict) : Option Str :=
  match aget (S "instance_name") st with
  | some (.s v) => some (bindConv v)
  | some (.d _) => some []
  | none => none

/-- the header of an accepted form -/
def headerOf (st : Dict) (a : Args) : Header :=
  let sv := surveyOf (jsonRoot st a)
  { title := sv.title, rootName := sv.name, rootAttrs := rootAttrsOf sv,
    submission := submissionOf sv, bodyClass := sv.style, nsmap := nsmapOf sv,
    instanceID := !omits st, instanceName := instanceNameOf st }

/-! ## `utils.validate_xml_document` on the header -/

/-- XML 1.0 `Char` -/
def xmlChar (c : Char) : Bool :=
  let n := c.toNat
  n == 9 || n == 10 || n == 13 || (0x20 ≤ n && n ≤ 0xD7FF) || (0xE000 ≤ n && n ≤ 0xFFFD) || 0x10000 ≤ n

def xmlText (v : Str) : Bool := v.all xmlChar

/-- prefix of a qualified name (`name.partition(":")`) -/
def prefixOf (k : Str) : Option Str :=
  if k.contains ':' then some (k.takeWhile (· != ':')) else none

/-- prefixes declared by `xmlns:p` attributes -/
def declaredBy (attrs : List (Str × Str)) : List Str :=
  attrs.filterMap fun kv => if startsWith kv.1 (S "xmlns:") then some (kv.1.drop 6) else none

/-- `_validate_xml_name` -/
def xmlNameOk (declared : List Str) (k : Str) : Bool :=
  Pyxv.Rows.isXmlTag k &&
  (match prefixOf k with
   | some p => p == S "xml" || p == S "xmlns" || declared.contains p
   | none => true)

/-- `_validate_xml_name(..., kind="element")`: additionally the prefix `xmlns` is reserved for
    declarations -/
def xmlElemNameOk (declared : List Str) (k : Str) : Bool :=
  xmlNameOk declared k && prefixOf k != some (S "xmlns")

/-- `XML_RESERVED_NAMESPACES` (regenerated; empty on a tree without the reserved-names check) -/
def reservedNs (v : Str) : Bool := Pyxv.Gen.xmlReservedNamespaces.any fun r => r.toList == v

/-- a legal `xmlns="uri"` / `xmlns:p="uri"`: not a reserved namespace name; with a prefix, the URI is
    non-empty and the prefix is not `xml` / `xmlns` -/
def nsDeclOk (kv : Str × Str) : Bool :=
  !((kv.1 == S "xmlns" || startsWith kv.1 (S "xmlns:")) && reservedNs kv.2) &&
  (!startsWith kv.1 (S "xmlns:") || (!kv.2.isEmpty && kv.1.drop 6 != S "xml" && kv.1.drop 6 != S "xmlns"))

def attrsOk (declared : List Str) (attrs : List (Str × Str)) : Bool :=
  attrs.all fun kv => xmlNameOk declared kv.1 && xmlText kv.2

/-- the parts of `validate_xml_document` that the header decides (the survey part of the document is
    kept valid by the generator) -/
def Header.xmlOk (h : Header) : Bool :=
  let d := declaredBy h.nsmap
  -- the root's own `xmlns:p` attributes (`attribute::xmlns:p`) are in scope for its name and attributes
  let dr := d ++ declaredBy h.rootAttrs
  h.nsmap.all nsDeclOk && attrsOk d h.nsmap && xmlText h.title &&
  xmlElemNameOk dr h.rootName && attrsOk dr h.rootAttrs && h.rootAttrs.all nsDeclOk &&
  (match h.submission with | some l => attrsOk d l | none => true) &&
  (match h.bodyClass with | some c => xmlText c | none => true) &&
  (match h.instanceName with | some c => xmlText c | none => true)

/-- `${…}` inside `instance_name` is substituted by `insert_xpaths` (C03's subject): outside the fragment -/
def headerTricky (st : Dict) (_h : Header) : Bool :=
  match aget (S "instance_name") st with
  | some (.s v) => isInfix (S "${") v
  | _ => false

/-- cleaned settings dict + arguments ↦ header (or the error the code raises) -/
def header (st : Dict) (a : Args) : M Header :=
  if omits st && truthy (aget (S "public_key") st) then .error (.err .omitWithKey) else
  if (surveyOf (jsonRoot st a)).idString == S "None" then .error (.err .emptyId) else
  if !Pyxv.Rows.isXmlTag (surveyOf (jsonRoot st a)).name then
    .error (.err (.badName (surveyOf (jsonRoot st a)).name)) else
  if nsTricky (surveyOf (jsonRoot st a)) || headerTricky st (headerOf st a) then
    .error (.unsupported "namespace prefix `xmlns` / with a colon in `namespaces`, or ${ in instance_name") else
  if !(headerOf st a).xmlOk then .error (.err .xmlInvalid) else
  .ok (headerOf st a)

/-- the whole modelled path: settings header row + row 0 + arguments ↦ header.
    `sheet = none`: no settings sheet (or one without data rows). -/
def model (sheet : Option (List Str × List (Str × Str))) (a : Args) : M Header :=
  match sheet with
  | none => header [] a
  | some (hdr, row) =>
    match dealias hdr row with
    | .ok st => header st a
    | .error e => .error e

end Pyxv.Settings
