import Pyxv.Model.Base
import Pyxv.Model.Lexer
/-!
# Defaults and triggered calculations (property C10)

Mirrors, on an element tree (questions / groups / repeats, as built by `builder.py` from the JSON
that `xls2json.workbook_to_json` produces):

* `Question.xml_instance` (question.py 136-145): static default → node text, otherwise empty node;
* `Section.xml_instance` with its `append_template` toggle, `generate_repeating_template`,
  `RepeatingSection.template_instance` (section.py 110-153, 231-232): which copies of a question's
  node exist (instance, `jr:template` copies, copies inside a template's groups);
* `SurveyElement.get_setvalue_node_for_dynamic_default` (survey_element.py 467-486),
  `Survey.xml_descendent_bindings` (survey.py 649-665: setvalue in `<model>` for elements without a
  repeat ancestor) and `RepeatingSection._dynamic_defaults_helper` / `xml_control`
  (section.py 176-227: setvalues of a repeat's non-repeat descendants appended to `<repeat>`);
* `builder._save_trigger` (builder.py 119-129) — the two tables `setvalues_by_triggering_ref`,
  `setgeopoint_by_triggering_ref`, here ONE document-ordered list of entries with a `geo` flag
  (a Python dict of lists read with `.get(key)` = the entries with that key, in insertion order);
* `Survey.get_trigger_values_for_question_name` (survey.py 365-369: lookup by the exact string
  `${name}`), `Question.xml_control` + `nest_set_nodes` (question.py 147-206), the "not
  user-visible" error, `xml_label_and_hint`'s "has no label or hint" error;
* `SurveyElement.xml_bindings` (survey_element.py 560-563: `calculate` skipped when `trigger` is set);
* `Survey.xml` (survey.py 343-351: every key of `setvalues_by_triggering_ref` must contain a
  `${…}` and every reference in it must resolve);
* `xls2json` row checks that decide whether such a form is accepted at all: "Missing calculation"
  (xls2json.py 752-760), `validate_background_geopoint_trigger/_calculation`, `validate_references`
  (validators/pyxform/question_types.py).

Parameters of the model (instantiated in `OpsDefaults.lean`):
`dyn d` = `default_is_dynamic(d.default, d.type)` (the lexer, `Pyxv.Lexer`), `sub ctx text` =
`survey.insert_xpaths(text, context)` (reference substitution is property C03's mechanism).
-/
namespace Pyxv.Defaults
open Pyxv

/-- a question as the builder sees it -/
structure Q where
  name : Str
  /-- `self.type` (type-table key) -/
  type : Str
  /-- `default` cell (`[]` = none; falsy either way) -/
  default : Str := []
  /-- `bind["calculate"]` (`[]` = absent) -/
  calcu : Str := []
  /-- `trigger` cell as stored by xls2json (already stripped; `[]` = absent) -/
  trigger : Str := []
  /-- `self.label or self.hint` is truthy -/
  labelled : Bool := true
  /-- `build_xml` returns a node (control tag of the type has a class with a control) -/
  hasCtl : Bool := true
  /-- control element name -/
  tag : Str := "input".toList
  /-- `self.bind` is not `None`: the type-table entry has a `bind` or the row has a bind column (the plain
      `trigger` type without logic columns is the one control type that has none) -/
  hasBind : Bool := true
deriving Repr, DecidableEq, Inhabited

inductive El where
  | q (d : Q)
  | grp (name : Str) (kids : List El)
  | rep (name : Str) (kids : List El)
deriving Repr, Inhabited

abbrev Path := List Str

/-! ## primary instance -/

/-- instance node: name, `jr:template` mark, text, children -/
inductive IT where
  | node (name : Str) (tmpl : Bool) (text : Str) (kids : List IT)
deriving Repr, Inhabited

section
variable (dyn : Q → Bool) (sub : Path → Str → Str)

/-- the text `Question.xml_instance` writes -/
def instText (d : Q) : Str := if !d.default.isEmpty && !dyn d then d.default else []

def qNode (d : Q) : IT := .node d.name false (instText dyn d) []

mutual
/-- children of `Section.xml_instance(append_template := app)` -/
def instKids (app : Bool) : List El → List IT
  | [] => []
  | .q d :: rest => qNode dyn d :: instKids app rest
  | .rep n ks :: rest =>
    if app then IT.node n false [] (instKids true ks) :: instKids true rest
    else IT.node n true [] (tmplKids ks) :: IT.node n false [] (instKids true ks) :: instKids false rest
  | .grp n ks :: rest => IT.node n false [] (instKids app ks) :: instKids app rest
/-- children of `generate_repeating_template` (a group inside a template restarts with
    `append_template = False`: a repeat below it gets template *and* instance copies) -/
def tmplKids : List El → List IT
  | [] => []
  | .q d :: rest => qNode dyn d :: tmplKids rest
  | .rep n ks :: rest => IT.node n true [] (tmplKids ks) :: tmplKids rest
  | .grp n ks :: rest => IT.node n false [] (instKids false ks) :: tmplKids rest
end

/-! ## setvalue actions -/

/-- a `<setvalue>` / `<odk:setgeopoint>` element -/
structure SetV where
  tag : Str
  ref : Path
  event : Str
  value : Option Str
deriving Repr, DecidableEq, Inhabited

def evFirstLoad : Str := "odk-instance-first-load".toList
def evNewRepeat : Str := "odk-instance-first-load odk-new-repeat".toList
def evChanged : Str := "xforms-value-changed".toList

def hasDynDefault (d : Q) : Bool := !d.default.isEmpty && dyn d

/-- `get_setvalue_node_for_dynamic_default(in_repeat)`: `[]` = `None` -/
def dynSet (pre : Path) (inRepeat : Bool) (d : Q) : List SetV :=
  if hasDynDefault dyn d then
    [{ tag := "setvalue".toList, ref := pre ++ [d.name],
       event := if inRepeat then evNewRepeat else evFirstLoad,
       value := some (sub (pre ++ [d.name]) d.default) }]
  else []

/-- `xml_descendent_bindings`: setvalues placed in `<model>` (elements without a repeat ancestor) -/
def modelSets (pre : Path) : List El → List SetV
  | [] => []
  | .q d :: rest => dynSet dyn sub pre false d ++ modelSets pre rest
  | .grp n ks :: rest => modelSets (pre ++ [n]) ks ++ modelSets pre rest
  | .rep _ _ :: rest => modelSets pre rest

/-- `_dynamic_defaults_helper(current)`: setvalues of the non-repeat descendants -/
def helperSets (pre : Path) : List El → List SetV
  | [] => []
  | .q d :: rest => dynSet dyn sub pre true d ++ helperSets pre rest
  | .grp n ks :: rest => helperSets (pre ++ [n]) ks ++ helperSets pre rest
  | .rep _ _ :: rest => helperSets pre rest

/-! ## triggers -/

/-- one `(target, value)` tuple saved under a triggering reference -/
structure Trig where
  key : Str
  target : Str
  value : Str
  geo : Bool
deriving Repr, DecidableEq, Inhabited

/-- `_save_trigger` for one question -/
def saveTrigger (d : Q) : List Trig :=
  if d.trigger.isEmpty then []
  else [{ key := strip d.trigger, target := d.name, value := d.calcu,
          geo := d.type == "background-geopoint".toList }]

/-- the builder visits the tree in document order -/
def trigTable : List El → List Trig
  | [] => []
  | .q d :: rest => saveTrigger d ++ trigTable rest
  | .grp _ ks :: rest => trigTable ks ++ trigTable rest
  | .rep _ ks :: rest => trigTable ks ++ trigTable rest

/-- the key `get_trigger_values_for_question_name` looks up: f"${{{name}}}" -/
def refOf (name : Str) : Str := '$' :: '{' :: name ++ ['}']

/-- `.get("${name}")` on the setvalue (`geo = false`) or setgeopoint (`geo = true`) table -/
def triggered (tbl : List Trig) (name : Str) (geo : Bool) : List Trig :=
  tbl.filter fun t => t.key == refOf name && t.geo == geo

/-- `Question.xml_control`'s first branch: no control for this question -/
def hiddenQ (d : Q) : Bool :=
  d.type == "calculate".toList || ((!d.calcu.isEmpty || !d.trigger.isEmpty) && !d.labelled)

/-- does the question render a body control? -/
def shown (d : Q) : Bool := !hiddenQ d && d.hasCtl

variable (paths : Str → Path)

/-- `nest_set_nodes`: `ref` = absolute path of the target, `value` only when truthy, resolved in the
    context of the TARGET question (`survey._xpath.get(item[0])`: XForms evaluates the value from the
    `ref` node) -/
def nestSets (tag : String) (items : List Trig) : List SetV :=
  items.map fun t =>
    { tag := tag.toList, ref := paths t.target, event := evChanged,
      value := if t.value.isEmpty then none else some (sub (paths t.target) t.value) }

/-- body controls -/
inductive Body where
  /-- a question's control and the set-nodes nested in it -/
  | ctl (tag : Str) (ref : Path) (sets : List SetV)
  | group (ref : Path) (kids : List Body)
  /-- `<group ref><repeat nodeset> kids… setvalues… </repeat></group>` -/
  | rep (ref : Path) (kids : List Body) (sets : List SetV)
deriving Repr, Inhabited

def qCtl (tbl : List Trig) (pre : Path) (d : Q) : List Body :=
  if shown d then
    [.ctl d.tag (pre ++ [d.name])
      (nestSets sub paths "setvalue" (triggered tbl d.name false) ++
       nestSets sub paths "odk:setgeopoint" (triggered tbl d.name true))]
  else []

/-- `Section.xml_control` / `RepeatingSection.xml_control` / `GroupedSection.xml_control` -/
def body (tbl : List Trig) (pre : Path) : List El → List Body
  | [] => []
  | .q d :: rest => qCtl sub paths tbl pre d ++ body tbl pre rest
  | .grp n ks :: rest => .group (pre ++ [n]) (body tbl (pre ++ [n]) ks) :: body tbl pre rest
  | .rep n ks :: rest =>
    .rep (pre ++ [n]) (body tbl (pre ++ [n]) ks) (helperSets dyn sub (pre ++ [n]) ks) :: body tbl pre rest

/-- `<bind>` of a question: nodeset and `calculate` (omitted when a trigger is set); no `<bind>` at all when
    the question has no bind dict (`xml_bindings` returns early, survey_element.py 551-553) -/
structure Bind where
  path : Path
  calculate : Option Str
deriving Repr, DecidableEq, Inhabited

/-- `xml_bindings` (survey_element.py 565-571): a `calculate` whose text is a key of `aliases.BINDING_CONVERSIONS`
    (the yes / no / true / false spellings) is written as `true()` / `false()` — `calculate` being one of
    `constants.CONVERTIBLE_BIND_ATTRIBUTES` -/
def bindConv (v : Str) : Str :=
  if Pyxv.Gen.convertibleBindAttributes.contains "calculate" then
    match Pyxv.Gen.bindingConversions.find? (fun p => p.1.toList == v) with
    | some p => p.2.toList
    | none => v
  else v

def qBind (pre : Path) (d : Q) : Bind :=
  { path := pre ++ [d.name],
    calculate := if !d.trigger.isEmpty || d.calcu.isEmpty then none
                 else some (sub (pre ++ [d.name]) (bindConv d.calcu)) }

def binds (pre : Path) : List El → List Bind
  | [] => []
  | .q d :: rest => (if d.hasBind then [qBind sub pre d] else []) ++ binds pre rest
  | .grp n ks :: rest => binds (pre ++ [n]) ks ++ binds pre rest
  | .rep n ks :: rest => binds (pre ++ [n]) ks ++ binds pre rest

end

/-! ## acceptance (the errors that decide whether such a form converts at all) -/

inductive Err where
  | missingCalculation (name : Str)
  | geoTrigger (name : Str)
  | geoCalculation (name : Str)
  | triggerNoRef (key : Str)
  | unknownRef (name : Str)
  | hiddenTrigger (trigger target : Str)
  | noLabel (name : Str)
  | unusableTrigger (key : Str)
  | unsupported (why : String)
deriving Repr, DecidableEq, Inhabited

def questions : List El → List Q
  | [] => []
  | .q d :: rest => d :: questions rest
  | .grp _ ks :: rest => questions ks ++ questions rest
  | .rep _ ks :: rest => questions ks ++ questions rest

/-- names of all elements (questions and sections), document order -/
def allNames : List El → List Str
  | [] => []
  | .q d :: rest => d.name :: allNames rest
  | .grp n ks :: rest => n :: (allNames ks ++ allNames rest)
  | .rep n ks :: rest => n :: (allNames ks ++ allNames rest)

/-- names inside `${…}` of `BRACKETED_TAG_REGEX` = `\${(last-saved#)?(.*?)}`, left to right; a `${`
    without a closing `}` on the same line is skipped -/
def refNames : Nat → Str → List Str
  | 0, _ => []
  | _, [] => []
  | f + 1, '$' :: '{' :: r =>
    let nm := r.takeWhile fun c => c != '}' && c != '\n'
    match r.drop nm.length with
    | '}' :: r2 => nm :: refNames f r2
    | _ => refNames f ('{' :: r)
  | f + 1, _ :: r => refNames f r

def refsOf (s : Str) : List Str := refNames (s.length + 1) s

def firstErr {α} (f : α → Option Err) : List α → Option Err
  | [] => none
  | a :: as => match f a with | some e => some e | none => firstErr f as

/-- `expression.is_pyxform_reference` (`len > 3` and `^PYXFORM_REF$`) -/
def isPlainRef (s : Str) : Bool := s.length > 3 && Lexer.mPyxformRef s == some []

section
variable (dyn : Q → Bool)

/-- row-level checks of `workbook_to_json` -/
def rowErr (d : Q) : Option Err :=
  if d.type == "calculate".toList && d.calcu.isEmpty && !(!d.default.isEmpty && dyn d) then
    some (.missingCalculation d.name)
  else if d.type == "background-geopoint".toList then
    if d.trigger.isEmpty || !isPlainRef d.trigger then some (.geoTrigger d.name)
    else if !d.calcu.isEmpty then some (.geoCalculation d.name)
    else none
  else none

/-- `validate_references`: a background-geopoint's `${name}` must be a question name -/
def geoRefErr (qnames : List Str) (d : Q) : Option Err :=
  if d.type == "background-geopoint".toList && !qnames.contains ((d.trigger.drop 2).dropLast) then
    some (.geoTrigger d.name)
  else none

/-- `Survey.xml`: keys of `setvalues_by_triggering_ref` -/
def keyErr (names : List Str) (t : Trig) : Option Err :=
  if t.geo then none
  else if (refsOf t.key).isEmpty then some (.triggerNoRef t.key)
  else firstErr (fun n => if names.contains n then none else some (.unknownRef n)) (refsOf t.key)

/-- a default that becomes a setvalue is passed through `insert_xpaths` -/
def defaultRefErr (names : List Str) (d : Q) : Option Err :=
  if !d.default.isEmpty && dyn d then
    firstErr (fun n => if names.contains n then none else some (.unknownRef n)) (refsOf d.default)
  else none

/-- references in calculations (bind or nested setvalue) must resolve -/
def calcRefErr (names : List Str) (d : Q) : Option Err :=
  firstErr (fun n => if names.contains n then none else some (.unknownRef n)) (refsOf d.calcu)

/-- `Question.xml_control`: a hidden question must not be a setvalue trigger; a shown one needs a label or hint -/
def ctlErr (tbl : List Trig) (d : Q) : Option Err :=
  if hiddenQ d then
    match triggered tbl d.name false with
    | t :: _ => some (.hiddenTrigger d.name t.target)
    | [] => none
  else if d.hasCtl && !d.labelled then some (.noLabel d.name)
  else none

def hasDup : List Str → Bool
  | [] => false
  | a :: as => as.contains a || hasDup as

/-- `Survey._is_usable_trigger` (survey.py, the F8 repair): a trigger must be
    exactly `${t}` for a question `t` that renders a control (a hidden `t` with setvalues attached is
    left to `ctlErr`) -/
def usableErr (qs : List Q) (tbl : List Trig) (e : Trig) : Option Err :=
  match qs.find? (fun t => refOf t.name == e.key) with
  | none => some (.unusableTrigger e.key)
  | some t =>
    if hiddenQ t then (if (triggered tbl t.name false).isEmpty then some (.unusableTrigger e.key) else none)
    else if t.hasCtl then none else some (.unusableTrigger e.key)

/-- all checks, in the order the implementation meets them (only acceptance is compared) -/
def check (els : List El) : Option Err :=
  let qs := questions els
  let names := allNames els
  let tbl := trigTable els
  if hasDup names then some (.unsupported "duplicate element names")
  else if qs.any (fun d => [d.default, d.calcu, d.trigger].any fun c =>
      isInfix "last-saved#".toList c || isInfix "indexed-repeat(".toList c || isInfix "instance(".toList c) then
    some (.unsupported "last-saved / indexed-repeat / instance()")
  else
  match firstErr (rowErr dyn) qs with
  | some e => some e
  | none =>
  match firstErr (geoRefErr (qs.map (·.name))) qs with
  | some e => some e
  | none =>
  match firstErr (keyErr names) tbl with
  | some e => some e
  | none =>
  match firstErr (usableErr qs tbl) tbl with
  | some e => some e
  | none =>
  match firstErr (fun d => (defaultRefErr dyn names d).orElse fun _ => calcRefErr names d) qs with
  | some e => some e
  | none => firstErr (ctlErr tbl) qs

end

/-! ## `xls2json`: the default of a `photo` question (xls2json.py 213-218, 1233-1237) -/

def imagePrefix : Str := "jr://images/".toList

/-- `process_image_default`: prefix the file name unless the cell already mentions `jr://images/` -/
def processImageDefault (v : Str) : Str := if isInfix imagePrefix v then v else imagePrefix ++ v

/-- what `workbook_to_json` stores for one question row (`if question_type == "photo"` … `if row.get("default")`) -/
def prepQ (d : Q) : Q :=
  if d.type == "photo".toList && !d.default.isEmpty then { d with default := processImageDefault d.default } else d

def prep : List El → List El
  | [] => []
  | .q d :: rest => .q (prepQ d) :: prep rest
  | .grp n ks :: rest => .grp n (prep ks) :: prep rest
  | .rep n ks :: rest => .rep n (prep ks) :: prep rest

/-! ## the whole mechanism -/

structure Out where
  inst : IT
  modelSets : List SetV
  binds : List Bind
  body : List Body
deriving Repr, Inhabited

/-- absolute path of every question (for `ref` of nested set-nodes: `insert_xpaths("${target}", survey)`) -/
def qPaths (pre : Path) : List El → List (Str × Path)
  | [] => []
  | .q d :: rest => (d.name, pre ++ [d.name]) :: qPaths pre rest
  | .grp n ks :: rest => (n, pre ++ [n]) :: (qPaths (pre ++ [n]) ks ++ qPaths pre rest)
  | .rep n ks :: rest => (n, pre ++ [n]) :: (qPaths (pre ++ [n]) ks ++ qPaths pre rest)

def pathOf (tbl : List (Str × Path)) (name : Str) : Path := (lookup name tbl).getD []

/-- generation (total; `check` decides acceptance separately) -/
def gen (dyn : Q → Bool) (sub : Path → Str → Str) (root : Str) (els : List El) : Out :=
  let tbl := trigTable els
  let paths := pathOf (qPaths [root] els)
  { inst := .node root false [] (instKids dyn false els),
    modelSets := modelSets dyn sub [root] els,
    binds := binds sub [root] els,
    body := body dyn sub paths tbl [root] els }

def run (dyn : Q → Bool) (sub : Path → Str → Str) (root : Str) (els : List El) : Except Err Out :=
  match check dyn els with
  | some e => .error e
  | none => .ok (gen dyn sub root els)

/-- from the rows' cells: `xls2json` stage (`prep`), then the element tree's mechanism -/
def runSheet (dyn : Q → Bool) (sub : Path → Str → Str) (root : Str) (els : List El) : Except Err Out :=
  run dyn sub root (prep els)

/-! ## observation: what property C10 talks about, read off an output -/

/-- leaves of the instance: (path, inside a template?, text) -/
structure Leaf where
  path : Path
  tmpl : Bool
  text : Str
deriving Repr, DecidableEq, Inhabited

mutual
def leaves (pre : Path) (inT : Bool) : IT → List Leaf
  | .node n t txt ks =>
    match ks with
    | [] => [{ path := pre ++ [n], tmpl := inT || t, text := txt }]
    | k :: ks' => leavesL (pre ++ [n]) (inT || t) (k :: ks')
def leavesL (pre : Path) (inT : Bool) : List IT → List Leaf
  | [] => []
  | k :: ks => leaves pre inT k ++ leavesL pre inT ks
end

/-- a first-load setvalue with its location: `none` = `<model>`, `some r` = inside `<repeat nodeset=r>` -/
structure SetFact where
  loc : Option Path
  set : SetV
deriving Repr, DecidableEq, Inhabited

/-- a set-node nested in a control -/
structure TrigFact where
  ctl : Path
  set : SetV
deriving Repr, DecidableEq, Inhabited

mutual
def bodySets : Body → List SetFact
  | .ctl _ _ _ => []
  | .group _ ks => bodySetsL ks
  | .rep r ks sets => bodySetsL ks ++ sets.map fun s => { loc := some r, set := s }
def bodySetsL : List Body → List SetFact
  | [] => []
  | b :: bs => bodySets b ++ bodySetsL bs
end

mutual
def bodyTrigs : Body → List TrigFact
  | .ctl _ r sets => sets.map fun s => { ctl := r, set := s }
  | .group _ ks => bodyTrigsL ks
  | .rep _ ks _ => bodyTrigsL ks
def bodyTrigsL : List Body → List TrigFact
  | [] => []
  | b :: bs => bodyTrigs b ++ bodyTrigsL bs
end

/-- all first-load setvalues of an output with their location -/
def setFacts (o : Out) : List SetFact :=
  (o.modelSets.map fun s => { loc := none, set := s }) ++ bodySetsL o.body

def trigFacts (o : Out) : List TrigFact := bodyTrigsL o.body

end Pyxv.Defaults
