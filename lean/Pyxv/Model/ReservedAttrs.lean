import Pyxv.Model.Rows
/-!
# C17: attributes that pyxform sets itself — `action::ref`, `body::ref`, `body::nodeset` (spec addition; no driver op)

Mirrors the guards added by 00e7042 and f98d556:
* `Question.xml_action` (question.py 186-200): an element with an `action` dict (type-table action, e.g.
  `background-audio`) whose dict has the key `ref` → "Invalid action attribute for '<name>': 'ref' is set by pyxform."
  Actions are generated with the model (`Survey.xml_actions`, document order), i.e. before any body control.
* `Question` body control (question.py 220-235): a question that renders a control and whose `control` dict has the key
  `ref` → "Invalid body attribute for '<name>': 'ref' is set by pyxform."
* `RepeatingSection.xml_control` (section.py 199-207): `nodeset`, then `ref`, in the repeat's `control` dict.
  Groups drop both keys silently (ce2cfa5), questions without a control never look at their control dict.
`body::x` columns are the `control::x` cells of `Pyxv.Rows` (header alias `body` → `control`).
-/
namespace Pyxv.Reserved
open Pyxv Pyxv.Form Pyxv.Rows

inductive Kind where
  /-- a question; `control`: it renders a body control -/
  | question (control : Bool)
  | group
  | rep
  | other
deriving DecidableEq, Repr

/-- what the two generators see of one survey row -/
structure View where
  name : Str
  kind : Kind
  /-- the element has an `action` dict -/
  hasAction : Bool
  actionRef : Bool      -- `action::ref` cell
  bodyRef : Bool        -- `body::ref` / `control::ref` cell
  bodyNodeset : Bool    -- `body::nodeset` / `control::nodeset` cell
deriving Repr

inductive Err where
  | action (name : Str) (attr : String)
  | body (name : Str) (attr : String)
deriving DecidableEq, Repr

def actionOffender (v : View) : Option Err :=
  if v.hasAction && v.actionRef then some (.action v.name "ref") else none

def bodyOffender (v : View) : Option Err :=
  match v.kind with
  | .question true => if v.bodyRef then some (.body v.name "ref") else none
  | .rep => if v.bodyNodeset then some (.body v.name "nodeset") else if v.bodyRef then some (.body v.name "ref") else none
  | _ => none

/-- model generation first (every action, document order), body generation second -/
def check (vs : List View) : Option Err :=
  match vs.findSome? actionOffender with
  | some e => some e
  | none => vs.findSome? bodyOffender

/-- the view of a classified row of `Pyxv.Rows` -/
def viewOf (r : Cells) : RowK → View
  | .q d _ =>
    { name := d.name, kind := .question d.control,
      hasAction := (match get r "type" with
        | some t => (match typeEntry t with | some e => entryHas e "action" | none => false)
        | none => false),
      actionRef := has r "action::ref", bodyRef := has r "control::ref", bodyNodeset := has r "control::nodeset" }
  | .begin_ ct name _ _ =>
    { name := name, kind := (match ct with | .rep => .rep | _ => .group), hasAction := false,
      actionRef := has r "action::ref", bodyRef := has r "control::ref", bodyNodeset := has r "control::nodeset" }
  | _ => { name := [], kind := .other, hasAction := false, actionRef := false, bodyRef := false, bodyNodeset := false }

end Pyxv.Reserved
