import Pyxv.Model.OpsItextOutput
import Pyxv.Model.ItextOutputRepeat
/-! Driver operation `itext.doms.rep`: the DOM level of the itext model with repeat contexts (C07). -/
namespace Pyxv.ItextOut
open Lean Pyxv Pyxv.Itext Pyxv.Xml

def opsItextOutRep (op : String) (j : Json) : Option (Except String Json) :=
  match op with
  | "itext.doms.rep" => some do
      let x ← surveyOfJson (← j.getObjVal? "survey")
      match run x with
      | .ok _ =>
        pure (Json.mkObj [("outcome", "ok"),
          ("translations", Json.arr ((outDomsR x).map fun lt =>
            Json.mkObj [("lang", jstr lt.1),
              ("texts", Json.arr (lt.2.map fun td =>
                Json.mkObj [("id", jstr td.1), ("stated", Json.bool (stated x td.1)),
                  ("ctx", match ctxOf x td.1 with | some c => jstr c.xpath | none => Json.null),
                  ("values", Json.arr (td.2.map fun fv =>
                    Json.mkObj [("form", match fv.1 with | some f => jstr f | none => Json.null),
                                ("dom", domToJson fv.2)]).toArray)]).toArray)]).toArray)])
      | .error _ => pure (Json.mkObj [("outcome", "error")])
      | .unsupported w => pure (Json.mkObj [("outcome", "unsupported"), ("why", Json.str w)])
  | _ => none

end Pyxv.ItextOut
