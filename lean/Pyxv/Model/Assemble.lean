import Pyxv.Model.Xml
import Pyxv.Generated.Tables
import Pyxv.Model.Rows
/-!
# Document assembly: `Survey.xml()`, `get_nsmap`, `xml_model`, `xml_instance`

The part of pyxform that puts the XForm *frame* together (pyxform/survey.py):

* `Survey.get_nsmap` (309-334)    → `getNsmap`
* `Survey.xml` (336-362)          → `assemble`
* `Survey.xml_model` (676-715)    → `modelAttrs`, `submissionNode`, `modelKids`
* `Survey.xml_instance` (717-740) → `rootAttrs`
* `utils.node` (99-148), restricted to the calls made by the four functions above
  (keyword attributes → `setAttribute` in order; one `str` argument → one `PatchedText` child)

The pieces produced by the rest of the compiler (itext children, the children of the primary
instance root, secondary instances / binds / actions, body controls) are *parameters* of
`assemble`: opaque node lists.  The theorems (Pyxv/Proofs/C01.lean) say what the assembled
document looks like to an XML reader for every value of these parameters.

`Skeleton`, the decidable specification of the ODK XForm skeleton on a parsed document, is at
the end; it is what the check evaluates on the implementation's output.
-/
namespace Pyxv.Asm
open Pyxv.Xml

/-! ## Python dict / str helpers -/

/-- Python `d[k] = v` on an insertion-ordered dict (also `Element.setAttribute`: an existing
    attribute keeps its position and gets the new value) -/
def dictSet : List (Str × Str) → Str → Str → List (Str × Str)
  | [], k, v => [(k, v)]
  | (k', v') :: rest, k, v => if k' = k then (k', v) :: rest else (k', v') :: dictSet rest k v

/-- `for k, v in upd: d[k] = v` -/
def dictUpdate (d upd : List (Str × Str)) : List (Str × Str) :=
  upd.foldl (fun acc kv => dictSet acc kv.1 kv.2) d

/-- `Attr.localName` of an attribute created by `Element.setAttribute(name, …)` (minidom.py:370-374):
    `name.split(":", 1)[-1]`, the part after the *first* colon -/
def attrLocal : Str → Str
  | [] => []
  | c :: cs => if c = ':' then cs else if cs.contains ':' then attrLocal cs else c :: cs

/-- `xml.dom.minidom.Element.setAttribute(k, v)` (minidom.py:747-757, 786-796, 421-429) on the
    ordered attribute dict `_attrs`: an attribute of that name keeps its place and gets the value;
    otherwise an attribute with the same *local name* (`_attrsNS[(None, localName)]`) is removed
    — `foo` evicts `odk:foo` and vice versa — and the new one is appended. -/
def setAttr (d : List (Str × Str)) (k v : Str) : List (Str × Str) :=
  if d.any (fun kv => kv.1 == k) then d.map fun kv => if kv.1 = k then (kv.1, v) else kv
  else d.filter (fun kv => attrLocal kv.1 != attrLocal k) ++ [(k, v)]

/-- `for k, v in kwargs.items(): result.setAttribute(k, v)` -/
def setAttrs (d upd : List (Str × Str)) : List (Str × Str) :=
  upd.foldl (fun acc kv => setAttr acc kv.1 kv.2) d

/-- fields of `s.split(<white space>)` *including* empty ones -/
def splitWsAll : Str → List Str
  | [] => [[]]
  | c :: cs =>
    match splitWsAll cs with
    | [] => [[]]            -- unreachable
    | f :: fs => if pyIsSpace c then [] :: f :: fs else (c :: f) :: fs

/-- Python `s.split()` -/
def pySplit (s : Str) : List Str := (splitWsAll s).filter fun f => !f.isEmpty

/-- `v.replace('"', "").replace("'", "")` -/
def stripQuotes (v : Str) : Str := v.filter fun c => c != '"' && c != '\''

def xmlnsColon : Str := "xmlns:".toList

/-- `constants.NSMAP` (regenerated from the source) -/
def NSMAP : List (Str × Str) := Pyxv.Gen.nsmap.map fun kv => (kv.1.toList, kv.2.toList)

/-! ## The survey fields read by the assembly

Python truthiness (`if self.style:`): `None` and `""` are both falsy; both are `[]` here. -/
structure Fields where
  /-- `Survey.name`: tag of the primary instance root -/
  name : Str
  title : Str
  idString : Str
  namespaces : Str := []
  /-- `bool(self.entity_features)` -/
  entityFeatures : Bool := false
  style : Str := []
  /-- settings `attribute::k` columns (`Survey.attribute`), in column order -/
  attrib : List (Str × Str) := []
  /-- settings `instance::k` columns (`Survey.instance`, a section like any other), in column order;
      values after `insert_xpaths` -/
  instAttrs : List (Str × Str) := []
  instanceXmlns : Str := []
  version : Str := []
  pfx : Str := []
  delimiter : Str := []
  submissionUrl : Str := []
  publicKey : Str := []
  autoSend : Str := []
  autoDelete : Str := []
deriving Repr

def entitiesNs : Str := " entities=http://www.opendatakit.org/xforms/entities".toList

/-- the `namespaces` string after the entities namespace has been appended (survey.py:311-316;
    `None` and `""` behave alike: `None` → `entities_ns`, `"" += entities_ns`) -/
def nsString (f : Fields) : Str := if f.entityFeatures then f.namespaces ++ entitiesNs else f.namespaces

/-- `[ns.split("=") for ns in namespaces.split() if len(ns.split("=")) == 2 and ns.split("=")[0] != ""]` -/
def nsPairs (ns : Str) : List (Str × Str) :=
  (pySplit ns).filterMap fun tok =>
    match splitOnChar '=' tok with
    | [k, v] => if k.isEmpty then none else some (k, v)
    | _ => none

/-- the dict comprehension `{f"xmlns:{k}": v.replace(…) for k, v in nslist if f"xmlns:{k}" not in nsmap}` -/
def nsExtra (base : List (Str × Str)) (pairs : List (Str × Str)) : List (Str × Str) :=
  pairs.foldl (fun acc kv =>
    if (lookup (xmlnsColon ++ kv.1) base).isSome then acc
    else dictSet acc (xmlnsColon ++ kv.1) (stripQuotes kv.2)) []

/-- `Survey.get_nsmap` -/
def getNsmap (f : Fields) : List (Str × Str) :=
  if (nsString f).isEmpty then NSMAP
  else dictUpdate NSMAP (nsExtra NSMAP (nsPairs (nsString f)))

/-- `utils.node(tag, *kids, **attrs)`: each item of the keyword dict becomes one `setAttribute`.
    None of the calls modelled here can carry `node()`'s special keys `tag` / `toParseString`: the
    keys are literals or start with `xmlns:`. -/
def pyNode (tag : Str) (attrs : List (Str × Str)) (kids : List Node) : Node :=
  .elem tag (setAttrs [] attrs) kids

def optAttr (k : String) (v : Str) : List (Str × Str) := if v.isEmpty then [] else [(k.toList, v)]

/-- `model_kwargs` (survey.py:684-687) -/
def modelAttrs (f : Fields) : List (Str × Str) :=
  ("odk:xforms-version".toList, Pyxv.Gen.currentXformsVersion.toList) ::
    (if f.entityFeatures then [("entities:entities-version".toList, Pyxv.Gen.entitiesOfflineVersion.toList)] else [])

/-- `submission_attrs` (survey.py:697-706) -/
def subAttrs (f : Fields) : List (Str × Str) :=
  (if f.submissionUrl.isEmpty then [] else [("action".toList, f.submissionUrl), ("method".toList, "post".toList)]) ++
  optAttr "base64RsaPublicKey" f.publicKey ++
  optAttr "orx:auto-send" f.autoSend ++
  optAttr "orx:auto-delete" f.autoDelete

/-- the `<submission>` element (survey.py:696-708), if any -/
def submissionNode (f : Fields) : List Node :=
  if f.submissionUrl.isEmpty && f.publicKey.isEmpty && f.autoSend.isEmpty && f.autoDelete.isEmpty then []
  else [pyNode "submission".toList (subAttrs f) []]

/-- attributes of the primary instance root: `Section.xml_instance` (section.py 110-123) creates the
    element with the survey's own `instance::` attributes, `Survey.xml_instance` (717-740) then sets the
    `attribute::` columns, `id`, `xmlns`, `version`, `odk:prefix`, `odk:delimiter` — *after* them, so that
    no `instance::id` column can displace the form id -/
def rootAttrs (f : Fields) : List (Str × Str) :=
  let a := setAttrs (setAttrs [] f.instAttrs) f.attrib
  let a := setAttr a "id".toList f.idString
  let a := if f.instanceXmlns.isEmpty then a else setAttr a "xmlns".toList f.instanceXmlns
  let a := if f.version.isEmpty then a else setAttr a "version".toList f.version
  let a := if f.pfx.isEmpty then a else setAttr a "odk:prefix".toList f.pfx
  if f.delimiter.isEmpty then a else setAttr a "odk:delimiter".toList f.delimiter

/-- `if self._translations: model_children.append(self.itext())`; `itext()` returns `node("itext", *result)` -/
def itextPart : Option (List Node) → List Node
  | some ks => [pyNode "itext".toList [] ks]
  | none => []

/-- children of `<model>`: submission (inserted at 0), itext (if there are translations),
    the primary instance, then everything the generators yield -/
def modelKids (f : Fields) (itext : Option (List Node)) (rootKids rest : List Node) : List Node :=
  submissionNode f ++
  itextPart itext ++
  pyNode "instance".toList [] [.elem f.name (rootAttrs f) rootKids] :: rest

/-- attributes of `<h:html>`: `**nsmap` -/
def htmlAttrs (f : Fields) : List (Str × Str) := setAttrs [] (getNsmap f)

/-- `Survey.xml()`: the whole document -/
def assemble (f : Fields) (itext : Option (List Node)) (rootKids rest bodyKids : List Node) : Node :=
  pyNode "h:html".toList (getNsmap f)
    [ pyNode "h:head".toList []
        [ pyNode "h:title".toList [] [.text false f.title],
          pyNode "model".toList (modelAttrs f) (modelKids f itext rootKids rest) ],
      pyNode "h:body".toList (optAttr "class" f.style) bodyKids ]

/-! ## Specification: the ODK XForm skeleton of a parsed document -/

def xhtmlNs : Str := "http://www.w3.org/1999/xhtml".toList
def xformsNs : Str := "http://www.w3.org/2002/xforms".toList

mutual
/-- element-only projection: all text nodes removed (the skeleton does not speak about text) -/
def eproj : Node → Node
  | .text _ _ => .text false []
  | .elem t a ks => .elem t a (eprojKids ks)
def eprojKids : List Node → List Node
  | [] => []
  | k :: ks => if isText k then eprojKids ks else eproj k :: eprojKids ks
end

/-- expanded name of an element tag: namespace URI (looked up in the attribute lists of the
    element and its ancestors, innermost first) and local part -/
def expandTag (scope : List (Str × Str)) (tag : Str) : Option Str × Str :=
  match splitQName tag with
  | (some p, l) => (lookup (xmlnsColon ++ p) scope, l)
  | (none, l) => (lookup "xmlns".toList scope, l)

def hasName (scope : List (Str × Str)) (tag ns loc : Str) : Bool :=
  expandTag scope tag == (some ns, loc)

def localName (tag : Str) : Str := (splitQName tag).2

def isInstanceTag : Node → Bool
  | .elem t _ _ => localName t == "instance".toList
  | .text _ _ => false

/-- the skeleton on an element-only tree: `{xhtml}html[{xhtml}head[{xhtml}title, {xforms}model[…]],
    {xhtml}body]`; the first child of `model` with local name `instance` is `{xforms}instance` and
    has exactly one child, whose attribute `id` is the form id -/
def instOk (fid : Str) (scope : List (Str × Str)) : Option Node → Bool
  | some (.elem it ia [.elem _ ra _]) =>
    hasName (ia ++ scope) it xformsNs "instance".toList && lookup "id".toList ra == some fid
  | _ => false

def skelE (fid : Str) : Node → Bool
  | .elem ht ha [.elem hdt hda [.elem tt ta _, .elem mt ma mk], .elem bt ba _] =>
    hasName ha ht xhtmlNs "html".toList &&
    hasName (hda ++ ha) hdt xhtmlNs "head".toList &&
    hasName (ta ++ (hda ++ ha)) tt xhtmlNs "title".toList &&
    hasName (ma ++ (hda ++ ha)) mt xformsNs "model".toList &&
    hasName (ba ++ ha) bt xhtmlNs "body".toList &&
    instOk fid (ma ++ (hda ++ ha)) (mk.find? isInstanceTag)
  | _ => false

/-- **the ODK XForm skeleton** (property C01) of a parsed document -/
def Skeleton (n : Node) (fid : Str) : Bool := skelE fid (eproj n)

/-- `id` of the root of the first instance, for diagnostics -/
def rootId (n : Node) : Option Str :=
  match eproj n with
  | .elem _ _ [.elem _ _ [_, .elem _ _ mk], _] =>
    match mk.find? isInstanceTag with
    | some (.elem _ _ [.elem _ ra _]) => lookup "id".toList ra
    | _ => none
  | _ => none

def xmlNsUri : Str := "http://www.w3.org/XML/1998/namespace".toList
def xmlnsNsUri : Str := "http://www.w3.org/2000/xmlns/".toList

/-- one attribute, seen as a namespace declaration, obeys Namespaces in XML 1.0 §3: a prefix is
    not bound to the empty string, `xmlns` is not declared, `xml` is bound to its own namespace
    and nothing else is, nothing is bound to the `xmlns` namespace -/
def declOk (kv : Str × Str) : Bool :=
  match splitOnChar ':' kv.1 with
  | [x, p] =>
    if x = "xmlns".toList then
      !kv.2.isEmpty && p != "xmlns".toList && ((p == "xml".toList) == (kv.2 == xmlNsUri)) && kv.2 != xmlnsNsUri
    else true
  | _ => if kv.1 = "xmlns".toList then kv.2 != xmlNsUri && kv.2 != xmlnsNsUri else true

mutual
/-- every namespace declaration of the document is legal -/
def declsOk : Node → Bool
  | .text _ _ => true
  | .elem t attrs kids =>
    -- "Element names MUST NOT have the prefix xmlns" (Namespaces in XML 1.0 §3)
    (splitQName t).1 != some "xmlns".toList && attrs.all declOk && declsOkKids kids
def declsOkKids : List Node → Bool
  | [] => true
  | k :: ks => declsOk k && declsOkKids ks
end

/-- what C01 demands of the XForm text -/
def holds (text fid : Str) : Bool :=
  match parseDoc text with
  | some n => declsOk n && prefixesBound [] n && Skeleton n fid
  | none => false

/-! ## `validate_xml_document` (utils.py, added by the repair of F1-F4): the last step of `Survey.xml()` -/

/-- `name.partition(":")`: the part before the first colon, and whether there is a colon -/
def partitionColon : Str → Str × Bool
  | [] => ([], false)
  | c :: cs => if c = ':' then ([], true) else let (p, b) := partitionColon cs; (c :: p, b)

/-- `_validate_xml_name`: `is_xml_tag(name)` and, if there is a colon, the part before the first
    colon is `xml`, `xmlns` or a declared prefix -/
def nameValid (scope : List Str) (name : Str) : Bool :=
  Pyxv.Rows.isXmlTag name &&
  (match partitionColon name with
   | (p, true) => p = "xml".toList || p = "xmlns".toList || scope.contains p
   | (_, false) => true)

/-- `name.startswith("xmlns:")` → the prefix `name[len("xmlns:"):]` -/
def pyDeclared (kv : Str × Str) : Option Str :=
  if startsWith kv.1 xmlnsColon then some (kv.1.drop 6) else none

/-- `value in XML_RESERVED_NAMESPACES` -/
def reservedNs (v : Str) : Bool := v == xmlNsUri || v == xmlnsNsUri

/-- `name == "xmlns" or name.startswith("xmlns:")` -/
def isNsDecl (k : Str) : Bool := k == "xmlns".toList || startsWith k xmlnsColon

/-- a namespace declaration is accepted: non-empty value, prefix neither `xml` nor `xmlns`, and
    (repair of F2b-reserved) the value is not one of the two reserved namespace names -/
def pyDeclOk (kv : Str × Str) : Bool :=
  (match pyDeclared kv with
   | some p => !kv.2.isEmpty && p != "xml".toList && p != "xmlns".toList
   | none => true) &&
  !(isNsDecl kv.1 && reservedNs kv.2)

/-- (repair of F3x) `kind == "element"`: the prefix is not `xmlns` -/
def elemPrefixOk (t : Str) : Bool := !(partitionColon t == ("xmlns".toList, true))

mutual
/-- `validate_xml_document(element, declared)` does not raise -/
def validDoc (declared : List Str) : Node → Bool
  | .text _ s => s.all isXmlChar
  | .elem t a ks =>
    let scope := a.filterMap pyDeclared ++ declared
    a.all pyDeclOk && nameValid scope t &&
    a.all (fun kv => nameValid scope kv.1 && kv.2.all isXmlChar) && validKids scope ks && elemPrefixOk t
def validKids (declared : List Str) : List Node → Bool
  | [] => true
  | k :: ks => validDoc declared k && validKids declared ks
end

/-! ## Observation for the correspondence: the frame of a document -/

def shallow : Node → Node
  | .elem t a _ => .elem t a []
  | n => n

mutual
/-- the tree cut `d` levels below the node; an `instance` element at the cut keeps its (cut) children -/
def trunc : Nat → Node → Node
  | _, .text b s => .text b s
  | 0, .elem t a ks => .elem t a (if localName t == "instance".toList then ks.map shallow else [])
  | d + 1, .elem t a ks => .elem t a (truncKids d ks)
def truncKids : Nat → List Node → List Node
  | _, [] => []
  | d, k :: ks => trunc d k :: truncKids d ks
end

/-- html / head, body / title, model, controls / title text, model children (instances with their
    roots), children of controls — all without layout white space -/
def frame (n : Node) : Node := trunc 3 (stripWs n)

end Pyxv.Asm
