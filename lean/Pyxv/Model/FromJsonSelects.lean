import Pyxv.Model.FromJsonChoices
/-!
# FromJsonSelects: the builder with a choices context — selects that carry their options

`fromJsonS` repeats `fromJson`'s recursion with the context the builder threads through it
(`create_survey_element_from_dict(d, choices)`, builder.py:72-117, 203-224): a survey hands its own `choices`
(`result.choices`, `None` without the keyword) to its children, a group / repeat hands down what it received, and
`_create_question_from_dict` (builder.py:131-164), when the context is non-empty and the dict has a truthy
`choices` (or, without that key, `children`), builds the question from the dict without those two keys and with
`choices = context.get(d["itemset"], d_choices)`: the survey-level Itemset when the list exists (the question
then dumps that list's options as its `children`), the raw list otherwise (`MultipleChoiceQuestion.__init__`
keeps only an `Itemset`, so the question carries nothing).  `d["itemset"]` raises without the key.

Fragment beyond `fromJsonC`'s: such a question must be of a select type (`choices=` on another class is not
modelled) with a string `itemset`.  Everything else as in FromJson.lean / FromJsonChoices.lean.
-/
namespace Pyxv.ToJson
open Pyxv Pyxv.JV

/-- the dict without `choices` and `children` (`{k: v for k, v in d.items() if k not in {CHOICES, CHILDREN}}`) -/
def dropTreeKeys (kvs : Dict) : Dict := kvs.filter fun kv => kv.1 != k!"choices" && kv.1 != k!"children"

def setOpts (os : Option (List Opt)) : El → El
  | .mk cls slots qk kw sc kids _ ch => .mk cls slots qk kw sc kids os ch

/-- the type's class is `MultipleChoiceQuestion` -/
def isSelectType (cfg : Cfg) (t : Str) : Bool :=
  match lookup t cfg.qtd with
  | some entry =>
    match tagOf entry with
    | some tag => cfg.selectTags.contains tag
    | none => false
  | none => false

/-- `_create_question_from_dict(d, choices=ch)` -/
def questionFromJsonS (cfg : Cfg) (ch : List (Str × List Opt)) (t : Str) (kvs : Dict) : Option El :=
  let dch : Option J := match lookup k!"choices" kvs with
    | some v => some v
    | none => lookup k!"children" kvs
  let dTruthy : Bool := match dch with
    | some v => truthy v
    | none => false
  if ch.isEmpty || !dTruthy then questionFromJson cfg t kvs
  else
    match lookup k!"itemset" kvs with
    | some (.str s) =>
      if !isSelectType cfg t then none
      else
        match questionFromJson cfg t (dropTreeKeys kvs) with
        | none => none
        | some e => some (setOpts (lookup s ch) e)
    | _ => none

/-- `create_survey_element_from_dict(d, choices=ch)` -/
def fromJsonS (cfg : Cfg) (ctor : List Str) : Nat → List (Str × List Opt) → J → Option El
  | 0, _, _ => none
  | f + 1, ch, .obj kvs0 =>
    match lookup k!"type" kvs0 with
    | some (.str t) =>
      if t = k!"survey" ∨ t = k!"group" ∨ t = k!"repeat" then
        let own : Option (List (Str × List Opt)) :=
          match lookup k!"choices" kvs0 with
          | none => some []
          | some (.obj cj) =>
            if t = k!"survey" ∧ !cj.isEmpty then mapOpt (listFromJson ctor) cj else none
          | some _ => none
        match own with
        | none => none
        | some mine =>
          let kvs := stripChoices kvs0
          let down := if t = k!"survey" then mine else ch
          if isTruthyAt k!"add_none_option" kvs ∨ !nameOk kvs
              ∨ (hasKey k!"title" kvs ∧ !isTruthyAt k!"title" kvs) then none
          else
            let kidsJ : Option (List J) :=
              match lookup k!"children" kvs with
              | none => some []
              | some (.arr cs) => some cs
              | some v => if truthy v then none else some []
            match kidsJ with
            | none => none
            | some cs =>
              match mapOpt (fromJsonS cfg ctor f down) cs with
              | none => none
              | some kids =>
                if t = k!"survey" then
                  match lookup k!"name" kvs with
                  | none => none
                  | some nm =>
                    let kvs' := if hasKey k!"title" kvs then kvs else kvs ++ [(k!"title", nm)]
                    let slots := overrideSlot k!"setgeopoint_by_triggering_ref" (.obj [])
                      (overrideSlot k!"setvalues_by_triggering_ref" (.obj []) (reloadSlots cfg.surveyNames kvs'))
                    some (.mk .survey slots [] [] [] kids none mine)
                else
                  some (.mk (if t = k!"group" then .group else .repeat) (reloadSlots cfg.sectionNames kvs)
                    [] [] [] kids none [])
      else questionFromJsonS cfg ch t kvs0
    | _ => none
  | _ + 1, _, _ => none

end Pyxv.ToJson
