import Pyxv.Model.Entities
/-!
# C19 specification: the documented create/update decision table, written independently of the code

Sources: the class docstring of `EntityDeclaration` (the eight-row table over entity_id / create_if /
update_if), the three error messages of `get_entity_declaration` (which state *why* a combination is
invalid), the ODK XForms entities specification as quoted in the property (create / update flags; id from
`uuid()` on first load when creating, calculated from entity_id when updating; baseVersion / trunkVersion /
branchId only when updating; conditions bound to `@create` / `@update`; label bound to `entity/label`), and
the property's sentence about `save_to`, namespace/version and name rules.

Nothing here reads the generated IR (`Pyxv.Gen.entity*`, `savetoBody`, …): the spec is what the theorems of
`Pyxv/Proofs/C19.lean` compare the interpreted, regenerated code against, and what the check evaluates on
the implementation's output (driver op `entities.spec`).
-/
namespace Pyxv.Entities.Spec
open Pyxv Pyxv.Entities

/-- the result column of the documented table -/
inductive Action where
  | alwaysUpdate      -- 1 0 0  always update
  | updateIf          -- 1 0 1  update based on condition
  | createAndUpdate   -- 1 1 1  conditions for create and update
  | alwaysCreate      -- 0 0 0  always create
  | createIf          -- 0 1 0  create based on condition
deriving Repr, DecidableEq

inductive Invalid where
  | idOnlyWhenUpdating   -- 1 1 0  "error, id only acceptable when updating"
  | needIdToUpdate       -- 0 0 1 / 0 1 1  "error, need id to update"
  | needLabelToCreate    -- "label column … required when creating entities"
deriving Repr, DecidableEq

/-- the docstring table, row by row: (id, create, update) ↦ result -/
def table : Bool → Bool → Bool → Except Invalid Action
  | true,  false, false => .ok .alwaysUpdate
  | true,  false, true  => .ok .updateIf
  | true,  true,  false => .error .idOnlyWhenUpdating
  | true,  true,  true  => .ok .createAndUpdate
  | false, false, false => .ok .alwaysCreate
  | false, false, true  => .error .needIdToUpdate
  | false, true,  false => .ok .createIf
  | false, true,  true  => .error .needIdToUpdate

def Action.creates : Action → Bool
  | .alwaysCreate | .createIf | .createAndUpdate => true
  | _ => false

def Action.updates : Action → Bool
  | .alwaysUpdate | .updateIf | .createAndUpdate => true
  | _ => false

/-- create is conditional (`@create` is calculated) -/
def Action.condCreate : Action → Bool
  | .createIf | .createAndUpdate => true
  | _ => false

/-- update is conditional (`@update` is calculated) -/
def Action.condUpdate : Action → Bool
  | .updateIf | .createAndUpdate => true
  | _ => false

/-- the four presence flags ↦ action or reason of rejection.  A label is required for the two
    create-only rows (no entity_id: there is no existing entity whose label could be kept). -/
def decision (id create update label : Bool) : Except Invalid Action :=
  match table id create update with
  | .error e => .error e
  | .ok a => if !a.updates && !label then .error .needLabelToCreate else .ok a

def S (s : String) : Str := s.toList

/-- a calculated, read-only string bind -/
def calcBind (nodeset expr : Str) : XNode :=
  { tag := "bind", attrs := sortAttrs [("nodeset", nodeset), ("calculate", expr), ("type", S "string"), ("readonly", S "true()")] }

/-- attributes of `meta/entity` (a set: compared in the canonical order of `sortAttrs`) -/
def entityAttrs (ds : Str) (a : Action) : List (String × Str) :=
  [("dataset", ds), ("id", [])]
  ++ (if a.updates then [("update", S "1"), ("baseVersion", []), ("trunkVersion", []), ("branchId", [])] else [])
  ++ (if a.creates then [("create", S "1")] else [])

/-- `instance('<dataset>')/root/item[name=<entity_id>]/<field>`: the entity being updated -/
def versionExpr (ds idE : Str) (field : String) : Str :=
  S "instance('" ++ ds ++ S "')/root/item[name=" ++ idE ++ S "]/" ++ S field

/-- the model children that belong to the declaration (`E` = xpath of `meta/entity`; `sub` = reference
    substitution; `idE cE uE lE` = the entity_id / create_if / update_if / label cells where present) -/
def entityNodes (E : Str) (sub : Str → Str) (ds idE cE uE lE : Str) (label : Bool) (a : Action) : List XNode :=
  (if a.condCreate then [calcBind (E ++ S "/@create") (sub cE)] else [])
  ++ [{ tag := "bind",
        attrs := sortAttrs ([("nodeset", E ++ S "/@id"), ("type", S "string"), ("readonly", S "true()")]
                 ++ (if a.updates then [("calculate", sub idE)] else [])) }]
  ++ (if a.creates then
        [{ tag := "setvalue",
           attrs := sortAttrs [("ref", E ++ S "/@id"), ("event", S "odk-instance-first-load"), ("type", S "string"),
                     ("readonly", S "true()"), ("value", S "uuid()")] }] else [])
  ++ (if a.condUpdate then [calcBind (E ++ S "/@update") (sub uE)] else [])
  ++ (if a.updates then
        [calcBind (E ++ S "/@baseVersion") (sub (versionExpr ds idE "__version")),
         calcBind (E ++ S "/@trunkVersion") (sub (versionExpr ds idE "__trunkVersion")),
         calcBind (E ++ S "/@branchId") (sub (versionExpr ds idE "__branchId"))] else [])
  ++ (if label then [calcBind (E ++ S "/label") (sub lE)] else [])

def entityNode (ds : Str) (label : Bool) (a : Action) : XNode :=
  { tag := "entity", attrs := sortAttrs (entityAttrs ds a), kids := if label then ["label"] else [] }

/-! ### names -/

/-- dataset (entity list) names: no `__` prefix, no period, an XML name -/
def validDatasetName (d : Str) : Bool :=
  !startsWith d (S "__") && !d.contains '.' && Rows.isXmlTag d

/-- property names: not `name` / `label` in any letter case, no `__` prefix, an XML name -/
def validPropertyName (p : Str) : Bool :=
  !(lowerAscii p == S "name") && !(lowerAscii p == S "label") && !startsWith p (S "__") && Rows.isXmlTag p

/-! ### the entities sheet -/

def knownColumns : List Str := [S "dataset", S "entity_id", S "create_if", S "update_if", S "label"]

/-- what a one-row entities sheet must declare, or `none` when it must be rejected -/
def entityRow (E : Str) (sub : Str → Str) (row : Cells) : Option (XNode × List XNode) :=
  if row.any (fun kv => !knownColumns.contains kv.1) then none else
  match lookup (S "dataset") row with
  | none => none
  | some ds =>
    if !validDatasetName ds then none else
    let idE := lookup (S "entity_id") row
    let cE := lookup (S "create_if") row
    let uE := lookup (S "update_if") row
    let lE := lookup (S "label") row
    match decision (truthy idE) (truthy cE) (truthy uE) (truthy lE) with
    | .error _ => none
    | .ok a =>
      some (entityNode ds (truthy lE) a,
            entityNodes E sub ds (idE.getD []) (cE.getD []) (uE.getD []) (lE.getD []) (truthy lE) a)

/-! ### save_to cells -/

/-- the cell of the save_to column (`bind::entities:saveto` after header processing) -/
def savetoCell (r : Cells) : Option Str := lookup (S "bind::entities:saveto") r

inductive RowKind where
  | end_ | beginGroup | beginRepeat | question
  /-- an `audit` row: it configures the meta block, it is not a question -/
  | meta_
deriving Repr, DecidableEq

/-- by the *parsed* control type of the row (`RE_END_CONTROL` / `RE_BEGIN_CONTROL`) -/
def rowKind (t : Str) : RowKind :=
  match Rows.matchControl "end" false t with
  | some _ => .end_
  | none =>
    if t = S "audit" then .meta_ else
    match Rows.matchControl "begin" true t with
    | some c => if c = S "repeat" then .beginRepeat else .beginGroup
    | none => .question

/-- may this question row (inside `repeatDepth` repeats) carry this save_to cell? -/
def savetoAllowed (decl : Bool) (inRepeat : Bool) (p : Str) : Bool :=
  decl && !inRepeat && validPropertyName p

/-- the save_to verdict of a sheet with balanced begin/end rows, every row having type and name:
    `none` = must be rejected, `some l` = the `(nodeset, entities:saveto)` pairs the binds must carry.
    `st` = names of the open groups/repeats (innermost first) with a flag "is a repeat". -/
def saveto (decl : Bool) (root : Str) : List (Str × Bool) → List Cells → Option (List (Str × Str))
  | _, [] => some []
  | st, r :: rs =>
    let t := (Rows.get r "type").getD []
    let name := (Rows.get r "name").getD []
    match rowKind t with
    | .end_ => saveto decl root (st.drop 1) rs
    | .meta_ => saveto decl root st rs
    | .beginGroup => if truthy (savetoCell r) then none else saveto decl root ((name, false) :: st) rs
    | .beginRepeat => if truthy (savetoCell r) then none else saveto decl root ((name, true) :: st) rs
    | .question =>
      match savetoCell r with
      | some (a :: p) =>
        if savetoAllowed decl (st.any (·.2)) (a :: p) then
          (saveto decl root st rs).map fun out =>
            (Form.xpathStr (root :: st.reverse.map (·.1) ++ [name]), a :: p) :: out
        else none
      | _ => saveto decl root st rs

/-! ### the whole form -/

def entitiesNs : Str × Str := (S "entities", S "http://www.opendatakit.org/xforms/entities")
def versionAttr : String := "entities:entities-version"

/-- the generated `meta` group: one `audit` child per enabled audit row of the sheet (a converted form has at most
    one: two clash in the meta group's validation, `Pyxv.C02.at_most_one_audit`), `instanceID` (unless omitted by
    the setting), `instanceName` (if the setting is given), and the entity declaration as the last child -/
def metaKids (audit : Nat) (omitInstanceID instanceName entity : Bool) : List Str :=
  List.replicate audit (S "audit") ++ (if omitInstanceID then [] else [S "instanceID"]) ++
  (if instanceName then [S "instanceName"] else []) ++ (if entity then [S "entity"] else [])

/-- the three facts about sheet and settings that shape the meta block -/
structure MetaCfg where
  /-- number of enabled audit rows -/
  audit : Nat
  omitInstanceID : Bool
  instanceName : Bool
deriving Repr, DecidableEq

/-- what the XForm must contain (`some`) or that the form must be rejected (`none`).
    `userNs`: what the settings `namespaces` cell itself declares for the prefix `entities` (settings are
    C11's; normally nothing).  With an entity the entities namespace is declared whatever the user wrote;
    without one only the user's own declaration, if any, is there. -/
def form (root : Str) (sub : Str → Str) (version : String) (userNs : Option (Str × Str)) (m : MetaCfg)
    (entities : List Cells) (survey : List Cells) : Option Out :=
  match entities with
  | [] =>
    (saveto false root [] survey).map fun sv =>
      { entity := none, nodes := [], saveto := sv, version := none, xmlns := userNs,
        metaKids := metaKids m.audit m.omitInstanceID m.instanceName false }
  | [row] =>
    match entityRow (Form.xpathStr [root, S "meta", S "entity"]) sub row with
    | none => none
    | some (en, ns) =>
      (saveto true root [] survey).map fun sv =>
        { entity := some en, nodes := ns, saveto := sv, version := some (versionAttr, version), xmlns := some entitiesNs,
          metaKids := metaKids m.audit m.omitInstanceID m.instanceName true }
  | _ :: _ :: _ => none

end Pyxv.Entities.Spec
