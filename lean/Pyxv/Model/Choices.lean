import Pyxv.Model.Rows
import Pyxv.Model.Refs
import Pyxv.Model.Controls
import Pyxv.Model.Headers
import Pyxv.Model.Xml
/-!
# Choices: choice lists, select wiring, secondary instances, itemsets CSV  (property C09)

Mirrors
* `xls2json.group_dictionaries_by_key` (xls2json.py 116-134) — `groupByKey`;
* `validators/pyxform/choices.py` (`validate_headers`, `validate_choice_list`,
  `validate_and_clean_choices`) — `badHeaders`, `validateList`, `choiceOf`;
* the select branch of `workbook_to_json` (xls2json.py 955-1188): `RE_SELECT` (via `Rows.matchSelect`),
  `os.path.splitext`, or_other (adds the choice `other` to the *shared* list object and a companion
  `<name>_other` text question), `add_choices_info_to_question` (xls2json.py 221-268: which selects get
  `list_name` / `choices`);
* `question.Itemset.get_options` (`requires_itext`), `MultipleChoiceQuestion.build_xml` (question.py
  368-470: the itemset nodeset / value ref / label ref, inline items for `search()`),
  `InputQuestion.build_xml` (`query` of `select_one_external`);
* `Survey._generate_static_instances`, `_generate_external_instances`, `_generate_pulldata_instances`,
  `_generate_from_file_instances`, `_generate_last_saved_instance`, `_validate_external_instances`,
  `_generate_instances` (survey.py 370-647), `_redirect_is_search_itext` and the mixed search /
  non-search rejection of `_setup_translations` (survey.py 755-793, 836-884);
* `Survey.insert_xpaths` restricted to references that resolve to an absolute path (no repeat shared
  by referrer and target; anything else is answered `unsupported` — relative paths are C03's);
* `utils.external_choices_to_csv` (utils.py 172-199, after commit 58e1b4b: cells written by header) and
  a reader for the `csv` module's excel dialect (`_csv.c` `parse_process_char`).

Cells use the canonical flattened column names (`bind::calculate`, `control::appearance`, `label::en`,
`media::image`, `parameters::randomize`, `list_name`).  Strings are `List Char`.
-/
namespace Pyxv.Choices
open Pyxv Pyxv.Rows

open Lean in
/-- `c!"lit"`: a string literal as an explicit `List Char` literal (so that definitional comparisons of
    two literals are structural; `"lit".toList` is expensive to reduce) -/
macro:max "c!" s:str : term => do
  let cs : Array (TSyntax `term) := (s.getString.toList.map fun c => (⟨(Syntax.mkCharLit c).raw⟩ : TSyntax `term)).toArray
  `(([$cs,*] : List Char))

/-! ## Python string helpers -/

/-- `s.replace(old, new)` for non-empty `old` (leftmost, non-overlapping) -/
def replaceAll (old new : Str) : Nat → Str → Str
  | 0, s => s
  | _, [] => []
  | f + 1, c :: cs =>
    if startsWith (c :: cs) old then new ++ replaceAll old new f ((c :: cs).drop old.length)
    else c :: replaceAll old new f cs

def pyReplace (s old new : Str) : Str := if old.isEmpty then s else replaceAll old new s.length s

/-- `os.path.splitext` -/
def splitext (s : Str) : Str × Str :=
  let r := s.reverse
  let extRev := r.takeWhile fun c => c != '.' && c != '/'
  match r.drop extRev.length with
  | '.' :: restRev =>
    if (restRev.takeWhile (· != '/')).any (· != '.') then (restRev.reverse, '.' :: extRev.reverse) else (s, [])
  | _ => (s, [])

def extSet : List Str := Pyxv.Gen.externalInstanceExtensions.map String.toList
def isFileExt (e : Str) : Bool := extSet.contains e

/-- `RE_ANY_PYXFORM_REF` matches at the start of `s` -/
def refAt (s : Str) : Bool :=
  match s with
  | '$' :: '{' :: r =>
    let r' := if startsWith r (c!"last-saved#") then r.drop 11 else r
    (match ncName r' with
     | some ('}' :: _) => true
     | some (':' :: r2) => (match ncName r2 with | some ('}' :: _) => true | _ => false)
     | _ => false)
  | _ => false

/-- `RE_ANY_PYXFORM_REF.search(s)` -/
def hasRef : Str → Bool
  | [] => false
  | c :: cs => refAt (c :: cs) || hasRef cs

def notBraceEnd (c : Char) : Bool := c != '}' && c != '\n'

/-- `PYXFORM_REFERENCE_REGEX` (`\$\{(.*?)\}`) matches at the start of `s` -/
def braceAt (s : Str) : Bool :=
  match s with
  | '$' :: '{' :: r => ((r.dropWhile notBraceEnd).head? == some '}')
  | _ => false

/-- `PYXFORM_REFERENCE_REGEX.search(s)` -/
def hasBraceRef : Str → Bool
  | [] => false
  | c :: cs => braceAt (c :: cs) || hasBraceRef cs

/-- `has_last_saved` (expression.py 130-140) -/
def hasLastSaved (v : Str) : Bool := v.length > 14 && isInfix (c!"${last-saved#") v && hasRef v

/-! ## 1. `group_dictionaries_by_key` -/

/-- `dicty.pop(key)` -/
def popKey (key : Str) : Cells → Cells
  | [] => []
  | (k, v) :: r => if k = key then r else (k, v) :: popKey key r

/-- `dict_of_lists[v].append(d)` / `dict_of_lists[v] = [d]` -/
def addToGroup (g : Str) (row : Cells) : List (Str × List Cells) → List (Str × List Cells)
  | [] => [(g, [row])]
  | (k, rs) :: rest => if g = k then (k, rs ++ [row]) :: rest else (k, rs) :: addToGroup g row rest

def groupStep (key : Str) (acc : List (Str × List Cells)) (row : Cells) : List (Str × List Cells) :=
  match lookup key row with
  | none => acc
  | some g => addToGroup g (popKey key row) acc

def groupByKey (key : Str) (rows : List Cells) : List (Str × List Cells) :=
  rows.foldl (groupStep key) []

/-! ## 2. choices: validation, options, or_other -/

inductive Lbl where
  | none | plain (s : Str) | dict
deriving DecidableEq, Repr, Inhabited

structure Choice where
  name : Str
  label : Lbl
  media : Bool
  /-- `extra_data`: the remaining columns, in column order -/
  extras : Cells
deriving DecidableEq, Repr, Inhabited

/-- the canonical name of the list column (`aliases.list_header`: `list_name` ↦ `list name`) -/
def listKey : Str := c!"list name"

/-- `validate_headers`: headers that are empty or contain a space (except the list name column) -/
def badHeaders (cols : List Str) : List Str :=
  cols.filter fun h => h ≠ listKey && (h.contains ' ' || h.isEmpty)

def isLabelDictKey (k : Str) : Bool := startsWith k (c!"label::")
def isMediaKey (k : Str) : Bool := startsWith k (c!"media::")

def isExtraKey (bad : List Str) (k : Str) : Bool :=
  k ≠ c!"name" && k ≠ c!"label" && !isLabelDictKey k && !isMediaKey k && k ≠ c!"__row" && !bad.contains k

def labelOf (row : Cells) : Lbl :=
  if row.any (fun kv => isLabelDictKey kv.1) then .dict
  else match lookup (c!"label") row with
    | some s => .plain s
    | none => .none

/-- `Option(**c)` after `validate_and_clean_choices` popped the invalid headers; `name` defaulted to
    empty only for rows that `validateList` rejects anyway -/
def choiceOf (bad : List Str) (row : Cells) : Choice :=
  { name := (lookup (c!"name") row).getD [],
    label := labelOf row,
    media := row.any (fun kv => isMediaKey kv.1),
    extras := row.filter fun kv => isExtraKey bad kv.1 }

inductive ErrK where
  | noChoiceName | dupChoice | searchMixed | dupExternal | idClash
deriving DecidableEq, Repr, Inhabited

/-- names seen twice, in the manner of `validate_choice_list` -/
def hasDupName : List Str → List Cells → Bool
  | _, [] => false
  | seen, r :: rs =>
    match lookup (c!"name") r with
    | none => hasDupName seen rs
    | some n => if seen.contains n then true else hasDupName (n :: seen) rs

/-- `validate_choice_list`: a nameless option raises at once; duplicates are raised after the loop -/
def validateList (allowDup : Bool) (rows : List Cells) : Option ErrK :=
  if rows.any (fun r => (lookup (c!"name") r).isNone) then some .noChoiceName
  else if !allowDup && hasDupName [] rows then some .dupChoice
  else none

def validateLists (allowDup : Bool) (groups : List (Str × List Cells)) : Option ErrK :=
  groups.findSome? fun g => validateList allowDup g.2

/-- the `choices` dict of `workbook_to_json` before the survey rows are read -/
def choicesOf (cols : List Str) (rows : List Cells) : List (Str × List Choice) :=
  (groupByKey listKey rows).map fun g => (g.1, g.2.map (choiceOf (badHeaders cols)))

def otherName : Str := ((Pyxv.Gen.orOtherChoice.find? fun p => p.1 = "name").map (·.2.toList)).getD []
def otherLabel : Str := ((Pyxv.Gen.orOtherChoice.find? fun p => p.1 = "label").map (·.2.toList)).getD []

def isDictLbl : Lbl → Bool
  | .dict => true
  | _ => false

def otherChoice (dict : Bool) : Choice :=
  { name := otherName, label := if dict then .dict else .plain otherLabel, media := false, extras := [] }

def hasOther (cs : List Choice) : Bool := cs.any fun c => c.name = otherName

/-- or_other (xls2json.py 1036-1078): append `other` to the list object unless a choice of that name exists -/
def addOtherTo (cs : List Choice) : List Choice :=
  if hasOther cs then cs else cs ++ [otherChoice (cs.any fun c => isDictLbl c.label)]

def addOther (l : Str) : List (Str × List Choice) → List (Str × List Choice)
  | [] => []
  | (k, cs) :: rest => if k = l then (k, addOtherTo cs) :: rest else (k, cs) :: addOther l rest

/-- `Itemset.requires_itext` -/
def requiresItext (cs : List Choice) : Bool :=
  cs.any fun c => c.media || (match c.label with
    | .dict => true
    | .plain s => hasRef s
    | .none => false)

/-! ## 3. instance items -/

/-- `choice_nodes` of `_generate_static_instances` -/
def itemOf (itext : Bool) (l : Str) (idx : Nat) (c : Choice) : List (Str × Str) :=
  (if itext then [(c!"itextId", l ++ c!"-" ++ natToStr idx)] else []) ++ [(c!"name", c.name)] ++
  (match itext, c.label with
   | false, .plain s => [(c!"label", s)]
   | _, _ => []) ++ c.extras

/-- `instance_nodes`: `enumerate(choices)` from `i` -/
def itemsFrom (itext : Bool) (l : Str) : Nat → List Choice → List (List (Str × Str))
  | _, [] => []
  | i, c :: cs => itemOf itext l i c :: itemsFrom itext l (i + 1) cs

structure Inst where
  kind : Str
  name : Str
  src : Option Str
  items : List (List (Str × Str))
deriving DecidableEq, Repr, Inhabited

def staticInst (l : Str) (cs : List Choice) : Inst :=
  { kind := c!"choice", name := l, src := none, items := itemsFrom (requiresItext cs) l 0 cs }

/-! ## 4. survey rows: elements in document order, names and their paths -/

structure NameInfo where
  name : Str
  path : List Str
  /-- the element's lineage below the survey root with the kind of every node (`Pyxv.Refs.Chain`) -/
  chain : Refs.Chain
deriving Repr, Inhabited

inductive Elem where
  | sec (name : Str) (cells : Cells)
  | q (name : Str) (cells : Cells)
  | sel (name : Str) (path : List Str) (chain : Refs.Chain) (cells : Cells) (sel ln : Str) (other : Bool)
  | ext (name typ : Str)
deriving Repr, Inhabited

def framePath (stack : List (Str × Bool)) : List Str := (stack.map (·.1)).reverse

/-- paths of the repeat frames of a stack (innermost frame first in `stack`) -/
def repPaths : List (Str × Bool) → List (List Str)
  | [] => []
  | (n, isRep) :: rest => (if isRep then [framePath ((n, isRep) :: rest)] else []) ++ repPaths rest

/-- lineage of the frames of a stack (innermost frame first in `stack`) -/
def stackChain (stack : List (Str × Bool)) : Refs.Chain :=
  stack.reverse.map fun f => (f.1, if f.2 then Refs.Kind.rep else Refs.Kind.group)

def otherRelevant (name : Str) : Str := c!"selected(../" ++ name ++ c!", 'other')"

/-- rows → (elements in `iter_descendants` order, name table) -/
def walk : List (Str × Bool) → List Cells → Except String (List Elem × List NameInfo)
  | [], [] => .ok ([], [])
  | _ :: _, [] => .error "unmatched begin"
  | stack, r :: rs =>
    match get r "type" with
    | none => .error "row without type"
    | some t =>
      match matchControl "end" false t with
      | some _ =>
        (match stack with
         | [] => .error "unmatched end"
         | _ :: st => walk st rs)
      | none =>
      match get r "name" with
      | none => .error "row without name"
      | some name =>
        let path := framePath stack ++ [name]
        let chain := stackChain stack ++ [(name, Refs.Kind.q)]
        let info : NameInfo := { name, path, chain }
        match matchControl "begin" true t with
        | some c =>
          (match ctlOf c with
           | some .group => (walk ((name, false) :: stack) rs).map fun (es, ns) =>
               (.sec name r :: es, { info with chain := stackChain ((name, false) :: stack) } :: ns)
           | some .rep => (walk ((name, true) :: stack) rs).map fun (es, ns) =>
               (.sec name r :: es, { info with chain := stackChain ((name, true) :: stack) } :: ns)
           | _ => .error "loop")
        | none =>
          match matchSelect t with
          | some (sel, ln, other) =>
            let oname := name ++ c!"_other"
            let extra : List Elem := if other then [.q oname [(c!"bind::relevant", otherRelevant name)]] else []
            let extraN : List NameInfo := if other then
              [{ name := oname, path := framePath stack ++ [oname], chain := stackChain stack ++ [(oname, Refs.Kind.q)] }] else []
            (walk stack rs).map fun (es, ns) => (.sel name path chain r sel ln other :: extra ++ es, info :: extraN ++ ns)
          | none =>
            if t = c!"xml-external" || t = c!"csv-external" then
              (walk stack rs).map fun (es, ns) => (.ext name t :: es, info :: ns)
            else (walk stack rs).map fun (es, ns) => (.q name r :: es, info :: ns)

/-! ## 5. `insert_xpaths` (absolute fragment) -/

def lastSavedName : Str := ((Pyxv.Gen.itemsetRefs.find? fun p => p.1 = "last_saved").map (·.2.toList)).getD []

def xpathOf (root : Str) (path : List Str) : Str := '/' :: joinWith (c!"/") (root :: path)

/-- every element of the survey in `iter_descendants` order (root, rows, generated `meta` block), as
    `Pyxv.Refs` wants them for `_setup_xpath_dictionary` / `is_parent_a_repeat` -/
def allChains (root : Str) (tbl : List NameInfo) : List Refs.Chain :=
  let r : Refs.Seg := (root, Refs.Kind.group)
  [r] :: tbl.map (fun t => r :: t.chain) ++
    [[r, (c!"meta", Refs.Kind.group)], [r, (c!"meta", Refs.Kind.group), (c!"instanceID", Refs.Kind.q)]]

/-- `_var_repl_function` through the C03 model (`Pyxv.Refs.refFor`): absolute, relative (`../x`, with
    `current()/` for choice filters) or last-saved replacement text; `none` = unknown / ambiguous name -/
def resolve (root : Str) (tbl : List NameInfo) (ctx : Refs.Chain) (useCurrent refParent : Bool)
    (lastSaved : Bool) (name : Str) : Option Str :=
  (Refs.refFor (allChains root tbl) (some ((root, Refs.Kind.group) :: ctx)) name
    { lastSaved, useCurrent, referenceParent := refParent }).text

/-- `re.sub(BRACKETED_TAG_REGEX, _var_repl_function, text)`; `none` = outside the fragment -/
def insertXpaths (res : Bool → Str → Option Str) : Nat → Str → Option Str
  | 0, s => some s
  | _, [] => some []
  | f + 1, c :: cs =>
    match c, cs with
    | '$', '{' :: r =>
      let body := r.takeWhile notBraceEnd
      (match r.drop body.length with
       | '}' :: rest =>
         let ls := startsWith body (c!"last-saved#")
         let nm := if ls then body.drop 11 else body
         (match res ls nm, insertXpaths res f rest with
          | some x, some y => some (x ++ y)
          | _, _ => none)
       | _ => (insertXpaths res f cs).map (c :: ·))
    | _, _ => (insertXpaths res f cs).map (c :: ·)

/-- `insert_xpaths(text, context, use_current, reference_parent)`; texts that need the lexer-level flags of
    `Pyxv.Refs.Flags` (`indexed-repeat(` argument positions; `instance(` predicates where `use_current` is off,
    i.e. in a seed) are outside the fragment -/
def subst (root : Str) (tbl : List NameInfo) (ctx : Refs.Chain) (useCurrent refParent : Bool) (s : Str) : Option Str :=
  -- `_in_secondary_instance_predicate` only matters when `use_current` is off: the emitted text depends on
  -- `use_current || in_predicate` (survey.py 1185-1190)
  if isInfix c!"indexed-repeat(" s || (!useCurrent && isInfix c!"instance(" s) then none
  else insertXpaths (resolve root tbl ctx useCurrent refParent) s.length s

/-! ## 6. the itemset of a select (`MultipleChoiceQuestion.build_xml`) -/

def gref (k : String) : Str := ((Pyxv.Gen.itemsetRefs.find? fun p => p.1 = k).map (·.2.toList)).getD []

/-- what `build_xml` reads, with every `insert_xpaths` result already substituted -/
structure SelIn where
  /-- `self.itemset`: list name, file name or `${question}` -/
  itemset : Str
  /-- `insert_xpaths(choice_filter, self, True, …)`; empty = no filter -/
  filter : Str
  /-- `self.parameters` -/
  params : Cells
  /-- `insert_xpaths(params["seed"], self).strip()` -/
  seedSub : Str
  /-- `insert_xpaths(self.itemset, self, reference_parent=True).strip()` -/
  prevSub : Str
  /-- `(self.choices or survey.choices.get(self.itemset))` exists and `.requires_itext` (question.py 406-412,
      after commit 2ee52f9: the list is looked up on the survey when the select carries no `choices`) -/
  choicesItext : Bool
deriving Repr, Inhabited

structure ItemsetOut where
  nodeset : Str
  value : Str
  label : Str
deriving DecidableEq, Repr, Inhabited

def bracket (f : Str) : Str := if f.isEmpty then [] else c!"[" ++ f ++ c!"]"

/-- question.py 417-446: `randomize(… [, seed])` -/
def wrapRandomize (params : Cells) (seedSub : Str) (nodeset : Str) : Str :=
  if !params.isEmpty && lookup (c!"randomize") params = some (c!"true") then
    let n := c!"randomize(" ++ nodeset
    let n := match lookup (c!"seed") params with
      | some s => if startsWith s (c!"${") then n ++ c!", " ++ seedSub else n ++ c!", " ++ s
      | none => n
    n ++ c!")"
  else nodeset

/-- question.py 374-446, statement by statement -/
def itemsetOf (q : SelIn) : ItemsetOut :=
  let se := splitext q.itemset
  let itemset0 := se.1
  let ext := se.2
  let v0 := if ext = c!".geojson" then gref "value_geojson" else gref "value"
  let l0 := if ext = c!".geojson" then gref "label_geojson" else gref "label"
  let v1 := (lookup (c!"value") q.params).getD v0
  let l1 := (lookup (c!"label") q.params).getD l0
  let isPrev := hasBraceRef q.itemset
  let itemset1 := if isFileExt ext then itemset0 else q.itemset
  let l2 := if isFileExt ext then l1 else if q.choicesItext then c!"jr:itext(itextId)" else l1
  if isPrev then
    let path := splitOnChar '/' q.prevSub
    let nodeset := joinWith (c!"/") path.dropLast
    let leaf := path.getLast?.getD []
    let filt := if !q.filter.isEmpty
      then pyReplace (pyReplace q.filter (c!"current()/" ++ nodeset) (c!".")) nodeset (c!".")
      else c!"./" ++ leaf ++ c!" != ''"
    { nodeset := wrapRandomize q.params q.seedSub (nodeset ++ bracket filt), value := leaf, label := leaf }
  else
    let nodeset := c!"instance('" ++ itemset1 ++ c!"')/root/item"
    { nodeset := wrapRandomize q.params q.seedSub (nodeset ++ bracket q.filter), value := v1, label := l2 }

/-! ## 7. secondary instances -/

def pdSpace (c : Char) : Bool := pyIsSpace c

/-- `RE_PULLDATA` = `(pulldata\s*\(\s*)(.*?),` matching at the start of `s`: (group 2, rest after the comma) -/
def pulldataAt (s : Str) : Option (Str × Str) :=
  if !startsWith s (c!"pulldata") then none else
  match (s.drop 8).dropWhile pdSpace with
  | '(' :: r1 =>
    let r2 := r1.dropWhile pdSpace
    let arg := r2.takeWhile fun c => c != ',' && c != '\n'
    (match r2.drop arg.length with
     | ',' :: rest => some (arg, rest)
     | _ => none)
  | _ => none

/-- `re.finditer(RE_PULLDATA, usage)`: first arguments, quotes removed and stripped (survey.py 500-507) -/
def pulldataArgs : Nat → Str → List Str
  | 0, _ => []
  | _, [] => []
  | f + 1, c :: cs =>
    match pulldataAt (c :: cs) with
    | some (arg, rest) => strip (arg.filter fun c => c != '\'' && c != '"') :: pulldataArgs f rest
    | none => pulldataArgs f cs

def extInstKeys : List Str := Pyxv.Gen.externalInstances.map String.toList

/-- `get_pulldata_functions`: bind formulas in sorted key order, then choice_filter, then default -/
def pulldataUsages (isSection : Bool) (cells : Cells) : List Str :=
  let has (v : Str) := isInfix (c!"pulldata(") v
  (extInstKeys.filterMap fun k => match lookup (c!"bind::" ++ k) cells with
    | some v => if has v then some v else none
    | none => none) ++
  (if isSection then [] else
    ((match lookup (c!"choice_filter") cells with | some v => if has v then [v] else [] | none => []) ++
     (match lookup (c!"default") cells with | some v => if has v then [v] else [] | none => [])))

def pulldataInst (fileId : Str) : Inst :=
  { kind := c!"pulldata", name := fileId, src := some (c!"jr://file-csv/" ++ fileId ++ c!".csv"), items := [] }

def pulldataInsts (isSection : Bool) (cells : Cells) : List Inst :=
  (pulldataUsages isSection cells).flatMap fun u => (pulldataArgs u.length u).map pulldataInst

/-- `_generate_from_file_instances` -/
def fromFileInst (itemset : Str) : Option Inst :=
  if itemset.isEmpty then none else
  let se := splitext itemset
  if isFileExt se.2 then
    let dir := if se.2 = c!".xml" || se.2 = c!".geojson" then c!"file" else c!"file-" ++ se.2.drop 1
    some { kind := c!"file", name := se.1, src := some (c!"jr://" ++ dir ++ c!"/" ++ itemset), items := [] }
  else none

/-- `_generate_external_instances` -/
def externalInst (name typ : Str) : Inst :=
  let extension := (splitOnChar '-' typ).headD []
  let pre := if extension = c!"csv" then c!"file-csv" else c!"file"
  { kind := c!"external", name, src := some (c!"jr://" ++ pre ++ c!"/" ++ name ++ c!"." ++ extension), items := [] }

def lastSavedInst : Inst :=
  { kind := c!"instance", name := lastSavedName, src := some (c!"jr://instance/last-saved"), items := [] }

/-- `_generate_last_saved_instance` -/
def wantsLastSaved (cells : Cells) : Bool :=
  (match lookup (c!"default") cells with | some v => hasLastSaved v | none => false) ||
  (match lookup (c!"choice_filter") cells with | some v => hasLastSaved v | none => false) ||
  cells.any fun kv => extInstKeys.any (fun k => kv.1 = c!"bind::" ++ k) && hasLastSaved kv.2

/-- `SEARCH_FUNCTION_REGEX` (`search\(.*?\)`) found in an appearance longer than 7 characters -/
def searchAt (s : Str) : Bool :=
  startsWith s (c!"search(") && (((s.drop 7).dropWhile fun c => c != ')' && c != '\n').head? == some ')')

def hasSearchCall : Str → Bool
  | [] => false
  | c :: cs => searchAt (c :: cs) || hasSearchCall cs

def isSearch (cells : Cells) : Bool :=
  match lookup (c!"control::appearance") cells with
  | some a => a.length > 7 && hasSearchCall a
  | none => false

/-- a select is a `MultipleChoiceQuestion` unless it is `select one external` (an `InputQuestion`) -/
def isExternalSel (sel : Str) : Bool := sel = c!"select one external"

/-- `get_element_instances` up to the static part: one pass over the elements -/
def elemInsts : List Elem → List Inst
  | [] => []
  | .sec _ cells :: es => pulldataInsts true cells ++ elemInsts es
  | .q _ cells :: es => pulldataInsts false cells ++ elemInsts es
  | .sel _ _ _ cells sel ln _ :: es =>
    pulldataInsts false cells ++
    (if isExternalSel sel || isSearch cells then [] else (fromFileInst ln).toList) ++ elemInsts es
  | .ext name typ :: es => externalInst name typ :: elemInsts es

def anyLastSaved : List Elem → Bool
  | [] => false
  | .q _ cells :: es => wantsLastSaved cells || anyLastSaved es
  | .sel _ _ _ cells _ _ _ :: es => wantsLastSaved cells || anyLastSaved es
  | _ :: es => anyLastSaved es

/-- a group / repeat whose bind reads `${last-saved#…}` (survey.py 651-658, since commit a1c327a sections are
    asked too) -/
def secLastSaved : List Elem → Bool
  | [] => false
  | .sec _ cells :: es =>
    (cells.any fun kv => extInstKeys.any (fun k => kv.1 = c!"bind::" ++ k) && hasLastSaved kv.2) || secLastSaved es
  | _ :: es => secLastSaved es

/-- lists consumed by `search()` (`Itemset.used_by_search`) -/
def searchLists : List Elem → List Str
  | [] => []
  | .sel _ _ _ cells sel ln _ :: es => (if !isExternalSel sel && isSearch cells then [ln] else []) ++ searchLists es
  | _ :: es => searchLists es

def staticInsts (search : List Str) (lists : List (Str × List Choice)) : List Inst :=
  (lists.filter fun g => !search.contains g.1).map fun g => staticInst g.1 g.2

/-- every `InstanceInfo`, in the order of `get_element_instances` -/
def allInsts (es : List Elem) (lists : List (Str × List Choice)) : List Inst :=
  elemInsts es ++ (if anyLastSaved es || secLastSaved es then [lastSavedInst] else []) ++ staticInsts (searchLists es) lists

/-- `_validate_external_instances`: names of `external` instances are unique -/
def externalNamesOk (is : List Inst) : Bool :=
  let names := (is.filter fun i => i.kind = c!"external").map (·.name)
  names.all fun n => names.count n ≤ 1

def findSeen (name : Str) : List Inst → Option Inst
  | [] => none
  | i :: rest => if i.name = name then some i else findSeen name rest

/-- the `seen` loop of `_generate_instances`: first occurrence is emitted, same id + same src is
    skipped, same id + different src is an error -/
def emitInsts : List Inst → List Inst → Option (List Inst)
  | _, [] => some []
  | seen, i :: rest =>
    match findSeen i.name seen with
    | some prior => if prior.src ≠ i.src then none else emitInsts seen rest
    | none => (emitInsts (i :: seen) rest).map (i :: ·)

/-! ### rendering: the DOM elements of the instances (`Pyxv.Xml`) -/

/-- `node("instance", …, id=…, src=…)` / `node("instance", node("root", item…), id=…)` (survey.py 370-425) -/
def instNode (i : Inst) : Xml.Node :=
  match i.src with
  | some u => .elem c!"instance" [(c!"id", i.name), (c!"src", u)] []
  | none => .elem c!"instance" [(c!"id", i.name)]
      [.elem c!"root" [] (i.items.map fun it => .elem c!"item" [] (it.map fun kv => .elem kv.1 [] [.text false kv.2]))]

/-- the `id` of an `<instance>` element -/
def instanceId : Xml.Node → Option Str
  | .elem t a _ => if t = c!"instance" then lookup c!"id" a else none
  | .text _ _ => none

/-- ids of the `<instance id=…>` children of an element, in document order -/
def instanceIds : Xml.Node → List Str
  | .elem _ _ ks => ks.filterMap instanceId
  | .text _ _ => []

/-- the text `Survey._to_ugly_xml` writes for one instance element -/
def instText (i : Inst) : Str := Xml.render [] [] [] (instNode i)

/-! ## 8. itemsets CSV -/

/-- one cell under `QUOTE_ALL`: quotes doubled, wrapped in quotes -/
def escQ : Str → Str
  | [] => []
  | c :: cs => if c = '"' then '"' :: '"' :: escQ cs else c :: escQ cs

def csvCell (s : Str) : Str := '"' :: (escQ s ++ ['"'])

/-- `csv.writer(quoting=QUOTE_ALL).writerow` with the default `\r\n` terminator -/
def csvRow (cells : List Str) : Str := joinWith (c!",") (cells.map csvCell) ++ ['\r', '\n']

def csvText (rows : List (List Str)) : Str := rows.flatMap csvRow

/-- `[row.get(h, "") for h in header]` -/
def rowByHeader (header : List Str) (row : Cells) : List Str := header.map fun h => (lookup h row).getD []

/-- `external_choices_to_csv` (utils.py 172-199) -/
def itemsetsCsv (header : List Str) (rows : List Cells) : Str :=
  csvText (header :: rows.map (rowByHeader header))

/-! ### reader: the excel dialect of `_csv.c` as a fold over characters -/

inductive CsvSt where
  | startRecord | afterCr | startField | inField | inQuoted | quoteInQuoted
deriving DecidableEq, Repr, Inhabited

structure PS where
  st : CsvSt
  fld : Str
  row : List Str
  acc : List (List Str)
deriving Repr, Inhabited

def PS.addChar (s : PS) (c : Char) (st : CsvSt) : PS := { s with st, fld := s.fld ++ [c] }
def PS.saveField (s : PS) (st : CsvSt) : PS := { s with st, fld := [], row := s.row ++ [s.fld] }
def PS.emit (s : PS) (st : CsvSt) : PS := { st, fld := [], row := [], acc := s.acc ++ [s.row] }

/-- `START_FIELD` -/
def stepField (s : PS) (c : Char) : PS :=
  if c = '\r' then (s.saveField .startField).emit .afterCr
  else if c = '\n' then (s.saveField .startField).emit .startRecord
  else if c = '"' then { s with st := .inQuoted }
  else if c = ',' then s.saveField .startField
  else s.addChar c .inField

/-- `START_RECORD` -/
def stepRecord (s : PS) (c : Char) : PS :=
  if c = '\r' then s.emit .afterCr
  else if c = '\n' then s.emit .startRecord
  else stepField s c

def stepCsv (s : PS) (c : Char) : PS :=
  match s.st with
  | .afterCr => if c = '\n' then { s with st := .startRecord } else stepRecord { s with st := .startRecord } c
  | .startRecord => stepRecord s c
  | .startField => stepField s c
  | .inField =>
    if c = '\r' then (s.saveField .startField).emit .afterCr
    else if c = '\n' then (s.saveField .startField).emit .startRecord
    else if c = ',' then s.saveField .startField
    else s.addChar c .inField
  | .inQuoted => if c = '"' then { s with st := .quoteInQuoted } else s.addChar c .inQuoted
  | .quoteInQuoted =>
    if c = '"' then s.addChar c .inQuoted
    else if c = ',' then s.saveField .startField
    else if c = '\r' then (s.saveField .startField).emit .afterCr
    else if c = '\n' then (s.saveField .startField).emit .startRecord
    else s.addChar c .inField

/-- end of input: the virtual end-of-line of the last line / iterator exhaustion -/
def finishCsv (s : PS) : List (List Str) :=
  match s.st with
  | .startRecord | .afterCr => s.acc
  | _ => s.acc ++ [s.row ++ [s.fld]]

def initPS : PS := { st := .startRecord, fld := [], row := [], acc := [] }

/-- `list(csv.reader(io.StringIO(text, newline="")))` -/
def parseCsv (t : Str) : List (List Str) := finishCsv (t.foldl stepCsv initPS)

/-! ## 9. the whole observation -/

structure SelObs where
  ref : Str
  tag : Str
  itemset : Option ItemsetOut
  /-- inline items: (label as `ref` or text, value) -/
  items : List ((Bool × Str) × Str)
  query : Option Str
  other : Option (Str × Str × Str)
  /-- what `build_xml` read (for the spec / oracle) and whether the *list* requires itext -/
  qin : Option SelIn := none
  listItext : Bool := false
deriving Repr, Inhabited

structure Input where
  root : Str
  choices : List Cells
  choiceCols : List Str
  allowDup : Option Str
  survey : List Cells
  /-- header row of the survey sheet (decides `use_double_colon`) -/
  surveyCols : List Str := []
  extHeader : List Str
  extRows : Option (List Cells)
deriving Repr, Inhabited

structure Obs where
  instances : List Inst
  selects : List SelObs
  csv : Option Str
deriving Repr, Inhabited

inductive Outcome where
  | ok (o : Obs)
  | error (k : ErrK)
  | unsupported (why : String)
deriving Repr, Inhabited

/-! ### `clean_text_values` on the choices / external_choices sheets (xls2json.py 88-112 with
`strip_whitespace=False`): only "smart" quotes are replaced; whitespace inside cells is kept as typed.
The rows are mutated in place, so `external_choices_to_csv` later writes the cleaned cells. -/

def smartTable : List (Char × Char) :=
  Pyxv.Gen.smartQuotes.filterMap fun p =>
    match p.1.toList, p.2.toList with
    | [a], [b] => some (a, b)
    | _, _ => none

def cleanChar (c : Char) : Char :=
  match smartTable.find? (fun p => p.1 = c) with
  | some p => p.2
  | none => c

def cleanCell (s : Str) : Str := s.map cleanChar
def cleanRow (r : Cells) : Cells := r.map fun kv => (kv.1, cleanCell kv.2)

/-- the workbook as `workbook_to_json` leaves it after cleaning the two sheets -/
def Input.cleaned (inp : Input) : Input :=
  { inp with choices := inp.choices.map cleanRow, extRows := inp.extRows.map fun rows => rows.map cleanRow }

/-! ### header dealiasing (`dealias_and_group_headers` via `Pyxv.Headers.processHeader`) and the
`parameters` cell (`parameters_generic.parse` via `Pyxv.Controls.parseParams`): raw sheets → canonical cells -/

/-- canonical flattened key of a header: the tokens of `process_header` joined with `::` -/
def canonKey (useDouble : Bool) (aliases : List (Str × List Str)) (columns : List Str) (h : Str) : Option Str :=
  match Headers.processHeader h useDouble aliases columns with
  | .ok (_, toks) => some (joinWith c!"::" toks)
  | .error _ => none

/-- header ↦ canonical key for one sheet; two headers with the same canonical key are outside the fragment
    (`INVALID_DUPLICATE` or a silent merge) -/
def headerMap (aliases : List (Str × List Str)) (columns : List Str) (cols : List Str) : Option (List (Str × Str)) :=
  let useDouble := cols.any fun h => isInfix c!"::" h
  match cols.mapM fun h => (canonKey useDouble aliases columns h).map fun k => (h, k) with
  | none => none
  | some m => if (m.map (·.2)).all (fun k => (m.map (·.2)).count k ≤ 1) then some m else none

def canonRow (m : List (Str × Str)) (r : Cells) : Option Cells :=
  r.mapM fun kv => (lookup kv.1 m).map fun k => (k, kv.2)

/-- `parameters_generic.parse(row["parameters"])` spread into `parameters::<key>` cells -/
def expandParams (r : Cells) : Option Cells :=
  match lookup c!"parameters" r with
  | none => some r
  | some raw =>
    if !Controls.isAscii raw then none else
    match Controls.parseParams raw with
    | none => none
    | some ps => some ((r.filter fun kv => kv.1 ≠ c!"parameters") ++ ps.map fun kv => (c!"parameters::" ++ kv.1, kv.2))

/-- the three sheets with canonical keys; `none` = outside the fragment -/
def Input.canon (inp : Input) : Option Input := do
  let cm ← headerMap Headers.listAliases Headers.listColumns inp.choiceCols
  let choices ← inp.choices.mapM (canonRow cm)
  let sm ← headerMap Headers.surveyAliases Headers.surveyColumns inp.surveyCols
  let survey0 ← inp.survey.mapM (canonRow sm)
  let survey ← survey0.mapM expandParams
  pure { inp with choices, choiceCols := cm.map (·.2), survey }

/-- list names of the external_choices sheet (its header is dealiased like the choices sheet's) -/
def extListNames (inp : Input) : Option (List Str) :=
  match inp.extRows with
  | none => some []
  | some rows => do
    let m ← headerMap Headers.listAliases Headers.listColumns inp.extHeader
    let rs ← rows.mapM (canonRow m)
    pure ((groupByKey listKey rs).map (·.1))

/-- `dict.fromkeys(k for d in rows for k in d)`: header fallback of `external_choices_to_csv` (utils.py 190-195) -/
def firstKeys (rows : List Cells) : List Str :=
  (rows.flatMap fun r => r.map (·.1)).foldl (fun acc k => if acc.contains k then acc else acc ++ [k]) []

def paramsOf (cells : Cells) : Cells :=
  cells.filterMap fun kv => if startsWith kv.1 (c!"parameters::") then some (kv.1.drop 12, kv.2) else none

def hasLabelCell (cells : Cells) : Bool := has cells "label" || hasPrefix cells "label::"

/-- `add_choices_info_to_question`: does the question get `list_name` / `choices`? -/
def getsChoices (lists : List (Str × List Choice)) (cells : Cells) (sel ln : Str) : Bool :=
  let filter := (lookup (c!"choice_filter") cells).getD []
  if !filter.isEmpty then !isExternalSel sel && (match lookup ln lists with | some cs => !cs.isEmpty | none => false)
  else !(lookup (c!"parameters::randomize") cells = some (c!"true") || isFileExt (splitext ln).2 || hasBraceRef ln)

def tagOf (sel : Str) : Str :=
  match typeEntry sel with
  | some e => ((entryGet e "control" "tag").getD "").toList
  | none => []

def inlineItems (l : Str) (cs : List Choice) (_qHasLabel : Bool) : Option (List ((Bool × Str) × Str)) :=
  let itext := requiresItext cs
  let rec go : Nat → List Choice → Option (List ((Bool × Str) × Str))
    | _, [] => some []
    | i, c :: rest =>
      let lab : Option (Bool × Str) :=
        if itext then some (true, c!"jr:itext('" ++ l ++ c!"-" ++ natToStr i ++ c!"')")
        else (match c.label with | .plain s => some (false, s) | _ => some (false, []))   -- `elif option.label` (51586cd)
      match lab, go (i + 1) rest with
      | some x, some r => some ((x, c.name) :: r)
      | _, _ => none
  go 0 cs

/-- one select element → its observation (`none` = outside the fragment) -/
def selObs (inp : Input) (tbl : List NameInfo) (lists : List (Str × List Choice)) (extLists : List Str)
    (name : Str) (path : List Str) (chain : Refs.Chain) (cells : Cells) (sel ln : Str) (other : Bool) : Except String SelObs := do
  if has cells "bind::calculate" || has cells "trigger" then throw "select with calculate / trigger"
  let filterRaw := (lookup (c!"choice_filter") cells).getD []
  let params := paramsOf cells
  let ext := (splitext ln).2
  let isPrev := hasBraceRef ln
  let ref := xpathOf inp.root path
  let sub (useCurrent refParent : Bool) (s : Str) : Except String Str := match subst inp.root tbl chain useCurrent refParent s with
    | some x => pure x
    | none => throw "reference outside the fragment"
  let otherObs : Option (Str × Str × Str) :=
    if other then some (otherRelevant name, c!"string", c!"yes") else none
  -- parameters (xls2json.py 1092-1131)
  if params.any (fun kv => kv.1 ≠ c!"randomize" && kv.1 ≠ c!"seed" && kv.1 ≠ c!"value" && kv.1 ≠ c!"label") then throw "parameter"
  match lookup (c!"randomize") params with
  | some v => if v ≠ c!"true" && v ≠ c!"false" then throw "randomize value"
  | none => if (lookup (c!"seed") params).isSome then throw "seed without randomize"
  if isExternalSel sel then
    if filterRaw.isEmpty then throw "select_one_external without filter"
    if !extLists.contains ln then throw "external list missing"
    if other then throw "or_other on external"
    let pred ← sub true false filterRaw
    return { ref, tag := tagOf sel, itemset := none, items := [],
             query := some (c!"instance('" ++ ln ++ c!"')/root/item[" ++ pred ++ c!"]"), other := none }
  let known := (lookup ln lists).isSome
  if !known && !isFileExt ext && !isPrev then throw "list not in choices"
  if sel = c!"select all that apply" && !isFileExt ext then
    if isPrev && !known then throw "select_multiple from repeat"
    if ((lookup ln lists).getD []).any (fun c => c.name.contains ' ') then throw "choice name with space"
  if other && (!filterRaw.isEmpty || !known) then throw "or_other with filter / without list"
  if (has cells "parameters::value" || has cells "parameters::label") && !isFileExt ext then throw "value/label on a static list"
  let gets := getsChoices lists cells sel ln
  let cs := (lookup ln lists).getD []
  if isSearch cells then
    if isFileExt ext || isPrev then throw "search on file / repeat"
    if !gets || !known then throw "search without choices"
    match inlineItems ln cs (hasLabelCell cells) with
    | none => throw "search with unlabeled choice"
    | some items => return { ref, tag := tagOf sel, itemset := none, items, query := none, other := otherObs }
  let filter ← if filterRaw.isEmpty then pure [] else sub true isPrev filterRaw
  let seedSub ← match lookup (c!"seed") params with
    | some s => if startsWith s (c!"${") then (do let x ← sub false false s; pure (strip x)) else pure []
    | none => pure []
  let prevSub ← if isPrev then (do let x ← sub false true ln; pure (strip x)) else pure []
  let q : SelIn := { itemset := ln, filter, params, seedSub, prevSub,
                     choicesItext := known && requiresItext cs }
  return { ref, tag := tagOf sel, itemset := some (itemsetOf q), items := [], query := none, other := otherObs,
           qin := some q, listItext := known && requiresItext cs }

def selsObs (inp : Input) (tbl : List NameInfo) (lists : List (Str × List Choice)) (extLists : List Str) :
    List Elem → Except String (List SelObs)
  | [] => pure []
  | .sel name path chain cells sel ln other :: es => do
    let o ← selObs inp tbl lists extLists name path chain cells sel ln other
    let r ← selsObs inp tbl lists extLists es
    pure (o :: r)
  | _ :: es => selsObs inp tbl lists extLists es

/-- or_other selects mutate their list, in row order -/
def applyOthers : List Elem → List (Str × List Choice) → List (Str × List Choice)
  | [], ls => ls
  | .sel _ _ _ _ _ ln true :: es, ls => applyOthers es (addOther ln ls)
  | _ :: es, ls => applyOthers es ls

/-- `_setup_translations`: a list used by a `search()` select and by a non-search select that carries
    `list_name` is rejected -/
def searchMixed (lists : List (Str × List Choice)) (es : List Elem) : Bool :=
  let sl := searchLists es
  es.any fun e => match e with
    | .sel _ _ _ cells sel ln _ => !isExternalSel sel && !isSearch cells && sl.contains ln && getsChoices lists cells sel ln
    | _ => false

def hasExternalSelect : List Elem → Bool
  | [] => false
  | .sel _ _ _ _ sel _ _ :: es => isExternalSel sel || hasExternalSelect es
  | _ :: es => hasExternalSelect es

def runCore (inp : Input) : Outcome :=
  let groups := groupByKey listKey inp.choices
  let allowDup := match inp.allowDup with | some v => yesNoTrue v | none => false
  match validateLists allowDup groups with
  | some k => .error k
  | none =>
  let lists0 := choicesOf inp.choiceCols inp.choices
  match walk [] inp.survey with
  | .error w => .unsupported w
  | .ok (es, tbl) =>
  let lists := applyOthers es lists0
  match extListNames inp with
  | none => .unsupported "external_choices header"
  | some extLists =>
  match selsObs inp tbl lists extLists es with
  | .error w => .unsupported w
  | .ok sels =>
  if searchMixed lists es then .error .searchMixed else
  let insts := allInsts es lists
  if !externalNamesOk insts then .error .dupExternal else
  match emitInsts [] insts with
  | none => .error .idClash
  | some out =>
    let csv := if hasExternalSelect es then
        (match inp.extRows with | some rows => some (itemsetsCsv inp.extHeader rows) | none => none)
      else none
    .ok { instances := out, selects := sels, csv }

/-- the observation of a workbook: the two sheets are cleaned first -/
def run (inp : Input) : Outcome :=
  match inp.canon with
  | none => .unsupported "header / parameters cell"
  | some c => runCore c.cleaned

end Pyxv.Choices
