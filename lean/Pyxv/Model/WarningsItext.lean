import Pyxv.Model.Warnings
import Pyxv.Model.Itext
/-!
# The IANA warning on the model's own language set

`Survey.print_xform_to_file` (survey.py 1288-1299) checks `self._translations` — the languages of the itext
block.  `Pyxv.Itext.run` (C07's model of `_setup_translations` … `itext()`) computes that block from the built
survey; its translation languages, in order, are what `get_languages_with_bad_tags` is applied to.
-/
namespace Pyxv.Warn
open Pyxv

/-- keys of `_translations`, in order, as the itext model computes them (`none`: outside that model's fragment) -/
def surveyLanguages (x : Itext.Survey) : Option (List Str) :=
  match Itext.run x with
  | .ok o => some (o.translations.map (·.lang))
  | _ => none

/-- the IANA warning of a built survey -/
def ianaOfSurvey (isTag : Str → Bool) (x : Itext.Survey) : List W :=
  match surveyLanguages x with
  | some langs => ianaWarning isTag langs
  | none => []

/-- what is due (specification side) -/
def Spec.ianaDueOfSurvey (isTag : Str → Bool) (x : Itext.Survey) : List W :=
  match surveyLanguages x with
  | some langs => Spec.ianaDueW isTag langs
  | none => []

end Pyxv.Warn
