import Pyxv.Model.Json
import Pyxv.Model.Process
/-! Driver operations for the process model (C14). -/
namespace Pyxv.Process
open Lean Pyxv

def natList (j : Json) : Except String (List Nat) := do
  let a ← j.getArr?
  a.toList.mapM fun x => x.getNat?

def evToJson (r : Nat × Ev Nat) (size : Nat) : Json :=
  match r.2 with
  | .hit => Json.arr #[true, Json.null, size, r.1]
  | .miss none => Json.arr #[false, Json.null, size, r.1]
  | .miss (some k) => Json.arr #[false, k, size, r.1]

/-- the trace of one key sequence: per call [hit, evicted key | null, size after the call, result] -/
def lruTrace (f : Nat → Nat) : Lru Nat Nat → List Nat → List Json
  | _, [] => []
  | c, k :: ks =>
    let r := c.call f k
    evToJson (r.2.1, r.2.2) r.1.entries.length :: lruTrace f r.1 ks

def transOfJson (j : Json) : Except String Trans := do
  let a ← j.getArr?
  a.toList.mapM fun le => do
    let p ← le.getArr?
    if h : p.size = 2 then
      let lang ← p[0].getStr?
      let es ← p[1].getArr?
      let entries ← es.toList.mapM fun e => do
        let q ← e.getArr?
        if h2 : q.size = 2 then
          let path ← q[0].getStr?
          let cs ← strList q[1]
          pure (path.toList, cs)
        else throw "entry expected"
      pure (lang.toList, entries)
    else throw "lang expected"

def transToJson (t : Trans) : Json :=
  Json.arr (t.map fun le => Json.arr #[jstr le.1,
    Json.arr (le.2.map fun e => Json.arr #[jstr e.1, Json.arr (e.2.map jstr).toArray]).toArray]).toArray

def opsProcess (op : String) (j : Json) : Option (Except String Json) :=
  match op with
  | "proc.lru" => some do
      let keys ← natList (← j.getObjVal? "keys")
      let cap := getNatD j "cap" 0
      pure (Json.arr (lruTrace (fun k => k * 7 + 1) (emptyLru (some cap)) keys).toArray)
  | "proc.positions" => some do
      let lens ← natList (← j.getObjVal? "lens")
      pure (Json.arr ((positions lens).map fun p => Json.arr #[p.1, p.2]).toArray)
  | "proc.pad" => some do
      let tr ← transOfJson (← j.getObjVal? "tr")
      pure (transToJson (padFixed tr))
  | "proc.pulldata" => some do
      let order ← getStrList j "order"
      let present ← getStrList j "present"
      pure (Json.arr ((pulldataVisit true order fun a => a ∈ present).map jstr).toArray)
  | "proc.nsmap" => some do
      let tokens ← getStrList j "tokens"
      pure (pairsToJson (nsmapOf baseNsmap tokens))
  | "proc.itemsetsHeader" => some do
      let rows ← (← getArr j "rows").toList.mapM strList
      pure (Json.arr ((itemsetsHeader none rows).map jstr).toArray)
  | "proc.cleanSheet" => some do
      let rows ← (← getArr j "rows").toList.mapM fun r => do
        let ps ← pairList r
        pure (ps.map fun kv => (kv.1, Cell.str kv.2))
      let out := cleanSheet (getBoolD j "strip" false) (getBoolD j "addRow" false) rows
      pure (Json.arr (out.map fun r => Json.arr (r.map fun kv => Json.arr #[jstr kv.1,
        match kv.2 with | .str s => jstr s | .int n => (n : Json)]).toArray).toArray)
  | _ => none

end Pyxv.Process
