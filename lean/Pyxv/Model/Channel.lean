import Pyxv.Model.Xml
/-!
# Text channels: how the text of one cell reaches the XForm

Mirrors
* `pyxform/utils.py:98-148` `node(tag, text)` / `node(tag, **attrs)` / `node(tag, text, toParseString=True)`
  → `nodeText`, `nodeAttr`, `nodeParsed`;
* `pyxform/utils.py:24` `BRACKETED_TAG_REGEX = \$\{(last-saved#)?(.*?)\}` → `matchRef`;
* `pyxform/survey.py:1216-1259` `_var_repl_output_function`, `insert_output_values`
  (`escape_text_for_xml`, then `re.sub(BRACKETED_TAG_REGEX, …)`, then the `changed` flag) → `subOutputs`,
  `insertOutputValues`;
* `pyxform/survey_element.py:495-497,505-507`, `survey.py:991-1009` (label / hint / itext value:
  `node(tag, text, toParseString=output_inserted)`) → `mixedChannel`.

Not modelled (the model answers `unsupported`): `replace_with_output` (instance() expressions,
`parsing/instance_expression.py`) — skipped by the code itself unless the escaped text contains the
substring `instance(`; relative paths of `_var_repl_function` (the reference table `refs` maps a name
to the absolute xpath, which is what the code emits when the context is not inside a repeat).
-/
namespace Pyxv.Chan
open Pyxv.Xml

/-- `node(tag, s)`: one `PatchedText` child (even when `s` is empty) -/
def nodeText (tag s : Str) : Node := .elem tag [] [.text false s]

/-- `node(tag, **{k: v})` -/
def nodeAttr (tag k v : Str) : Node := .elem tag [(k, v)] []

/-- `(.*?)\}`: the shortest run of non-newline characters up to the next `}` → (run, rest after `}`) -/
def takeToBrace : Str → Option (Str × Str)
  | [] => none
  | '}' :: r => some ([], r)
  | '\n' :: _ => none
  | c :: r =>
    match takeToBrace r with
    | some (n, r') => some (c :: n, r')
    | none => none

def lastSavedTag : Str := "last-saved#".toList

/-- `BRACKETED_TAG_REGEX` tried just after a `${`: (group 1 present, group 2, rest after the match).
    The optional group is greedy: first with `last-saved#`, then (backtracking) without. -/
def matchRef (r : Str) : Option (Bool × Str × Str) :=
  if startsWith r lastSavedTag then
    match takeToBrace (r.drop lastSavedTag.length) with
    | some (n, r') => some (true, n, r')
    | none =>
      match takeToBrace r with
      | some (n, r') => some (false, n, r')
      | none => none
  else
    match takeToBrace r with
    | some (n, r') => some (false, n, r')
    | none => none

/-- `_var_repl_function` for a context outside repeats (survey.py:1189-1197):
    `f" {last_saved_prefix}{xpath} "`; `none` = PyXFormError (no / several elements of that name) -/
def varRepl (refs : List (Str × Str)) (lastSaved : Bool) (name : Str) : Option Str :=
  match lookup name refs with
  | some xp => some (' ' :: (if lastSaved then "instance('__last-saved')".toList else []) ++ xp ++ [' '])
  | none => none

/-- `_var_repl_output_function`: `<output value="{…}" />` -/
def outputMarkup (v : Str) : Str := "<output value=\"".toList ++ v ++ "\" />".toList

/-- `re.sub(BRACKETED_TAG_REGEX, _var_repl_output_function, s)`; `none` = PyXFormError.
    Fuel: `s.length + 1` suffices. -/
def subOutputs (refs : List (Str × Str)) : Nat → Str → Option Str
  | 0, _ => none
  | _ + 1, [] => some []
  | fuel + 1, '$' :: '{' :: r =>
    match matchRef r with
    | some (ls, name, rest) =>
      match varRepl refs ls name with
      | some v =>
        match subOutputs refs fuel rest with
        | some out => some (outputMarkup v ++ out)
        | none => none
      | none => none
    | none =>
      match subOutputs refs fuel ('{' :: r) with
      | some out => some ('$' :: out)
      | none => none
  | fuel + 1, c :: r =>
    match subOutputs refs fuel r with
    | some out => some (c :: out)
    | none => none

inductive Outcome (α : Type) where
  | ok (a : α)
  | pyxformError            -- PyXFormError: unknown / ambiguous name in `${…}`
  | reparseError            -- expat rejected the string handed to `parseString` (an internal error)
  | unsupported (why : String)
deriving Repr

/-- `Survey.insert_output_values(text, context)` → (string, changed) -/
def insertOutputValues (refs : List (Str × Str)) (text : Str) : Outcome (Str × Bool) :=
  if text = ['-'] then .ok (text, false) else
  let original := escText text
  -- `replace_with_output` is the identity unless an `instance(` FUNC_CALL token exists
  if 9 < original.length && isInfix "instance(".toList original then .unsupported "instance-expression" else
  let xmlText : Option Str :=
    if original.contains '{' then subOutputs refs (original.length + 1) original else some original
  match xmlText with
  | none => .pyxformError
  | some x => if x ≠ original then .ok (x, true) else .ok (text, false)

/-- `cloneNode(deep=False)` of a parsed child: elements lose their children, text becomes a stock
    `minidom.Text` -/
def shallow : Node → Node
  | .elem t a _ => .elem t a []
  | .text _ s => .text true s

def fragmentDoc (tag inner : Str) : Str :=
  "<?xml version=\"1.0\" ?>".toList ++ '<' :: tag ++ '>' :: inner ++ '<' :: '/' :: tag ++ ['>']

/-- `node(tag, inner, toParseString=True)`: `parseString(f'<?xml version="1.0" ?><{tag}>{inner}</{tag}>')`,
    the children of its root shallow-cloned under a new element -/
def nodeParsed (tag inner : Str) : Option Node :=
  match parseDoc (fragmentDoc tag inner) with
  | some (.elem _ _ ks) => some (.elem tag [] (ks.map shallow))
  | _ => none

/-- label / hint / itext value: `node(tag, *insert_output_values(text), toParseString=…)` -/
def mixedChannel (refs : List (Str × Str)) (tag text : Str) : Outcome Node :=
  match insertOutputValues refs text with
  | .ok (x, true) =>
    match nodeParsed tag x with
    | some n => .ok n
    | none => .reparseError
  | .ok (x, false) => .ok (nodeText tag x)
  | .pyxformError => .pyxformError
  | .reparseError => .reparseError
  | .unsupported w => .unsupported w

/-! ## The character check of `validate_xml_document` (utils.py, run at the end of `Survey.xml()`) -/

/-- `_validate_xml_chars`: `INVALID_XML_CHAR_REGEX = [^\t\n\r\u0020-\ud7ff\ue000-\ufffd\U00010000-\U0010ffff]`
    finds nothing -/
def validChars (s : Str) : Bool := s.all isXmlChar

mutual
/-- every text node and attribute value of the document passes `_validate_xml_chars` -/
def charsValid : Node → Bool
  | .text _ s => validChars s
  | .elem _ a ks => a.all (fun kv => validChars kv.2) && charsValidKids ks
def charsValidKids : List Node → Bool
  | [] => true
  | k :: ks => charsValid k && charsValidKids ks
end

/-- the document is handed out only when the check passes; otherwise PyXFormError -/
def checkedDoc (n : Node) : Outcome Node := if charsValid n then .ok n else .pyxformError

end Pyxv.Chan
