import Pyxv.Model.Xml
import Pyxv.Model.Lexer
/-!
# Text channels: how the text of one cell reaches the XForm

Mirrors
* `pyxform/utils.py:98-148` `node(tag, text)` / `node(tag, **attrs)` / `node(tag, text, toParseString=True)`
  → `nodeText`, `nodeAttr`, `nodeParsed`;
* `pyxform/utils.py:24` `BRACKETED_TAG_REGEX = \$\{(last-saved#)?(.*?)\}` → `matchRef`;
* `pyxform/survey.py:1216-1259` `_var_repl_output_function`, `insert_output_values`
  (`escape_text_for_xml`, then `re.sub(BRACKETED_TAG_REGEX, …)`, then the `changed` flag) → `subOutputs`,
  `insertOutputValues`;
* `pyxform/survey_element.py:495-497,505-507`, `survey.py:991-1009` (label / hint / itext value:
  `node(tag, text, toParseString=output_inserted)`) → `mixedChannel`.

* `pyxform/parsing/instance_expression.py` `find_boundaries` (token loop over `parse_expression`, the lexer of
  `Pyxv/Model/Lexer.lean`), `replace_with_output` → `fbStep`, `findBoundaries`, `subRefs`, `spliceAll`,
  `replaceWithOutput`.

Not modelled: relative paths of `_var_repl_function` (the reference table `refs` maps a name
to the absolute xpath, which is what the code emits when the context is not inside a repeat).
-/
namespace Pyxv.Chan
open Pyxv.Xml

/-- `node(tag, s)`: one `PatchedText` child (even when `s` is empty) -/
def nodeText (tag s : Str) : Node := .elem tag [] [.text false s]

/-- `node(tag, **{k: v})` -/
def nodeAttr (tag k v : Str) : Node := .elem tag [(k, v)] []

/-- `(.*?)\}`: the shortest run of non-newline characters up to the next `}` → (run, rest after `}`) -/
def takeToBrace : Str → Option (Str × Str)
  | [] => none
  | '}' :: r => some ([], r)
  | '\n' :: _ => none
  | c :: r =>
    match takeToBrace r with
    | some (n, r') => some (c :: n, r')
    | none => none

def lastSavedTag : Str := "last-saved#".toList

/-- `BRACKETED_TAG_REGEX` tried just after a `${`: (group 1 present, group 2, rest after the match).
    The optional group is greedy: first with `last-saved#`, then (backtracking) without. -/
def matchRef (r : Str) : Option (Bool × Str × Str) :=
  if startsWith r lastSavedTag then
    match takeToBrace (r.drop lastSavedTag.length) with
    | some (n, r') => some (true, n, r')
    | none =>
      match takeToBrace r with
      | some (n, r') => some (false, n, r')
      | none => none
  else
    match takeToBrace r with
    | some (n, r') => some (false, n, r')
    | none => none

/-- `_var_repl_function` for a context outside repeats (survey.py:1189-1197):
    `f" {last_saved_prefix}{xpath} "`; `none` = PyXFormError (no / several elements of that name) -/
def varRepl (refs : List (Str × Str)) (lastSaved : Bool) (name : Str) : Option Str :=
  match lookup name refs with
  | some xp => some (' ' :: (if lastSaved then "instance('__last-saved')".toList else []) ++ xp ++ [' '])
  | none => none

/-- `_var_repl_output_function`: `<output value="{…}" />` -/
def outputMarkup (v : Str) : Str := "<output value=\"".toList ++ v ++ "\" />".toList

/-- `re.sub(BRACKETED_TAG_REGEX, _var_repl_output_function, s)`; `none` = PyXFormError.
    Fuel: `s.length + 1` suffices. -/
def subOutputs (refs : List (Str × Str)) : Nat → Str → Option Str
  | 0, _ => none
  | _ + 1, [] => some []
  | fuel + 1, '$' :: '{' :: r =>
    match matchRef r with
    | some (ls, name, rest) =>
      match varRepl refs ls name with
      | some v =>
        match subOutputs refs fuel rest with
        | some out => some (outputMarkup v ++ out)
        | none => none
      | none => none
    | none =>
      match subOutputs refs fuel ('{' :: r) with
      | some out => some ('$' :: out)
      | none => none
  | fuel + 1, c :: r =>
    match subOutputs refs fuel r with
    | some out => some (c :: out)
    | none => none

inductive Outcome (α : Type) where
  | ok (a : α)
  | pyxformError            -- PyXFormError: unknown / ambiguous name in `${…}`
  | reparseError            -- expat rejected the string handed to `parseString` (an internal error)
  | unsupported (why : String)
deriving Repr

/-! ## instance() expressions: `parsing/instance_expression.py` -/

/-- loop state of `find_boundaries` (instance_expression.py 24-29) -/
structure FB where
  instanceEnter : Bool := false
  pathEnter : Bool := false
  predEnter : Bool := false
  last : Option Lexer.Token := none
  bounds : List Nat := []

/-- `t.name == "FUNC_CALL" and t.value == "instance("` -/
def isInstanceCall (t : Lexer.Token) : Bool := t.name == "FUNC_CALL" && t.value == "instance(".toList

/-- one iteration of the token loop of `find_boundaries` (instance_expression.py 31-78) -/
def fbStep (st : FB) (t : Lexer.Token) : FB :=
  if !st.instanceEnter && isInstanceCall t then
    { st with instanceEnter := true, last := some t, bounds := st.bounds ++ [t.start] }
  else if st.instanceEnter then
    let lastName : String := match st.last with | some l => l.name | none => ""
    let lastIsInst : Bool := match st.last with | some l => isInstanceCall l | none => false
    -- (emit, path_enter, pred_enter) after the `elif instance_enter:` chain
    let r : Bool × Bool × Bool :=
      if t.name == "SYSTEM_LITERAL" && lastIsInst then (true, st.pathEnter, st.predEnter)
      else if lastName == "SYSTEM_LITERAL" && t.name == "CLOSE_PAREN" then (true, st.pathEnter, st.predEnter)
      else if t.name == "PATH_SEP" && lastName == "CLOSE_PAREN" then (true, true, st.predEnter)
      else if t.name == "PATH_SEP" && lastName == "XPATH_PRED_END" then (true, true, st.predEnter)
      else if st.pathEnter then
        if t.name == "WHITESPACE" then (false, false, st.predEnter)
        else if t.name != "XPATH_PRED_START" then (true, true, st.predEnter)
        else (true, false, true)
      else if st.predEnter then
        if t.name != "XPATH_PRED_END" then (true, st.pathEnter, true) else (true, st.pathEnter, false)
      else (false, st.pathEnter, st.predEnter)
    if r.1 then { st with pathEnter := r.2.1, predEnter := r.2.2, last := some t }
    else
      { st with pathEnter := r.2.1, predEnter := r.2.2, instanceEnter := false,
                bounds := st.bounds ++ [match st.last with | some l => l.stop | none => 0] }
  else st

/-- `zip(bounds, bounds, strict=False)`: consecutive pairs, an odd last element is dropped -/
def pairUp : List Nat → List (Nat × Nat)
  | a :: b :: rest => (a, b) :: pairUp rest
  | _ => []

/-- `find_boundaries` on the token list of `parse_expression` -/
def findBoundaries (tokens : List Lexer.Token) : List (Nat × Nat) :=
  let st := tokens.foldl fbStep {}
  pairUp (st.bounds ++ (match st.last with | some l => [l.stop] | none => []))

/-- `BRACKETED_TAG_REGEX.sub(lambda m: survey._var_repl_function(m, context), s)` (references become
    plain xpaths); `none` = PyXFormError.  Fuel: `s.length + 1` suffices. -/
def subRefs (refs : List (Str × Str)) : Nat → Str → Option Str
  | 0, _ => none
  | _ + 1, [] => some []
  | fuel + 1, '$' :: '{' :: r =>
    match matchRef r with
    | some (ls, name, rest) =>
      match varRepl refs ls name with
      | some v =>
        match subRefs refs fuel rest with
        | some out => some (v ++ out)
        | none => none
      | none => none
    | none =>
      match subRefs refs fuel ('{' :: r) with
      | some out => some ('$' :: out)
      | none => none
  | fuel + 1, c :: r =>
    match subRefs refs fuel r with
    | some out => some (c :: out)
    | none => none

/-- `Survey.insert_xpaths(text, context)` (survey.py 1205-1220): every `${name}` becomes its xpath inside the
    string — the channel of bind / control attribute values (`jr:noAppErrorString`, `bind::x`, …) -/
def insertXpaths (refs : List (Str × Str)) (v : Str) : Option Str := subRefs refs (v.length + 1) v

/-- `node("output", value=v).toxml()` -/
def outputXml (v : Str) : Str := "<output value=\"".toList ++ escAttr v ++ "\"/>".toList

/-- the position-based replacement with offset tracking (instance_expression.py 122-126) -/
def spliceAll : List (Nat × Nat × Str × Str) → Int → Str → Str
  | [], _, x => x
  | (s, e, o, n) :: rest, off, x =>
    let i := (Int.ofNat s + off).toNat
    let j := (Int.ofNat e + off).toNat
    spliceAll rest (off + Int.ofNat n.length - Int.ofNat o.length) (x.take i ++ n ++ x.drop j)

/-- `replace_with_output(xml_text, context, survey)` under a given lexicon (`none` = the rule table of the
    source is not one the model knows) -/
def replaceWithOutputWith (rules : Option Lexer.Rules) (refs : List (Str × Str)) (x : Str) : Outcome Str :=
  if x.length ≤ 9 then .ok x else
  match rules.map fun r => Lexer.parseWith r x with
  | none => .unsupported "lexer-table"
  | some (tokens, _) =>
    let news := (findBoundaries tokens).mapM fun (se : Nat × Nat) =>
      let old := (x.drop se.1).take (se.2 - se.1)
      (subRefs refs (old.length + 1) old).map fun n => (se.1, se.2, old, outputXml n)
    match news with
    | none => .pyxformError
    | some l => .ok (spliceAll l 0 x)

/-- `replace_with_output` under the lexicon of the CURRENT source (`Lexer.activeRules`, regenerated table) -/
def replaceWithOutput (refs : List (Str × Str)) (x : Str) : Outcome Str :=
  replaceWithOutputWith Lexer.activeRules refs x

/-- the tail of `insert_output_values` after `replace_with_output` -/
def finishInsert (refs : List (Str × Str)) (text original x1 : Str) : Outcome (Str × Bool) :=
  let xmlText : Option Str :=
    if x1.contains '{' then subOutputs refs (x1.length + 1) x1 else some x1
  match xmlText with
  | none => .pyxformError
  | some x => if x ≠ original then .ok (x, true) else .ok (text, false)

/-- `Survey.insert_output_values(text, context)` → (string, changed), under a given lexicon -/
def insertOutputValuesWith (rules : Option Lexer.Rules) (refs : List (Str × Str)) (text : Str) : Outcome (Str × Bool) :=
  if text = ['-'] then .ok (text, false) else
  let original := escText text
  match replaceWithOutputWith rules refs original with
  | .ok x1 => finishInsert refs text original x1
  | .pyxformError => .pyxformError
  | .reparseError => .reparseError
  | .unsupported w => .unsupported w

/-- `Survey.insert_output_values(text, context)` → (string, changed) -/
def insertOutputValues (refs : List (Str × Str)) (text : Str) : Outcome (Str × Bool) :=
  insertOutputValuesWith Lexer.activeRules refs text

/-! ## The character check of `validate_xml_document` (utils.py, run at the end of `Survey.xml()`) -/

/-- `_validate_xml_chars`: `INVALID_XML_CHAR_REGEX = [^\t\n\r\u0020-\ud7ff\ue000-\ufffd\U00010000-\U0010ffff]`
    finds nothing -/
def validChars (s : Str) : Bool := s.all isXmlChar

mutual
/-- every text node and attribute value of the document passes `_validate_xml_chars` -/
def charsValid : Node → Bool
  | .text _ s => validChars s
  | .elem _ a ks => a.all (fun kv => validChars kv.2) && charsValidKids ks
def charsValidKids : List Node → Bool
  | [] => true
  | k :: ks => charsValid k && charsValidKids ks
end

/-- the document is handed out only when the check passes; otherwise PyXFormError -/
def checkedDoc (n : Node) : Outcome Node := if charsValid n then .ok n else .pyxformError

/-- `cloneNode(deep=False)` of a parsed child: elements lose their children, text becomes a stock
    `minidom.Text` -/
def shallow : Node → Node
  | .elem t a _ => .elem t a []
  | .text _ s => .text true s

def fragmentDoc (tag inner : Str) : Str :=
  "<?xml version=\"1.0\" ?>".toList ++ '<' :: tag ++ '>' :: inner ++ '<' :: '/' :: tag ++ ['>']

/-- `node(tag, inner, toParseString=True)`: `parseString(f'<?xml version="1.0" ?><{tag}>{inner}</{tag}>')`,
    the children of its root shallow-cloned under a new element -/
def nodeParsed (tag inner : Str) : Option Node :=
  match parseDoc (fragmentDoc tag inner) with
  | some (.elem _ _ ks) => some (.elem tag [] (ks.map shallow))
  | _ => none

/-- label / hint / itext value: `node(tag, *insert_output_values(text), toParseString=…)` -/
def mixedChannelWith (rules : Option Lexer.Rules) (refs : List (Str × Str)) (tag text : Str) : Outcome Node :=
  match insertOutputValuesWith rules refs text with
  | .ok (x, true) =>
    -- utils.node (fix 9bea19c): `_validate_xml_chars(unicode_args[0], …)` before `parseString`
    if !validChars x then .pyxformError else
    match nodeParsed tag x with
    | some n => .ok n
    | none => .reparseError
  | .ok (x, false) => .ok (nodeText tag x)
  | .pyxformError => .pyxformError
  | .reparseError => .reparseError
  | .unsupported w => .unsupported w

/-- the channel under the lexicon of the current source -/
def mixedChannel (refs : List (Str × Str)) (tag text : Str) : Outcome Node :=
  mixedChannelWith Lexer.activeRules refs tag text

end Pyxv.Chan
