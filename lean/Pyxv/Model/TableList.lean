import Pyxv.Model.Controls
/-!
# table-list groups: the generated rows and the appearance rewriting

Mirrors the `table_list` state of `xls2json.workbook_to_json` (xls2json.py 539-541, 794-795, 916-951,
1152-1187) as a sheet-to-sheet expansion on numbered rows:
* a `begin …` row whose appearance contains the word `table-list` sets the state to `True`; its appearance
  becomes `field-list` followed by the other words; when it has a label or hint these cells move to a generated
  first child `{type: note, name: generated_table_list_label_<row>}`;
* every `end …` row resets the state to `None`;
* while the state is not `None`, the first select row (state `True`) must have no `choice_filter`, fixes the state
  to its list name, and is preceded by the generated header `{type: <select> <list>, name:
  reserved_name_for_field_list_labels_<row>, control: {appearance: label}}`; a select on another list is
  "Badly formatted table list"; every such select gets the appearance `list-nolabel`.
Disabled rows, rows without type, `audit` and settings-type rows `continue` before any of this.
The generated rows are ordinary rows for `Rows.classify` / `Controls.rowControls` (a `note`, a select whose
appearance `label` gives it the blank label), so the structure and attribute theorems apply to them unchanged.
-/
namespace Pyxv.TableList
open Pyxv Pyxv.Form Pyxv.Rows Pyxv.Controls

/-- `None` / `True` / the list name -/
inductive TL where
  | off
  | armed
  | on (list : Str)
deriving DecidableEq, Repr, Inhabited

def isDisplayKey (base : String) (k : Str) : Bool := k = base.toList || startsWith k (base.toList ++ (k!"::"))

/-- `k ++ " " ++ list`: the type cell without an `or_other` tail (a type cell for the generated header) -/
def selectHead (t : Str) : Option Str :=
  (gtab Pyxv.Gen.aliasSelect).findSome? fun (k, _) =>
    if startsWith t k then
      match t.drop k.length with
      | ' ' :: rest =>
        let ln := rest.takeWhile fun c => !pyIsSpace c
        if ln.isEmpty then none else some (k ++ ' ' :: ln)
      | _ => none
    else none

def setCell (r : Cells) (k v : Str) : Cells := dset r k v

def natStr (n : Nat) : Str := (toString n).toList

/-- one row: the rows it becomes, the next state, and whether the row is rejected by the table-list checks -/
def step (tl : TL) (n : Nat) (r0 : Cells) : List Cells × TL × Bool :=
  if (match get r0 "disabled" with | some v => yesNoTrue v | none => false) then ([r0], tl, false) else
  let r := r0.filter fun kv => kv.1 ≠ (k!"disabled")
  match get r "type" with
  | none => ([r0], tl, false)
  | some t0 =>
    let t := dealias t0
    if t = (k!"audit") || settingsTypes.contains t then ([r0], tl, false) else
    match matchControl "end" false t with
    | some _ => ([r0], .off, false)
    | none =>
    match matchControl "begin" true t with
    | some _ =>
      (match get r "control::appearance" with
       | some a =>
         let mods := splitWs a
         if mods.contains (const "TABLE_LIST") then
           let app := (mods.filter (· ≠ const "TABLE_LIST")).foldl (fun acc w => acc ++ ' ' :: w) (const "FIELD_LIST")
           let display := r0.filter fun kv => isDisplayKey "label" kv.1 || isDisplayKey "hint" kv.1
           let r1 := setCell (r0.filter fun kv => !(isDisplayKey "label" kv.1 || isDisplayKey "hint" kv.1))
                       (k!"control::appearance") app
           let note : List Cells := if display.isEmpty then [] else
             [[((k!"type"), (k!"note")), ((k!"name"), (k!"generated_table_list_label_") ++ natStr n)] ++ display]
           (r1 :: note, .armed, false)
         else ([r0], tl, false)
       | none => ([r0], tl, false))
    | none =>
    match matchSelect t, selectHead t with
    | some (_, ln, _), some head =>
      (match tl with
       | .off => ([r0], .off, false)
       | .armed =>
         let header : Cells := [((k!"type"), head), ((k!"name"), (k!"reserved_name_for_field_list_labels_") ++ natStr n),
           ((k!"control::appearance"), (k!"label"))]
         -- "Choice filter not supported for table-list appearance"
         ([header, setCell r0 (k!"control::appearance") (const "LIST_NOLABEL")], .on ln, has r "choice_filter")
       | .on l =>
         -- "Badly formatted table list, list names don't match"
         ([setCell r0 (k!"control::appearance") (const "LIST_NOLABEL")], .on l, l ≠ ln))
    | _, _ => ([r0], tl, false)

/-- the whole sheet; generated rows carry the number of the row that generated them; the flag says that
    some row is rejected by the table-list checks -/
def expand : TL → List (Nat × Cells) → List (Nat × Cells) × Bool
  | _, [] => ([], false)
  | tl, (n, r) :: rs =>
    let (out, tl', bad) := step tl n r
    let (rest, bad') := expand tl' rs
    (out.map (fun x => (n, x)) ++ rest, bad || bad')

/-- no row of the sheet opens a table-list: the expansion is the identity -/
def plain (rows : List (Nat × Cells)) : Bool :=
  rows.all fun nr => match get nr.2 "control::appearance" with
    | some a => !(splitWs a).contains (const "TABLE_LIST")
    | none => true

/-- the rows of the sheet as the row loop sees them: numbered from 2, table-list expanded -/
def sheetRows (rows : List Cells) : List (Nat × Cells) := (expand .off (number 2 rows)).1

/-- the structural pipeline with table-list groups: expansion, `prep` (type dealiased, `parameters` taken
    out), `Rows.formOutN`; the flag of the expansion rejects -/
def formOutT (root : Str) (lists : List Str) (rows : List Cells) (settings : Cells) : Except FormErr FormOut :=
  match formOutN root lists ((sheetRows rows).map fun nr => (nr.1, (prep nr.2).1)) settings with
  | .error e => .error e
  | .ok o => if (expand .off (number 2 rows)).2 then .error (.err (.row 0 (.other (k!"table-list")))) else .ok o

end Pyxv.TableList
