import Pyxv.Model.Json
import Pyxv.Model.BackendsGuards
/-! Driver operations for the container backends (C12). -/
namespace Pyxv.Backends
open Lean Pyxv

def errStr : Err → String
  | .readError => "readError" | .keyError => "KeyError" | .indexError => "IndexError"
  | .typeError => "TypeError" | .attributeError => "AttributeError"
  | .dupHeader _ => "dupHeader" | .unsupported => "unsupported"

def optStrJson : Option Str → Json
  | some s => jstr s
  | .none => Json.null

def strsJson (l : List Str) : Json := Json.arr (l.map jstr).toArray

def krowJson (r : KRow) : Json :=
  Json.arr (r.map fun (k, v) => Json.arr #[optStrJson k, jstr v]).toArray

def valJson : Val → Json
  | .names l => strsJson l
  | .rows l => Json.arr (l.map krowJson).toArray
  | .header l => Json.arr (l.map fun ks => Json.arr (ks.map fun k => Json.arr #[jstr k, Json.null]).toArray).toArray

def bookJson (b : Book) : Json := Json.arr (b.map fun (k, v) => Json.arr #[jstr k, valJson v]).toArray

def resultJson (r : Except Err Book) : Json :=
  match r with
  | .ok b => Json.mkObj [("outcome", "ok"), ("book", bookJson b)]
  | .error e => Json.mkObj [("outcome", Json.str (errStr e))]

def cellOfJson (j : Json) : Except String Cell := do
  match j with
  | .null => pure .none
  | .str s => pure (.text s.toList)
  | .bool b => pure (.bool b)
  | _ =>
    let t ← j.getObjValAs? String "t"
    if t = "int" then
      let n ← j.getObjValAs? Int "v"
      pure (.int n)
    else if t = "float" then
      let r ← getStr j "repr"
      match j.getObjVal? "i" with
      | .ok (.null) => pure (.float .none r)
      | .ok v => let n ← v.getInt?; pure (.float (some n) r)
      | .error _ => pure (.float .none r)
    else throw "bad cell"

def optStrOfJson (j : Json) : Except String (Option Str) :=
  match j with
  | .null => pure .none
  | .str s => pure (some s.toList)
  | _ => throw "str|null expected"

def rowJson (r : Row) : Json := Json.arr (r.map fun (k, v) => Json.arr #[jstr k, jstr v]).toArray

def sheetOfJson (j : Json) : Except String Sheet := do
  let name ← getStr j "name"
  let header ← getStrList j "header"
  let rows ← (← getArr j "rows").toList.mapM strList
  pure ⟨name, header, rows⟩

def ftOfJson (j : Json) (k : String) : Option FileType :=
  match j.getObjVal? k with
  | .ok (.str s) => FileType.ofSuffix s.toList
  | _ => .none

def opsBackends (op : String) (j : Json) : Option (Except String Json) :=
  match op with
  | "be.csv_read" => some do
      let t ← getStr j "text"
      pure (Json.arr ((csvRead t).map strsJson).toArray)
  | "be.csv_write" => some do
      let rows ← (← getArr j "rows").toList.mapM strList
      pure (jstr (csvWrite rows))
  | "be.csv_to_dict" => some do
      let t ← getStr j "text"
      pure (resultJson (csvToDict t))
  | "be.md_to_dict" => some do
      let t ← getStr j "text"
      pure (resultJson (mdToDict t))
  | "be.md_structure" => some do
      let t ← getStr j "text"
      pure (Json.arr ((mdStructure t).map fun (k, v) => Json.arr #[optStrJson k,
        match v with
        | .none => Json.bool false
        | some rows => Json.arr (rows.map fun r => Json.arr (r.map optStrJson).toArray).toArray]).toArray)
  | "be.render" => some do
      let wb ← (← getArr j "sheets").toList.mapM sheetOfJson
      pure (Json.mkObj [("md", jstr (renderMd wb)), ("csv", jstr (renderCsv wb)), ("book", bookJson (toBook wb)),
        ("mdok", Json.bool (Md.MdOK wb && isMarkdownTable (renderMd wb))),
        ("csvok", Json.bool (Csv.CsvOK wb && isCsv (renderCsv wb)))])
  | "be.cell_text" => some do
      let cs ← (← getArr j "cells").toList.mapM cellOfJson
      pure (Json.arr (cs.map fun c => optStrJson (cellText c)).toArray)
  | "be.headers" => some do
      let row ← (← getArr j "row").toList.mapM optStrOfJson
      match getHeaders row with
      | .ok hs => pure (Json.mkObj [("outcome", "ok"), ("headers", Json.arr (hs.map optStrJson).toArray)])
      | .error e => pure (Json.mkObj [("outcome", Json.str (errStr e))])
  | "be.rows" => some do
      let hdr ← (← getArr j "headers").toList.mapM optStrOfJson
      let rows ← (← getArr j "rows").toList.mapM fun r => do (← r.getArr?).toList.mapM cellOfJson
      pure (Json.arr ((getRows hdr rows).map rowJson).toArray)
  | "be.sheet" => some do
      -- first row → headers → rows, as x*_to_dict_normal_sheet does
      let grid ← (← getArr j "grid").toList.mapM fun r => do (← r.getArr?).toList.mapM cellOfJson
      match sheetOfGrid grid with
      | .error e => pure (Json.mkObj [("outcome", Json.str (errStr e))])
      | .ok (rows, hdr) =>
        pure (Json.mkObj [("outcome", "ok"), ("rows", Json.arr (rows.map rowJson).toArray),
          ("header", Json.arr (hdr.map strsJson).toArray)])
  | "be.path_parts" => some do
      let n ← getStr j "name"
      pure (Json.mkObj [("stem", jstr (pathStem (pathName n))), ("suffix", jstr (pathSuffix (pathName n))), ("name", jstr (pathName n))])
  | "be.excel_guard" => some do
      -- guard of `excel_roundtrip` on an abstract workbook and decoded grids; the dict container
      let wb ← (← getArr j "sheets").toList.mapM sheetOfJson
      let gs ← (← getArr j "grids").toList.mapM fun gj => do
        (← gj.getArr?).toList.mapM fun r => do (← r.getArr?).toList.mapM cellOfJson
      pure (Json.mkObj [("ok", Json.bool (Excel.ExcelOK wb && Excel.showsAllB wb gs)),
        ("excelok", Json.bool (Excel.ExcelOK wb)), ("book", bookJson (toBook wb))])
  | "be.excel_to_dict" => some do
      let sheets ← (← getArr j "sheets").toList.mapM fun sj => do
        let name ← getStr sj "name"
        let grid ← (← getArr sj "grid").toList.mapM fun r => do (← r.getArr?).toList.mapM cellOfJson
        pure (name, grid)
      pure (resultJson (excelToDict sheets))
  | "be.get_xlsform" => some do
      -- text containers through a channel; binary parsers answer readError on text
      let t ← getStr j "text"
      let ch : Channel := match j.getObjVal? "channel" with
        | .ok (.str "path") => .path (getStrD j "name" "data.md")
        | .ok (.str "bytes") => .bytes
        | .ok (.str "bytesio") => .bytesIO (getNatD j "pos" 0)
        | .ok (.str "file") => .file (getNatD j "pos" 0)
        | _ => .text
      match getXlsform (fun _ _ => .error .readError) ch t (ftOfJson j "file_type") with
      | .ok (b, stem) => pure (Json.mkObj [("outcome", "ok"), ("book", bookJson b), ("stem", optStrJson stem)])
      | .error e => pure (Json.mkObj [("outcome", Json.str (errStr e))])
  | _ => none

end Pyxv.Backends
