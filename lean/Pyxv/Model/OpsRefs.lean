import Pyxv.Model.Json
import Pyxv.Model.Refs
import Pyxv.Model.RefsText
/-! Driver operations for the reference slice (C03). -/
namespace Pyxv.Refs
open Lean Pyxv

def ctxOfStr (s : Str) : List Str :=
  match splitOnChar '/' s with
  | [] :: rest => rest
  | l => l

def resolveJson (ctx hole : Str) : Json :=
  match parseHole hole with
  | none => Json.mkObj [("form", "bad"), ("resolved", Json.null)]
  | some h =>
    let form : String := match h.e with | .abs _ => "abs" | .rel _ _ => "rel" | .lastSaved _ => "lastsaved"
    let steps : Nat := match h.e with | .rel k _ => k | _ => 0
    let res : Json := match resolve (ctxOfStr ctx) h.e with
      | some p => jstr (pathStr p)
      | none => Json.null
    Json.mkObj [("form", Json.str form), ("current", Json.bool h.current), ("steps", steps), ("resolved", res)]

partial def elOfJson (j : Json) : Except String El := do
  let n ← getStr j "n"
  let k ← getStr j "k"
  let kind ← match String.ofList k with
    | "q" => pure Kind.q | "group" => pure Kind.group | "rep" => pure Kind.rep
    | o => throw s!"kind {o}"
  let kids ← (← getArr j "kids").toList.mapM elOfJson
  pure (.mk kind n kids)

def findByXpath (els : List Chain) (x : Str) : Option Chain := els.find? fun c => c.xpath == x

def optStr : Option Str → Json
  | some s => jstr s
  | none => Json.bool false

def outToJson (o : Out) : Json :=
  match o with
  | .ok .. => Json.mkObj [("out", "ok"), ("text", match o.text with | some t => jstr t | none => Json.null)]
  | .unknown n => Json.mkObj [("out", "unknown"), ("name", jstr n)]
  | .ambiguous n => Json.mkObj [("out", "ambiguous"), ("name", jstr n)]

def opsRefs (op : String) (j : Json) : Option (Except String Json) :=
  match op with
  | "refs.resolve" => some do
      let items ← getArr j "items"
      let out ← items.toList.mapM fun it => do
        let c ← getStr it "ctx"
        let h ← getStr it "hole"
        pure (resolveJson c h)
      pure (Json.arr out.toArray)
  | "refs.model" => some do
      -- `_var_repl_function` on a tree for a list of (context, name, flags)
      let tree ← elOfJson (← j.getObjVal? "tree")
      let els := tree.chains []
      let qs ← getArr j "queries"
      let out ← qs.toList.mapM fun q => do
        let name ← getStr q "name"
        let ctx : Option Chain ← match q.getObjVal? "ctx" with
          | .ok (.str s) => match findByXpath els s.toList with
            | some c => pure (some c)
            | none => throw s!"no element at {s}"
          | _ => pure none
        -- with "text"/"start"/"end" the occurrence flags are computed by the model from the cell text
        let (ia, ip) : Bool × Bool := match q.getObjVal? "text" with
          | .ok (.str t) =>
            let w := t.toList
            let st := getNatD q "start" 0
            let en := getNatD q "end" 0
            ((indexedArgAt w st en name).getD false, inPredicateAt w st en)
          | _ => (getBoolD q "ia" false, getBoolD q "ip" false)
        let fl : Flags := { lastSaved := getBoolD q "ls" false, indexedArg := ia,
                            inPredicate := ip, useCurrent := getBoolD q "uc" false,
                            referenceParent := getBoolD q "rp" false }
        pure (outToJson (refFor els ctx name fl))
      pure (Json.arr out.toArray)
  | "refs.funcs" => some do
      -- the helper functions one by one, for correspondence with the Python functions called directly
      let tree ← elOfJson (← j.getObjVal? "tree")
      let els := tree.chains []
      let reps := repeatXpaths els
      let ps ← getArr j "pairs"
      let out ← ps.toList.mapM fun p => do
        let x ← getStr p "x"
        let c ← getStr p "c"
        let rp := getBoolD p "rp" false
        let ss : Json := match shareSameRepeatParent reps x c rp with
          | some (steps, parts) => Json.arr #[(steps : Nat), jstr (pathStr parts)]
          | none => Json.null
        let rel : Json := match findByXpath els c, findByXpath els x with
          | some cc, some tc => Json.bool (related cc tc)
          | _, _ => Json.null
        pure (Json.mkObj [("ipar_x", optStr (isParentARepeat reps x)), ("ipar_c", optStr (isParentARepeat reps c)),
                          ("ssrp", ss), ("related", rel)])
      pure (Json.arr out.toArray)
  | "refs.find" => some do
      -- BRACKETED_TAG_REGEX occurrences of each text: [[lastSaved, name], …], and whether every `${` opens one
      let texts ← getStrList j "texts"
      pure (Json.arr (texts.map fun t =>
        Json.mkObj [("refs", Json.arr ((findRefs (t.length + 1) t).map fun (ls, n) => Json.arr #[Json.bool ls, jstr n]).toArray),
                    ("closed", Json.bool (refsClosed (t.length + 1) t))]).toArray)
  | "refs.insert" => some do
      -- `Survey.insert_xpaths(text, context, use_current, reference_parent)` from the cell text alone
      let tree ← elOfJson (← j.getObjVal? "tree")
      let els := tree.chains []
      let items ← getArr j "items"
      let out ← items.toList.mapM fun q => do
        let text ← getStr q "text"
        let ctx : Option Chain ← match q.getObjVal? "ctx" with
          | .ok (.str s) => match findByXpath els s.toList with
            | some c => pure (some c)
            | none => throw s!"no element at {s}"
          | _ => pure none
        let uc := getBoolD q "uc" false
        let rp := getBoolD q "rp" false
        pure (match insertXpathsText els ctx uc rp text with
          | some t => Json.mkObj [("out", "ok"), ("text", jstr t)]
          | none => match firstFailure els ctx uc rp text (text.length + 1) text with
            | .unknown n => Json.mkObj [("out", "unknown"), ("name", jstr n)]
            | .ambiguous n => Json.mkObj [("out", "ambiguous"), ("name", jstr n)]
            | _ => Json.mkObj [("out", "unsupported")])
      pure (Json.arr out.toArray)
  | "refs.valid" => some do
      -- is the hypothesis `Valid` of `relative_when_enclosed` met by this tree?
      let tree ← elOfJson (← j.getObjVal? "tree")
      pure (Json.bool (decide (Valid (tree.chains []))))
  | _ => none

end Pyxv.Refs
