import Pyxv.Model.Json
import Pyxv.Model.Refs
/-! Driver operations for the reference slice (C03). -/
namespace Pyxv.Refs
open Lean Pyxv

def ctxOfStr (s : Str) : List Str :=
  match splitOnChar '/' s with
  | [] :: rest => rest
  | l => l

def resolveJson (ctx hole : Str) : Json :=
  match parseHole hole with
  | none => Json.mkObj [("form", "bad"), ("resolved", Json.null)]
  | some h =>
    let form : String := match h.e with | .abs _ => "abs" | .rel _ _ => "rel" | .lastSaved _ => "lastsaved"
    let steps : Nat := match h.e with | .rel k _ => k | _ => 0
    let res : Json := match resolve (ctxOfStr ctx) h.e with
      | some p => jstr (pathStr p)
      | none => Json.null
    Json.mkObj [("form", Json.str form), ("current", Json.bool h.current), ("steps", steps), ("resolved", res)]

def opsRefs (op : String) (j : Json) : Option (Except String Json) :=
  match op with
  | "refs.resolve" => some do
      let items ← getArr j "items"
      let out ← items.toList.mapM fun it => do
        let c ← getStr it "ctx"
        let h ← getStr it "hole"
        pure (resolveJson c h)
      pure (Json.arr out.toArray)
  | _ => none

end Pyxv.Refs
