import Pyxv.Model.Json
import Pyxv.Model.Binds
import Pyxv.Model.Headers
/-! Driver operations for the bind slice (C05). -/
namespace Pyxv.Binds
open Lean Pyxv

def attrsToJson (l : List (Str × Str)) : Json := pairsToJson l

def bindToJson (b : Bind) : Json := Json.arr #[jstr (Form.xpathStr b.path), attrsToJson b.attrs]

def outToJson : Out → Json
  | .ok bs => Json.mkObj [("outcome", "ok"), ("binds", Json.arr (bs.map bindToJson).toArray)]
  | .dupHeader a b => Json.mkObj [("outcome", "error"), ("kind", "dupHeader"), ("a", jstr a), ("b", jstr b)]
  | .unsupported w => Json.mkObj [("outcome", "unsupported"), ("why", Json.str w)]

/-- `"text"` or `[[lang, text], …]` -/
def bvalOfJson (j : Json) : Except String BVal :=
  match j with
  | .str s => pure (.s s.toList)
  | _ => do let l ← pairList j; pure (.d l)

def logicOfJson (j : Json) : Except String BindDict := do
  let a ← j.getArr?
  a.toList.mapM fun x => do
    let p ← x.getArr?
    if h : p.size = 2 then
      let k ← p[0].getStr?
      let v ← bvalOfJson p[1]
      pure (k.toList, v)
    else throw "pair expected"

def nhToJson : NH → Json
  | .str s => jstr s
  | .tup => Json.null

/-! ### model-to-model tie with `Pyxv.Headers` (C08/C13's model of the same Python functions) -/

def kvsLangs : Headers.Kvs → Option (List (Str × Str))
  | .nil => some []
  | .cons k (.str v) rest => (kvsLangs rest).map ((k, v) :: ·)
  | .cons _ _ _ => none

def kvsBind : Headers.Kvs → Option BindDict
  | .nil => some []
  | .cons k (.str v) rest => (kvsBind rest).map ((k, BVal.s v) :: ·)
  | .cons k (.dict d) rest =>
    match kvsLangs d, kvsBind rest with
    | some l, some r => some ((k, BVal.d l) :: r)
    | _, _ => none
  | .cons _ .none _ => none

/-- the row's bind dict according to `Pyxv.Headers.processRow` (on cleaned cells) -/
def headersBind (dl : Str) (hk : List (Str × List Str)) (cells : List (Str × Str)) : Option (Option BindDict) :=
  match Headers.processRow dl hk (cells.map fun (h, v) => (h, cleanCell v)) with
  | .error _ => none
  | .ok out =>
    match out.get "bind".toList with
    | .none => some none
    | .dict d => (kvsBind d).map some
    | .str _ => none

/-- do the two Lean models of `process_header` / `process_row` agree on this sheet (as far as binds go)? -/
def headersBridge (dl : Str) (headers : List Str) (rows : List (List (Str × Str))) : Json :=
  let udc := headers.any fun h => isInfix "::".toList h
  match headerKey headers, Headers.headerLoop udc Headers.surveyAliases Headers.surveyColumns headers [] [] with
  | .ok key, .ok (hk, _) =>
    if key != hk then Json.mkObj [("ok", false), ("where", "header key")]
    else
      let bad := rows.filter fun cells =>
        match processRow dl key {} cells with
        | .ok r => headersBind dl hk cells != some r.bind
        | .error _ => false
      Json.mkObj [("ok", bad.isEmpty), ("where", "row bind"), ("rows", rows.length), ("bad", bad.length)]
  | .error (.dup _ _), .error (.duplicate _ _) => Json.mkObj [("ok", true), ("where", "both reject duplicate")]
  | .error (.unsupported _), _ => Json.mkObj [("ok", true), ("where", "outside the fragment")]
  | _, _ => Json.mkObj [("ok", false), ("where", "verdict")]

def opsBinds (op : String) (j : Json) : Option (Except String Json) :=
  match op with
  | "binds.model" => some do
      let headers ← getStrList j "headers"
      let rows ← (← getArr j "rows").toList.mapM pairList
      let lists ← getStrList j "lists"
      pure (outToJson (formBinds (getStrD j "root" "data") (getStrD j "dl" "default") lists headers rows))
  | "binds.headers_bridge" => some do
      let headers ← getStrList j "headers"
      let rows ← (← getArr j "rows").toList.mapM pairList
      pure (headersBridge (getStrD j "dl" "default") headers rows)
  | "binds.to_snake_case" => some do
      let s ← getStr j "s"
      pure (jstr (toSnakeCase s))
  | "binds.clean_cell" => some do
      let s ← getStr j "s"
      pure (jstr (cleanCell s))
  | "binds.process_header" => some do
      let h ← getStr j "h"
      match processHeader (getBoolD j "udc" false) surveyAliases surveyColumns h with
      | none => pure Json.null
      | some (nh, toks) => pure (Json.arr #[nhToJson nh, Json.arr (toks.map jstr).toArray])
  | "binds.spec" => some do
      -- expected attribute map of each canonical row (the property's oracle)
      let root := getStrD j "root" "data"
      let tops ← getStrList j "tops"
      let rows ← getArr j "rows"
      let outs ← rows.toList.mapM fun r => do
        let path ← getStr r "path"
        let logic ← logicOfJson (← r.getObjVal? "logic")
        let tt : List (Str × Str) :=
          match r.getObjVal? "tkey" with
          | .ok (.str t) => (typeBind t.toList).getD []
          | _ => []
        match Spec.expected root tops path tt logic (getBoolD r "trigger" false) with
        | none => pure Json.null
        | some l => pure (attrsToJson l)
      pure (Json.arr outs.toArray)
  | _ => none

end Pyxv.Binds
