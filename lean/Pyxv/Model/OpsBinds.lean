import Pyxv.Model.Json
import Pyxv.Model.Binds
/-! Driver operations for the bind slice (C05). -/
namespace Pyxv.Binds
open Lean Pyxv

def attrsToJson (l : List (Str × Str)) : Json := pairsToJson l

def bindToJson (b : Bind) : Json := Json.arr #[jstr (Form.xpathStr b.path), attrsToJson b.attrs]

def outToJson : Out → Json
  | .ok bs => Json.mkObj [("outcome", "ok"), ("binds", Json.arr (bs.map bindToJson).toArray)]
  | .dupHeader a b => Json.mkObj [("outcome", "error"), ("kind", "dupHeader"), ("a", jstr a), ("b", jstr b)]
  | .unsupported w => Json.mkObj [("outcome", "unsupported"), ("why", Json.str w)]

/-- `"text"` or `[[lang, text], …]` -/
def bvalOfJson (j : Json) : Except String BVal :=
  match j with
  | .str s => pure (.s s.toList)
  | _ => do let l ← pairList j; pure (.d l)

def logicOfJson (j : Json) : Except String BindDict := do
  let a ← j.getArr?
  a.toList.mapM fun x => do
    let p ← x.getArr?
    if h : p.size = 2 then
      let k ← p[0].getStr?
      let v ← bvalOfJson p[1]
      pure (k.toList, v)
    else throw "pair expected"

def nhToJson : NH → Json
  | .str s => jstr s
  | .tup => Json.null

def opsBinds (op : String) (j : Json) : Option (Except String Json) :=
  match op with
  | "binds.model" => some do
      let headers ← getStrList j "headers"
      let rows ← (← getArr j "rows").toList.mapM pairList
      let lists ← getStrList j "lists"
      pure (outToJson (formBinds (getStrD j "root" "data") (getStrD j "dl" "default") lists headers rows))
  | "binds.to_snake_case" => some do
      let s ← getStr j "s"
      pure (jstr (toSnakeCase s))
  | "binds.clean_cell" => some do
      let s ← getStr j "s"
      pure (jstr (cleanCell s))
  | "binds.process_header" => some do
      let h ← getStr j "h"
      match processHeader (getBoolD j "udc" false) surveyAliases surveyColumns h with
      | none => pure Json.null
      | some (nh, toks) => pure (Json.arr #[nhToJson nh, Json.arr (toks.map jstr).toArray])
  | "binds.spec" => some do
      -- expected attribute map of each canonical row (the property's oracle)
      let root := getStrD j "root" "data"
      let tops ← getStrList j "tops"
      let rows ← getArr j "rows"
      let outs ← rows.toList.mapM fun r => do
        let path ← getStr r "path"
        let logic ← logicOfJson (← r.getObjVal? "logic")
        let tt : List (Str × Str) :=
          match r.getObjVal? "tkey" with
          | .ok (.str t) => (typeBind t.toList).getD []
          | _ => []
        match Spec.expected root tops path tt logic (getBoolD r "trigger" false) with
        | none => pure Json.null
        | some l => pure (attrsToJson l)
      pure (Json.arr outs.toArray)
  | _ => none

end Pyxv.Binds
