import Pyxv.Model.Itext
import Pyxv.Model.Channel
/-!
# ItextOutput: the DOM of every `<value>` of the itext block, `<output>` substitution included

`Pyxv.Itext` states form and *text* of each `<value>` and leaves a value whose text goes through `<output>`
substitution unstated (`plainText`).  This file closes that gap for the text-bearing values (label / hint /
guidance / bind messages / choice labels): `Survey.itext()` (survey.py:1037-1110) hands every final table value to
`insert_output_values` and builds `node("value", value, [form=…,] toParseString=output_inserted)` — that is
C06's `Pyxv.Chan.mixedChannel` under the tag `value`, with the reference table of `_setup_xpath_dictionary`
(survey.py:1134-1144), followed by the `form` attribute.

* `_setup_xpath_dictionary` (name → element; a name carried by two elements maps to `None`)  → `nameRefs`
* `_var_repl_function` with `context=<the element>` (survey_element.py:379-457 `output_context`): the absolute
  xpath is used whenever the context element has no repeat ancestor (`share_same_repeat_parent` returns
  `(None, None)`, survey.py:142-180); a context at or below a repeat may get a *relative* path, which
  `Chan.varRepl` does not model → `stated` (such values stay unstated: `none`)
* `itext()` per content type                                                → `domEntry`, `valueDoms`, `outDoms`

Media values (`jr://images/…` prefix) are stated only when their text is `plainText` (as before).
-/
namespace Pyxv.ItextOut
open Pyxv Pyxv.Itext Pyxv.Xml

/-- `isinstance(i, Question | Section)` for the classes of the model -/
def inXpathDict (f : Flat) : Bool := f.d.cls != .inert && f.d.cls != .tag

/-- every (name, xpath) visited by `_setup_xpath_dictionary`: the survey root first, then the descendants -/
def allNames (x : Survey) : List (Str × Str) :=
  ((rootD x.root).name, '/' :: (rootD x.root).name) ::
    ((flats x).filter inXpathDict).map fun f => (f.d.name, f.xpath)

/-- `Survey._xpath` restricted to the names that resolve: a name carried by two elements maps to `None`
(PyXFormError "multiple survey elements"), exactly like an unknown name for `Chan.varRepl` -/
def nameRefs (x : Survey) : List (Str × Str) :=
  let all := allNames x
  all.filter fun nx => (all.filter fun ny => ny.1 == nx.1).length == 1

/-- the text id `p` does not belong to an element at or below a repeat (conservative: no repeat's xpath is a
prefix of `p`): then `_var_repl_function` emits the absolute xpath, whatever the context -/
def stated (x : Survey) (p : Str) : Bool :=
  !(flats x).any fun f => f.d.cls == .repeat && startsWith p f.xpath

def formAttr : Option Str → List (Str × Str)
  | none => []
  | some f => [("form".toList, f)]

/-- `result.setAttribute(k, v)` for the keyword arguments of `node()` -/
def withAttrs (a : List (Str × Str)) : Node → Node
  | .elem t _ ks => .elem t a ks
  | n => n

def valueTag : Str := "value".toList

/-- `node("value", *insert_output_values(text), [form=f,] toParseString=output_inserted)` -/
def valueDom (refs : List (Str × Str)) (form : Option Str) (text : Str) : Chan.Outcome Node :=
  match Chan.mixedChannel refs valueTag text with
  | .ok n => .ok (withAttrs (formAttr form) n)
  | .pyxformError => .pyxformError
  | .reparseError => .reparseError
  | .unsupported w => .unsupported w

/-- one content type of one `<text>`: (`form` attribute, DOM of the `<value>`); outer `none` = no `<value>` is
written (padded media), inner `none` = not stated.  Same case split as `Itext.valueForms`. -/
def domEntry (refs : List (Str × Str)) (st : Bool) (p : Str) (fb : Str × Str) :
    Option (Option Str × Option (Chan.Outcome Node)) :=
  -- without any `${` in the text `_var_repl_function` is never called: the context does not matter
  let txt (form : Option Str) : Option (Chan.Outcome Node) :=
    if st || !isInfix "${".toList fb.2 then some (valueDom refs form fb.2) else none
  let media (form v : Str) : Option (Chan.Outcome Node) :=
    if plainText fb.2 then some (.ok (.elem valueTag [("form".toList, form)] [.text false v])) else none
  if labelType p == "hint".toList then
    (if fb.1 == "guidance".toList then some (some fb.1, txt (some fb.1)) else some (none, txt none))
  else if fb.1 == "long".toList then some (none, txt none)
  else if fb.2 == dashStr then none
  else if fb.1 == "image".toList || fb.1 == "big-image".toList then
    some (some fb.1, media fb.1 ("jr://images/".toList ++ fb.2))
  else some (some fb.1, media fb.1 ("jr://".toList ++ fb.1 ++ '/' :: fb.2))

def valueDoms (refs : List (Str × Str)) (st : Bool) (p : Str) (fs : Forms) :
    List (Option Str × Option (Chan.Outcome Node)) :=
  fs.filterMap (domEntry refs st p)

/-- one `<text id>` with the DOM of its values -/
abbrev TextDoms := Str × List (Option Str × Option (Chan.Outcome Node))

/-- the itext block at DOM level: per language, per text id, the `<value>` elements -/
def outDoms (x : Survey) : List (Str × List TextDoms) :=
  (table x).map fun lps =>
    (lps.1, lps.2.map fun pf => (pf.1, valueDoms (nameRefs x) (stated x pf.1) pf.1 pf.2))

end Pyxv.ItextOut
