import Pyxv.Model.Json
import Pyxv.Model.Lexer
/-! Driver operations for the expression lexer (`lexer.*`). -/
namespace Pyxv.Lexer
open Lean Pyxv

def unsupported : Json := Json.mkObj [("unsupported", Json.bool true)]

def tokensToJson (ts : List (String × Str)) : Json :=
  Json.arr (ts.map fun (n, v) => Json.arr #[Json.str n, jstr v]).toArray

/-- class bits of one code point: 1 = `\d`, 2 = `\s`, 4 = name start, 8 = name extra -/
def classBits (c : Char) : Nat :=
  (if isDigit c then 1 else 0) + (if isSpace c then 2 else 0) + (if isNameStart c then 4 else 0) +
  (if isNameExtra c then 8 else 0)

/-- run-length encoding of `classBits` over `[lo, hi)` (surrogates skipped): `[[start, bits], …]` at each change -/
def classRuns (lo hi : Nat) : List (Nat × Nat) := Id.run do
  let mut out : Array (Nat × Nat) := #[]
  let mut last : Option Nat := none
  for n in [lo:hi] do
    if 0xD800 ≤ n && n ≤ 0xDFFF then continue
    let b := classBits (Char.ofNat n)
    if last != some b then
      out := out.push (n, b)
      last := some b
  return out.toList

def opsLexer (op : String) (j : Json) : Option (Except String Json) :=
  match op with
  | "lexer.scan" => some do
      let s ← getStr j "s"
      match parseExpression s with
      | none => pure unsupported
      | some (ts, rem) =>
        pure (Json.mkObj [
          ("tokens", Json.arr (ts.map fun t => Json.arr #[Json.str t.name, jstr t.value, t.start, t.stop]).toArray),
          ("rem", jstr rem)])
  | "lexer.dynamic" => some do
      let s ← getStr j "s"
      let ty := getStrD j "type" ""
      match defaultIsDynamic s ty with
      | none => pure unsupported
      | some b => pure (Json.bool b)
  | "lexer.batch" => some do
      -- many strings at once: [[text, type], …] → [[tokens, rem, dynamic, refSyntaxOk], …]
      let items ← getArr j "items"
      match activeRules with
      | none => pure unsupported
      | some rules =>
        let out ← items.toList.mapM fun it => do
          let p ← it.getArr?
          if h : p.size = 2 then
            let s := (← p[0].getStr?).toList
            let ty := (← p[1].getStr?).toList
            let r := scanWith rules s
            pure (Json.arr #[tokensToJson r.1, jstr r.2, Json.bool (dynamicWith rules s ty),
              Json.bool ((refSyntaxOk s).getD true)])
          else throw "pair expected"
        pure (Json.arr out.toArray)
  | "lexer.pinned" => some do
      -- classification under the pinned lexicon: [[text, type], …] → [bool, …]
      let items ← getArr j "items"
      let out ← items.toList.mapM fun it => do
        let p ← it.getArr?
        if h : p.size = 2 then
          pure (Json.bool (dynamicPinned (← p[0].getStr?).toList (← p[1].getStr?).toList))
        else throw "pair expected"
      pure (Json.arr out.toArray)
  | "lexer.refsyntax" => some do
      let s ← getStr j "s"
      match refSyntaxOk s with
      | none => pure unsupported
      | some b => pure (Json.bool b)
  | "lexer.classes" => some do
      let lo := getNatD j "lo" 0
      let hi := getNatD j "hi" 0
      pure (Json.arr ((classRuns lo hi).map fun (a, b) => Json.arr #[(a : Json), (b : Json)]).toArray)
  | "lexer.rules" => some do
      pure (Json.mkObj [("active", Json.bool activeRules.isSome),
        ("names", Json.arr ((activeRules.getD []).map fun r => Json.str r.1).toArray)])
  | _ => none

end Pyxv.Lexer
