import Pyxv.Model.JVal
import Pyxv.Generated.Tables
/-!
# C18 — `utils.has_external_choices` (pyxform/utils.py:260-279) and the itemsets decision of `convert`

The function walks the whole JSON intermediate form: every value of every dict and every element of every list,
whatever the key or the element type; it answers `True` as soon as some dict has `type` bound to a string that
starts with `select one external`.
-/
namespace Pyxv.Validator
open Pyxv.JV

def typeKey : Str := Gen.c18TypeKey.toList
def childrenKey : Str := Gen.c18ChildrenKey.toList
def selectOneExternal : Str := Gen.c18SelectOneExternal.toList

/-- `isinstance(v, str) and v.startswith(const.SELECT_ONE_EXTERNAL)` -/
def isExtType : J → Bool
  | .str s => startsWith s selectOneExternal
  | _ => false

mutual
/-- `has_external_choices(json_struct)` -/
def hasExt : J → Bool
  | .obj kvs => hasExtKvs kvs
  | .arr xs => hasExtList xs
  | _ => false
/-- the `for k, v in json_struct.items()` loop -/
def hasExtKvs : List (Str × J) → Bool
  | [] => false
  | (k, v) :: rest => (k == typeKey && isExtType v) || hasExt v || hasExtKvs rest
/-- the `for v in json_struct` loop -/
def hasExtList : List J → Bool
  | [] => false
  | x :: xs => hasExt x || hasExtList xs
end

/-- `convert` (xls2xform.py:105-108): the itemsets csv is produced iff `has_external_choices(pyxform_data)` -/
def itemsetsOf (pyx : J) (csv : Str) : Option Str := if hasExt pyx then some csv else none

end Pyxv.Validator
