import Pyxv.Model.Entities
import Pyxv.Model.Refs
import Pyxv.Model.Channel
/-!
# Entities ∘ Refs: the reference substitution of the entity declaration is C03's mechanism

`EntityDeclaration._get_bind_node` / `_get_id_bind_node` call `survey.insert_xpaths(expression, context=self)`
(entity_declaration.py 118-146), i.e. `re.sub(BRACKETED_TAG_REGEX, _var_repl_function, str(text))`
(survey.py 1197-1214).  Here that call is assembled from the merged models of its parts:
`Pyxv.Chan.matchRef` (the regex, utils.py 24) and `Pyxv.Refs.refFor` / `Out.text` (`_var_repl_function`,
survey.py 1072-1195) with the entity declaration `/<root>/meta/entity` as context element.  The element list
`els` of `refFor` is built from the survey rows by `chainsOfRows` (begin/end stack as in `Entities.walk`, plus
the generated `meta` group with `instanceID` and `entity`).

The flags of `Refs.Flags` that need the expression lexer (`indexedArg`, `inPredicate`) are left `false`:
`Pyxv.C19.entity_ref_absolute` proves that for this context they cannot change the result.
-/
namespace Pyxv.Entities
open Pyxv Pyxv.Refs

def metaName : Str := "meta".toList

/-- the declaration as an element of C03's model: `/<root>/meta/entity` -/
def entityChain (root : Str) : Chain := [(root, .group), (metaName, .group), (entityName, .q)]

/-- `survey.insert_xpaths(text, context=ctx)`: `none` = PyXFormError of `_var_repl_function` (no / several
    elements of that name).  Fuel: `text.length + 1`. -/
def insertXpaths (els : List Chain) (ctx : Chain) : Nat → Str → Option Str
  | 0, _ => none
  | _ + 1, [] => some []
  | f + 1, '$' :: '{' :: r =>
    match Chan.matchRef r with
    | some (ls, name, rest) =>
      (match (refFor els (some ctx) name { lastSaved := ls }).text, insertXpaths els ctx f rest with
       | some v, some out => some (v ++ out)
       | _, _ => none)
    | none => (insertXpaths els ctx f ('{' :: r)).map ('$' :: ·)
  | f + 1, c :: r => (insertXpaths els ctx f r).map (c :: ·)

/-- chains of every named row (document order), with the kinds of C03's model -/
def rowChains (root : Str) : List Frame → List Cells → List Chain
  | _, [] => []
  | st, r :: rs =>
    let pre : Chain := (root, .group) :: st.reverse.map fun f => (f.name, if f.ct = "repeat".toList then Kind.rep else Kind.group)
    match Rows.get r "type", Rows.get r "name" with
    | some t, some name =>
      (match Rows.matchControl "end" false t with
       | some _ => rowChains root (st.drop 1) rs
       | none =>
         if t = auditType then rowChains root st rs else
         match Rows.matchControl "begin" true t with
         | some c =>
           (pre ++ [(name, if c = "repeat".toList then Kind.rep else Kind.group)]) ::
             rowChains root ({ ct := c, name } :: st) rs
         | none =>
           -- `xml-external` / `csv-external` rows become `ExternalInstance` elements: neither Question nor Section,
           -- so `_setup_xpath_dictionary` does not enter their names
           if t = "xml-external".toList || t = "csv-external".toList then rowChains root st rs
           else (pre ++ [(name, Kind.q)]) :: rowChains root st rs)
    | some t, none =>
      (match Rows.matchControl "end" false t with
       | some _ => rowChains root (st.drop 1) rs
       | none => rowChains root st rs)
    | _, _ => rowChains root st rs

/-- the elements `Survey._setup_xpath_dictionary` enters into the `${name}` table (survey.py 1126-1137:
    `iter_descendants(lambda i: isinstance(i, Question | Section))`): the root, the named rows except
    external-instance rows, the generated `meta` group (when it has any child) and its question children
    (`metaQs`: audit / instanceID / instanceName).  The `EntityDeclaration` (a bare `SurveyElement` named
    `entity`) is *not* among them, so a question may be called `entity` and be referenced. -/
def chainsOfRows (root : Str) (hasEntity : Bool) (survey : List Cells) (metaQs : List Str := ["instanceID".toList]) :
    List Chain :=
  [(root, .group)] :: rowChains root [] survey ++
    (if metaQs.isEmpty && !hasEntity then [] else [[(root, .group), (metaName, .group)]]) ++
    metaQs.map fun n => [(root, .group), (metaName, .group), (n, .q)]

/-- the `sub` of the entity declaration of a form (total: an unresolvable reference leaves the text as it is —
    the driver reports such forms as outside the fragment, see `refsResolve`) -/
def entitySub (els : List Chain) (root : Str) (s : Str) : Str :=
  (insertXpaths els (entityChain root) (s.length + 1) s).getD s

/-- do all references of the entity cells resolve? (otherwise `_var_repl_function` raises) -/
def refsResolve (els : List Chain) (root : Str) (row : Cells) : Bool :=
  row.all fun kv => (insertXpaths els (entityChain root) (kv.2.length + 1) kv.2).isSome

end Pyxv.Entities
