import Pyxv.Model.OpsBinds
import Pyxv.Model.BindsRefs
/-! Driver operation for `Pyxv.Binds.formBindsR` (C05 composed with C03's reference substitution). -/
namespace Pyxv.Binds
open Lean Pyxv

def opsBindsRefs (op : String) (j : Json) : Option (Except String Json) :=
  match op with
  | "binds.model_refs" => some do
      let headers ← getStrList j "headers"
      let rows ← (← getArr j "rows").toList.mapM pairList
      let lists ← getStrList j "lists"
      pure (outToJson (formBindsR (getStrD j "root" "data") (getStrD j "dl" "default") lists headers rows))
  | _ => none

end Pyxv.Binds
