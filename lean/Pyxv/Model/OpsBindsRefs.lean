import Pyxv.Model.OpsBinds
import Pyxv.Model.BindsRefs
/-! Driver operation for `Pyxv.Binds.formBindsR` (C05 composed with C03's reference substitution). -/
namespace Pyxv.Binds
open Lean Pyxv

def chainOfJson (j : Json) : Except String Refs.Chain := do
  let l ← pairList j
  l.mapM fun (n, k) => do
    let kind ← match String.ofList k with
      | "q" => pure Refs.Kind.q | "group" => pure Refs.Kind.group | "rep" => pure Refs.Kind.rep
      | o => throw s!"kind {o}"
    pure (n, kind)

def opsBindsRefs (op : String) (j : Json) : Option (Except String Json) :=
  match op with
  | "binds.model_refs" => some do
      let headers ← getStrList j "headers"
      let rows ← (← getArr j "rows").toList.mapM pairList
      let lists ← getStrList j "lists"
      pure (outToJson (formBindsR (getStrD j "root" "data") (getStrD j "dl" "default") lists headers rows))
  | "binds.spec_refs" => some do
      -- expected attribute map of each canonical row, references substituted from the row's own chain
      let els ← (← getArr j "els").toList.mapM chainOfJson
      let rows ← getArr j "rows"
      let outs ← rows.toList.mapM fun r => do
        let c ← chainOfJson (← r.getObjVal? "chain")
        let logic ← logicOfJson (← r.getObjVal? "logic")
        let tt : List (Str × Str) :=
          match r.getObjVal? "tkey" with
          | .ok (.str t) => (typeBind t.toList).getD []
          | _ => []
        match Spec.expectedR els c tt logic (getBoolD r "trigger" false) with
        | none => pure Json.null
        | some l => pure (attrsToJson l)
      pure (Json.arr outs.toArray)
  | _ => none

end Pyxv.Binds
