import Pyxv.Model.Base
import Pyxv.Model.Xml
import Pyxv.Model.Json
import Pyxv.Model.OpsXml
import Pyxv.Generated.Tables
