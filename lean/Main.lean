import Pyxv.Model.OpsXml
import Pyxv.Model.OpsForm
import Pyxv.Model.OpsValidator
import Pyxv.Model.OpsChannel
import Pyxv.Model.OpsTexts
import Pyxv.Model.OpsProcess
import Pyxv.Model.OpsBinds
import Pyxv.Model.OpsBindsRefs
import Pyxv.Model.OpsChoices
import Pyxv.Model.OpsEntities
import Pyxv.Model.OpsSettings
import Pyxv.Model.OpsRefs
import Pyxv.Model.OpsRefsSites
import Pyxv.Model.OpsWarnings
import Pyxv.Model.OpsLexer
import Pyxv.Model.OpsDefaults
import Pyxv.Model.OpsBackends
import Pyxv.Model.OpsBackendsTyped
import Pyxv.Model.OpsItext
import Pyxv.Model.OpsItextOutput
import Pyxv.Model.OpsItextOutputRepeat
import Pyxv.Model.OpsJVal
import Pyxv.Model.OpsToJson
import Pyxv.Model.OpsFromJsonChoices
import Pyxv.Model.OpsAssemble
import Pyxv.Model.OpsSpell
import Pyxv.Model.OpsC17
import Pyxv.Model.OpsC17Headers
import Pyxv.Model.OpsC17PreRules
import Pyxv.Model.OpsControls
import Pyxv.Model.OpsConvert
import Pyxv.Model.FormFlat
import Pyxv.Model.FormFlatInst
import Pyxv.Model.FormAttrs
/-!
Driver: one JSON request per line on stdin, one JSON reply per line on stdout.
`{"op": "<name>", …}` → `{"ok": true, "v": …}` | `{"ok": false, "err": "…"}`.
-/
open Lean Pyxv

def handlers : List (String → Json → Option (Except String Json)) :=
  [Xml.opsXml, Form.opsForm, Validator.opsValidator, Chan.opsChannel, Texts.opsTexts, Process.opsProcess, Binds.opsBinds, Choices.opsChoices, Entities.opsEntities, Settings.opsSettings, Refs.opsRefs, Warn.opsWarn, Lexer.opsLexer, Defaults.opsDefaults, Backends.opsBackends, Itext.opsItext, JV.opsJVal, ToJson.opsToJson, ToJson.opsFromJsonChoices, Asm.opsAsm, Spell.opsSpell, Rows17.opsC17, Controls.opsControls, Convert.opsConvert, Binds.opsBindsRefs, ItextOut.opsItextOut, ItextOut.opsItextOutRep, HeaderRules.opsC17Headers, Backends.Typed.opsBackendsTyped, FormFlat.opsFlat, FormFlat.opsFlatW, FormAttrs.opsAttrs, Refs.opsRefsSites, PreRules.opsC17PreRules]

def dispatch (op : String) (j : Json) : Except String Json :=
  let rec go : List (String → Json → Option (Except String Json)) → Except String Json
    | [] => .error s!"unknown op {op}"
    | h :: hs => match h op j with
      | some r => r
      | none => go hs
  go handlers

def handleLine (line : String) : String :=
  let reply : Json :=
    match Json.parse line with
    | .error e => Json.mkObj [("ok", false), ("err", Json.str s!"bad json: {e}")]
    | .ok j =>
      match j.getObjVal? "op" with
      | .ok (.str op) =>
        match dispatch op j with
        | .ok v => Json.mkObj [("ok", true), ("v", v)]
        | .error e => Json.mkObj [("ok", false), ("err", Json.str e)]
      | _ => Json.mkObj [("ok", false), ("err", "missing op")]
  reply.compress

partial def loop (hin hout : IO.FS.Stream) : IO Unit := do
  let line ← hin.getLine
  if line.isEmpty then return ()
  hout.putStrLn (handleLine line)
  hout.flush
  loop hin hout

def main : IO Unit := do
  loop (← IO.getStdin) (← IO.getStdout)
