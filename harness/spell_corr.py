"""
C13: correspondence of the Lean model `Pyxv.Spell` with the Python functions it mirrors, called
directly on generated strings (to_snake_case, process_header, clean_text_values, dealias_types,
yes_no / BINDING_CONVERSIONS, the sheet selection of md_to_dict / xlsx_to_dict, process_row on
plain columns).
"""

from __future__ import annotations

import spell
import vcore

WS = [" ", "  ", "\t", "\n", " ", " ", "　", "\x1f", "\x0b"]
ATOMS = ["a", "B", "_", "-", "é", "É", "ß", "×", "Þ", "中", "ع", "\U0001F600", ":", "::", "jr", "1", ".", "'", "‘", "”", "“", "’", '"', "$", "{", "}"]
LANGS = ["fr", "English (en)", "FR", " de ", "中文", "jr", "Français", "Ελληνικά", "Русский"]


def vocab():
    from pyxform import aliases

    words = set()
    for t in (aliases.survey_header, aliases.list_header, aliases.settings_header, aliases.entities_header):
        words |= set(t)
        for v in t.values():
            words |= {v} if isinstance(v, str) else set(v)
    for cls in spell.HEADER_CLASSES.values():
        for c in cls:
            words |= set(c)
    words |= {"type", "name", "label", "hint", "guidance_hint", "default", "choice_filter", "parameters", "trigger",
              "media", "bind", "control", "instance", "list_name", "list name", "form_title", "version", "omit_instanceID",
              "unknown col", "Notes", "my_col", "bind::foo", "media::image::fr", "x:jr", "jr", "bind:jr:constraintMsg"}
    return sorted(words)


def noise_header(rng, words):
    h = rng.choice(words)
    r = rng.random()
    if r < 0.35:
        h = "".join(c.upper() if rng.random() < 0.4 else c for c in h)
    if rng.random() < 0.3:
        h = h.replace("_", rng.choice([" ", "  ", "\t", "_ "]))
    if rng.random() < 0.4:
        d = rng.choice(["::", ":", " :: ", ": ", "::"])
        h = h + d + rng.choice(LANGS)
        if rng.random() < 0.2:
            h = h + d + rng.choice(LANGS)
    if rng.random() < 0.3:
        h = rng.choice(WS + [""]) + h + rng.choice(WS + [""])
    if rng.random() < 0.1:
        k = rng.randint(0, len(h))
        h = h[:k] + rng.choice(ATOMS + WS) + h[k:]
    return h


def rand_text(rng, maxlen=8):
    return "".join(rng.choice(ATOMS + WS + ["word", "x y", "  ", " "]) for _ in range(rng.randint(0, maxlen)))


def check_lower_table(ctx):
    """`lowerChar` = CPython's `str.lower()` on every character the model declares supported."""
    from pyxform.parsing.sheet_headers import to_snake_case

    chars = [chr(c) for c in [*range(0x21, 0x100), *range(0x600, 0x700), *range(0x2010, 0x2028), *range(0x4E00, 0xA000, 7),
                              *range(0x1F300, 0x1FB00, 3)] if not chr(c).isspace()]
    s = "".join(chars)
    v = ctx.driver.call("spell.snake", s=s)
    if not v["supported"] or v["v"] != to_snake_case(s):
        bad = [c for c in chars if ctx.driver.call("spell.snake", s=c)["v"] != to_snake_case(c)][:5]
        ctx.mismatch("lowerChar vs str.lower() on the supported alphabet", {"chars": bad}, [to_snake_case(c) for c in bad], "model differs")


def tables():
    from pyxform import aliases, constants
    from pyxform.entities.entity_declaration import EntityDeclaration
    from pyxform.question import MultipleChoiceQuestion, Option
    from pyxform.survey import Survey

    return {
        "survey": (aliases.survey_header, set(MultipleChoiceQuestion.get_slot_names())),
        "choices": (aliases.list_header, set(Option.get_slot_names())),
        "settings": (aliases.settings_header, set(Survey.get_slot_names())),
        "entities": (aliases.entities_header, {*EntityDeclaration.get_slot_names(), *(i.value for i in constants.EntityColumns.value_list())}),
    }


def py_val(v):
    if isinstance(v, dict):
        return {"d": [[k, py_val(x)] for k, x in v.items()]}
    return v


def row_case(ctx, rng, process_row):
    """One generated row of cells with 1-3 token headers through `process_row` and `Spell.processRow`."""
    dl = rng.choice(["default", "default", "en", "fr", "English"])
    cols = rng.sample(["label", "hint", "media", "bind", "x"], rng.randint(1, 3))
    subs = ["en", "fr", "English", "image", "relevant", dl]
    toks = []
    for _ in range(rng.randint(1, 6)):
        t = [rng.choice(cols)]
        r = rng.random()
        if r < 0.6:
            t.append(rng.choice(subs))
            if rng.random() < 0.25:
                t.append(rng.choice(subs))
        if t not in toks:
            toks.append(t)
    cells = [[t, f"v{j}"] for j, t in enumerate(toks)]
    key = {"::".join(t): tuple(t) for t in toks}
    row = {"::".join(t): v for t, v in cells}
    try:
        py = [[k, py_val(v)] for k, v in process_row("survey", row, key, dl).items()]
    except Exception as e:  # noqa: BLE001
        py = "error: " + type(e).__name__
    m = ctx.driver.call("spell.row", dl=dl, cells=cells)
    ctx.count("corr:row")
    if m != py:
        ctx.mismatch("Spell.processRow vs process_row", {"dl": dl, "cells": cells}, py, m)
    row_theorems_on_impl(ctx, rng, process_row, dl, cells)


def _prow(process_row, dl, cells):
    return process_row("survey", {"::".join(t): v for t, v in cells}, {"::".join(t): tuple(t) for t, _ in cells}, dl)


def row_theorems_on_impl(ctx, rng, process_row, dl, cells):
    """The statements of `process_row_group` / `column_perm_partial` / `column_perm_three` evaluated on the
    implementation: for a group column (every cell has >= 2 tokens) `out[c]` is `process_row` of the cells with
    the first token removed; under the theorems' guards a shuffled row gives the same nested finite map."""
    try:
        out = _prow(process_row, dl, cells)
        sh = list(cells)
        rng.shuffle(sh)
        out2 = _prow(process_row, dl, sh)
    except Exception:  # noqa: BLE001
        return
    for c in {t[0] for t, _ in cells}:
        mine = [(t, v) for t, v in cells if t[0] == c]
        lens = {len(t) for t, _ in mine}
        if min(lens) >= 2:
            ctx.count("corr:row_group_law")
            sub = _prow(process_row, dl, [[t[1:], v] for t, v in mine])
            if out.get(c) != sub:
                ctx.mismatch("process_row_group on the implementation", {"dl": dl, "cells": cells, "column": c}, py_val(out.get(c)), py_val(sub))
        if max(lens) <= 2 or (min(lens) >= 2 and max(lens) <= 3):
            ctx.count("corr:row_perm_guarded")
            if out.get(c) != out2.get(c):  # dict equality = same nested finite map
                ctx.mismatch("column_perm_partial/three on the implementation", {"dl": dl, "cells": cells, "shuffled": sh, "column": c},
                             py_val(out.get(c)), py_val(out2.get(c)))


def row_witnesses(ctx, process_row):
    """The two kernel-checked counter-witnesses (`dup_tokens_order_dependent` is stated on tokens, so it is run on
    the model only and on `process_row` with two headers of one token tuple; `plain_beside_deep_order_dependent`)
    reproduced on the implementation: model = implementation in both orders, and the orders differ."""
    P, F, X = [["c"], "P"], [["c", "fr"], "F"], [["c", "default", "x"], "X"]
    res = []
    for cells in ([P, F, X], [X, P, F]):
        py = [[k, py_val(v)] for k, v in _prow(process_row, "default", cells).items()]
        m = ctx.driver.call("spell.row", dl="default", cells=cells)
        ctx.count("corr:row_witness")
        if m != py:
            ctx.mismatch("Spell.processRow vs process_row (witness)", {"cells": cells}, py, m)
        res.append(py)
    ctx.notes["row_order_dependence_outside_guards"] = (
        "c / c::fr / c::default::x in two orders: implementation and model agree, results %s"
        % ("differ (as the counter-witness theorem says)" if res[0] != res[1] else "are equal on the implementation (the model, for which plain_beside_deep_order_dependent is proved, then no longer corresponds: reported as a mismatch)")
    )
    hk = {"caption": ("label",), "label": ("label",)}
    a = process_row("survey", {"caption": "A", "label": "B"}, hk, "default")
    b = process_row("survey", {"label": "B", "caption": "A"}, hk, "default")
    ma = ctx.driver.call("spell.row", dl="default", cells=[[["label"], "A"], [["label"], "B"]])
    mb = ctx.driver.call("spell.row", dl="default", cells=[[["label"], "B"], [["label"], "A"]])
    for py, m, cs in ((a, ma, "caption,label"), (b, mb, "label,caption")):
        if m != [[k, py_val(v)] for k, v in py.items()]:
            ctx.mismatch("Spell.processRow vs process_row (duplicate token tuple, F53 class)", {"order": cs}, py_val(py), m)


def run(ctx, n):
    from pyxform import aliases
    from pyxform.errors import PyXFormError
    from pyxform.parsing.sheet_headers import process_header, process_row, to_snake_case
    from pyxform.xls2json import clean_text_values, dealias_types
    from pyxform.xls2json_backends import md_to_dict

    rng = ctx.rng
    words = vocab()
    tabs = tables()
    check_lower_table(ctx)
    unsupported = 0
    for i in range(n):
        # ---- to_snake_case
        s = noise_header(rng, words) if rng.random() < 0.6 else rand_text(rng)
        v = ctx.driver.call("spell.snake", s=s)
        if not v["supported"]:
            unsupported += 1
        elif v["v"] != to_snake_case(s):
            ctx.mismatch("Spell.toSnake vs to_snake_case", {"s": s}, to_snake_case(s), v["v"])
        # ---- process_header
        h = noise_header(rng, words)
        sheet = rng.choice(list(tabs))
        dbl = rng.random() < 0.5
        al, cols = tabs[sheet]
        try:
            nh, toks = process_header(h, dbl, al, cols)
            py = {"outcome": "ok", "changed": nh != h, "tokens": list(toks)}
        except IndexError:
            py = {"outcome": "error", "err": "IndexError"}
        m = ctx.driver.call("spell.header", h=h, sheet=sheet, double=dbl)
        if m["outcome"] == "unsupported":
            unsupported += 1
        elif m != py:
            ctx.mismatch("Spell.processHeader vs process_header", {"h": h, "sheet": sheet, "double": dbl}, py, m)
        ctx.count("corr:header:" + m["outcome"])
        # ---- clean_text_values (one cell)
        t = rand_text(rng)
        st = rng.random() < 0.7
        row = {"k": t}
        try:
            got = clean_text_values("survey", [row], strip_whitespace=st)[0]["k"]
        except PyXFormError:
            got = None  # malformed ${reference}: the cell is rejected, there is no cleaned value to compare
        mv = ctx.driver.call("spell.clean", s=t, strip=st)
        if t and got is not None and mv != got:
            ctx.mismatch("Spell.cleanText vs clean_text_values", {"s": t, "strip": st}, got, mv)
        # ---- type / truth values
        ty = rng.choice([*aliases._type_alias_map, "text", "photo", "Image", "image ", rand_text(rng, 2)])
        if ctx.driver.call("spell.type", s=ty) != dealias_types([{"type": ty}])[0]["type"]:
            ctx.mismatch("Spell.dealiasType vs dealias_types", {"s": ty}, dealias_types([{"type": ty}])[0]["type"], ctx.driver.call("spell.type", s=ty))
        yn = rng.choice([*aliases.yes_no, "maybe", "yes ", "tRUE", rand_text(rng, 2)])
        if ctx.driver.call("spell.yesno", s=yn) != aliases.yes_no.get(yn):
            ctx.mismatch("Spell.yesNo vs aliases.yes_no.get", {"s": yn}, aliases.yes_no.get(yn), ctx.driver.call("spell.yesno", s=yn))
        if ctx.driver.call("spell.bind", s=yn) != aliases.BINDING_CONVERSIONS.get(yn, yn):
            ctx.mismatch("Spell.bindConv vs BINDING_CONVERSIONS", {"s": yn}, aliases.BINDING_CONVERSIONS.get(yn, yn), ctx.driver.call("spell.bind", s=yn))
        # ---- sheet selection (markdown backend), every 4th case
        if i % 4 == 0:
            k = rng.choice([1, 1, 2, 3, 4, 5])
            pool = ["survey", "Survey", "SURVEY", "choices", "Choices", "settings", "SETTINGS", "entities", "osm", "external_choices",
                    "notes", "_draft", "lookup data", "surveys", "Éxtra", "ΩMEGA", "choiceS"]
            names = []
            for _ in range(k):
                nm = rng.choice(pool)
                if nm not in names:
                    names.append(nm)
            md = "".join(f"| {nm} |\n| | c{j} |\n| | v{j} |\n" for j, nm in enumerate(names))
            try:
                d = md_to_dict(md)
                py = sorted([kk, next(iter(d[kk + "_header"][0]))[1:]] for kk in d if kk != "sheet_names" and not kk.endswith("_header"))
            except Exception as e:  # noqa: BLE001
                py = "error: " + type(e).__name__
            m = ctx.driver.call("spell.sheets", names=names)
            if m["supported"] and sorted(m["sel"]) != py:
                ctx.mismatch("Spell.selectSheets vs md_to_dict", {"names": names}, py, m["sel"])
        # ---- process_row on plain columns, every 4th case
        if i % 4 == 1:
            hs = rng.sample(["type", "name", "Label", "x", "y", "hint", "LABEL", " label"], rng.randint(1, 5))
            key = {hh: (to_snake_case(hh),) for hh in hs}
            rowd = {hh: f"v{j}" for j, hh in enumerate(hs)}
            py = [[a, b] for a, b in process_row("survey", rowd, key).items()]
            m = ctx.driver.call("spell.rowflat", row=[[a, b] for a, b in rowd.items()], key=[[a, b[0]] for a, b in key.items()])
            if m != py:
                ctx.mismatch("Spell.processRowFlat vs process_row", {"row": rowd}, py, m)
    # ---- process_row / merge_dicts on nested headers (translations, groups, the default language as a suffix)
    for i in range(n // 2):
        row_case(ctx, rng, process_row)
    row_witnesses(ctx, process_row)
    ctx.count("corr:cases", n)
    ctx.count("corr:unsupported", unsupported)
    ctx.notes["model_fragment"] = (
        "Spell model answered %d of %d generated header/snake-case calls; the rest contain cased characters "
        "outside Latin-1 (unsupported)" % (2 * n - unsupported, 2 * n)
    )
