"""XML helpers: expat → tree JSON (the driver's encoding), random DOM trees, Python DOM building."""

from __future__ import annotations

import random
import sys
import xml.parsers.expat as expat

from vcore import REPO

if str(REPO) not in sys.path:
    sys.path.insert(0, str(REPO))


def expat_tree(text: str):
    """Parse with expat (no namespace processing). Returns (tree|None, error|None).
    Tree encoding as in the Lean driver: {"t","a","k"} / {"x","stock":false}; adjacent text merged."""
    p = expat.ParserCreate()
    p.ordered_attributes = True
    p.buffer_text = True
    root = {"t": None, "a": [], "k": []}
    stack = [root]

    def start(tag, attrs):
        el = {"t": tag, "a": [[attrs[i], attrs[i + 1]] for i in range(0, len(attrs), 2)], "k": []}
        stack[-1]["k"].append(el)
        stack.append(el)

    def end(tag):
        stack.pop()

    def chars(data):
        ks = stack[-1]["k"]
        if ks and "x" in ks[-1]:
            ks[-1]["x"] += data
        else:
            ks.append({"x": data, "stock": False})

    p.StartElementHandler = start
    p.EndElementHandler = end
    p.CharacterDataHandler = chars
    try:
        p.Parse(text.encode("utf-8", "surrogatepass"), True)
    except expat.ExpatError as e:
        return None, str(e)
    except UnicodeEncodeError as e:
        return None, str(e)
    kids = [k for k in root["k"] if "t" in k]
    return (kids[0] if kids else None), None


def expat_ns_ok(text: str) -> bool:
    """Namespace-aware expat parse: fails on unbound prefixes."""
    p = expat.ParserCreate(namespace_separator=" ")
    try:
        p.Parse(text.encode("utf-8", "surrogatepass"), True)
        return True
    except (expat.ExpatError, UnicodeEncodeError):
        return False


def tree_eq(a, b) -> bool:
    if ("x" in a) != ("x" in b):
        return False
    if "x" in a:
        return a["x"] == b["x"]
    return (
        a["t"] == b["t"]
        and [list(p) for p in a["a"]] == [list(p) for p in b["a"]]
        and len(a["k"]) == len(b["k"])
        and all(tree_eq(x, y) for x, y in zip(a["k"], b["k"]))
    )


# ------------------------------------------------------------------ random DOM trees

TAGS = ["label", "hint", "value", "h:html", "input", "bind", "item", "a-b", "x.y", "_u", "output", "text"]
ATTRS = ["ref", "value", "nodeset", "jr:constraintMsg", "id", "form", "xmlns:h", "appearance", "odk:x"]
TEXT_ATOMS = ["a", "b", " ", "  ", "<", ">", "&", '"', "'", "]]>", "&amp;", "é", "中", "\U0001F600", "x y", "-->", "{", "}"]
ATTR_ATOMS = TEXT_ATOMS + ["/data/q", " /data/g/q ", "="]


def rtext(rng, atoms, lo=0, hi=4):
    return "".join(rng.choice(atoms) for _ in range(rng.randint(lo, hi)))


def random_tree(rng: random.Random, depth=0, ws_text=False):
    """Random DOM tree in the driver's encoding (elements with text / mixed / element-only
    content; PatchedText and stock text; empty text children)."""
    tag = rng.choice(TAGS)
    attrs = []
    for _ in range(rng.choice([0, 0, 1, 2, 3])):
        k = rng.choice(ATTRS)
        if all(k != a[0] for a in attrs):
            attrs.append([k, rtext(rng, ATTR_ATOMS)])
    kids = []
    shape = rng.choice(["empty", "text", "mixed", "elems", "elems", "mixed"])
    if depth >= 3 and shape in ("elems", "mixed"):
        shape = "text"
    if shape == "text":
        kids.append({"x": rtext(rng, TEXT_ATOMS, 0, 5), "stock": rng.random() < 0.2})
    elif shape == "mixed":
        # mostly narrow, sometimes wide (a serialiser's mixed-content test must not depend on the child count)
        for _ in range(rng.randint(2, 4) if rng.random() < 0.85 else rng.randint(5, 40)):
            if rng.random() < 0.5:
                kids.append({"x": rtext(rng, TEXT_ATOMS, 0, 4), "stock": rng.random() < 0.3})
            else:
                kids.append(random_tree(rng, depth + 1))
        if not any("x" in k for k in kids):
            kids.insert(rng.randint(0, len(kids)), {"x": rtext(rng, TEXT_ATOMS, 1, 3), "stock": False})
    elif shape == "elems":
        for _ in range(rng.randint(1, 4) if rng.random() < 0.9 else rng.randint(5, 24)):
            kids.append(random_tree(rng, depth + 1))
    return {"t": tag, "a": attrs, "k": kids}


def build_dom(tree):
    """The driver-encoded tree as the DOM pyxform itself builds (DetachableElement / PatchedText;
    `stock` text nodes are plain minidom Text, as cloned by node(..., toParseString=True))."""
    from xml.dom.minidom import Text

    from pyxform.utils import DetachableElement, PatchedText

    if "x" in tree:
        t = Text() if tree.get("stock") else PatchedText()
        t.data = tree["x"]
        return t
    el = DetachableElement(tree["t"])
    for k, v in tree["a"]:
        el.setAttribute(k, v)
    for kid in tree["k"]:
        el.appendChild(build_dom(kid))
    return el


def impl_render(tree, pretty: bool) -> str:
    from pyxform.survey import Survey

    class Stub:
        def __init__(self, dom):
            self.dom = dom

        def xml(self):
            return self.dom

    stub = Stub(build_dom(tree))
    # the real Survey._to_pretty_xml / _to_ugly_xml, applied to our DOM
    return Survey._to_pretty_xml(stub) if pretty else Survey._to_ugly_xml(stub)
