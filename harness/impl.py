"""Running the implementation (/repo's working tree, in-process) on generated forms."""

from __future__ import annotations

import copy
import sys
from pathlib import Path

from vcore import REPO

if str(REPO) not in sys.path:
    sys.path.insert(0, str(REPO))

SHEETS = ("survey", "choices", "settings", "external_choices", "entities", "osm")


def headers_of(rows, explicit=None):
    cols = list(explicit or [])
    for r in rows:
        for k in r:
            if k not in cols:
                cols.append(k)
    return cols


def wb_dict(form: dict) -> dict:
    """A generated form ({sheet: [row dicts]}, optional {sheet}_cols) as the dict accepted by
    convert(): rows hold only non-empty cells; `<sheet>_header` is `[{col: None, …}]`."""
    out = {}
    names = []
    for s in SHEETS:
        if s in form and form[s] is not None:
            rows = [{k: v for k, v in r.items() if v not in (None, "")} for r in form[s]]
            cols = headers_of(form[s], form.get(s + "_cols"))
            out[s] = rows
            out[s + "_header"] = [{c: None for c in cols}] if cols else []
            names.append(s)
    out["sheet_names"] = form.get("sheet_names", names)
    if form.get("fallback_form_name") is not None:
        out["fallback_form_name"] = form["fallback_form_name"]
    return out


def md_cell(v: str) -> str:
    return v.replace("\\", "\\\\").replace("|", "\\|")


def to_md(form: dict) -> str:
    """Markdown rendering (only for cells without newlines / leading-trailing spaces)."""
    lines = []
    for s in SHEETS:
        if s in form and form[s] is not None:
            cols = headers_of(form[s], form.get(s + "_cols"))
            lines.append(f"| {s} |")
            lines.append("| | " + " | ".join(md_cell(c) for c in cols) + " |")
            for r in form[s]:
                lines.append("| | " + " | ".join(md_cell(str(r.get(c, "") or "")) for c in cols) + " |")
    return "\n".join(lines) + "\n"


def classify_call(fn, want_survey: bool = False) -> dict:
    """Run `fn()` (a call of pyxform's convert) and classify the outcome: ok | pyxform | internal.
    For internal exceptions: exception class, innermost pyxform frame `file:function`, and the chain
    of pyxform frames (`sites`)."""
    from pyxform.errors import PyXFormError

    try:
        res = fn()
    except PyXFormError as e:
        return {"class": "pyxform", "ok": False, "msg": str(e), "exc": type(e).__name__}
    except RecursionError as e:
        return {"class": "internal", "ok": False, "msg": "RecursionError", "exc": "RecursionError", "site": ""}
    except Exception as e:  # noqa: BLE001
        import traceback

        tb = traceback.extract_tb(e.__traceback__)
        site = ""
        sites = []
        for fr in reversed(tb):
            if "/pyxform/" in fr.filename:
                s = f"{Path(fr.filename).name}:{fr.name}"
                if not site:
                    site = s
                sites.append(s)
        return {
            "class": "internal",
            "ok": False,
            "msg": f"{type(e).__name__}: {e}",
            "exc": type(e).__name__,
            "site": site,
            "sites": sites[:6],
        }
    out = {
        "class": "ok",
        "ok": True,
        "xform": res.xform,
        "warnings": list(res.warnings),
        "itemsets": res.itemsets,
    }
    if want_survey:
        out["_survey"] = res._survey
        out["_pyxform"] = res._pyxform
    return out


def run(form: dict, pretty: bool = False, via: str = "dict", want_survey: bool = False, **kw) -> dict:
    """Convert; classify the outcome.  `class`: ok | pyxform | internal."""
    from pyxform.xls2xform import convert

    if via == "dict":
        fn = lambda: convert(xlsform=copy.deepcopy(wb_dict(form)), pretty_print=pretty, **kw)  # noqa: E731
    elif via == "md":
        fn = lambda: convert(xlsform=to_md(form), pretty_print=pretty, file_type=".md", **kw)  # noqa: E731
    else:
        raise ValueError(via)
    return classify_call(fn, want_survey)


def run_raw(xlsform, file_type: str | None = None, **kw) -> dict:
    """Convert a raw definition (markdown / csv text, or a workbook dict exactly as given)."""
    from pyxform.xls2xform import convert

    if isinstance(xlsform, dict):
        return classify_call(lambda: convert(xlsform=copy.deepcopy(xlsform), **kw))
    return classify_call(lambda: convert(xlsform=xlsform, file_type=file_type, **kw))
