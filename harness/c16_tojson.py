"""
C16 correspondence for the `to_json_dict` model: the element tree of a real survey is handed to the
Lean model (`ToJson.toJson`) as class + slot values + type-table keys + `_qtd_kwargs` + children +
options, and the model's dump must equal `survey.to_json_dict()` (keys, order, values).
"""

from __future__ import annotations

from props import c16 as C

TREE = ("children", "choices", "parent")


def jsonable(v):
    if v is None or isinstance(v, (bool, int, str)):
        return v
    if isinstance(v, (list, tuple)):
        return [jsonable(x) for x in v]
    if isinstance(v, dict):
        return {k: jsonable(x) for k, x in v.items()}
    raise C.Unsupported(type(v).__name__)


def slots_of(e):
    out = {}
    for k in e.get_slot_names():
        if k in TREE:
            continue
        v = e[k]
        out[k] = None if (k.startswith("_") or k == "extra_data") else jsonable(v)
    return out


def opt_wire(o):
    extra = o.extra_data or {}
    return {"slots": C.enc(slots_of(o)), "extra": C.enc(jsonable(extra))}


def scalars_of(e):
    out = []
    for k, v in (getattr(e, "_qtd_defaults", None) or {}).items():
        if isinstance(v, dict):
            continue
        if not isinstance(v, str):
            raise C.Unsupported("non-string scalar in the type table")
        out.append([k, v])
    return out


def cls_of(e):
    from pyxform.question import Option, OsmUploadQuestion, Question
    from pyxform.section import GroupedSection, RepeatingSection
    from pyxform.survey import Survey

    if isinstance(e, Survey):
        return "survey"
    if isinstance(e, GroupedSection):
        return "group"
    if isinstance(e, RepeatingSection):
        return "repeat"
    if isinstance(e, OsmUploadQuestion):
        raise C.Unsupported("osm")
    if isinstance(e, Question):
        return "question"
    if isinstance(e, Option):
        return "option"
    return "other"


def wire_el(e):
    cls = cls_of(e)
    w = {
        "cls": cls,
        "slots": C.enc(slots_of(e)),
        "qtd": list((getattr(e, "_qtd_defaults", None) or {}).keys()) if cls == "question" else [],
        "kw": C.enc(jsonable(getattr(e, "_qtd_kwargs", None) or {}) if cls == "question" else {}),
        "scalars": scalars_of(e) if cls == "question" else [],
        "kids": [],
    }
    if cls in ("survey", "group", "repeat"):
        w["kids"] = [wire_el(c) for c in (e.children or [])]
    if cls == "survey" and e.choices:
        w["choices"] = [[ln, [opt_wire(o) for o in its.options]] for ln, its in e.choices.items()]
    if cls == "question" and "choices" in e.get_slot_names() and e.choices is not None:
        w["opts"] = [opt_wire(o) for o in e.choices.options]
    return w


def check(ctx, case, obs):
    s = obs["sA"]
    try:
        w = wire_el(s)
    except C.Unsupported as u:
        ctx.count(f"model:tojson:unsupported:{u}")
        return
    got = ctx.driver.call("tojson.dump", el=w)
    ctx.count("model:tojson:answered")
    want = C.enc(jsonable(obs["j1"]))
    if got != want:
        ctx.mismatch("ToJson.toJson vs to_json_dict", case, C.dict_diff(unwire(want), unwire(got)), "see diff (impl vs model)")
    # own-slot dump/reload/dump of every section-like element against the implementation's second dump is
    # covered by the oracle (j1 == j2); here the model's own two dumps must agree (theorem own_dump_stable)
    r = ctx.driver.call("tojson.reload_own", slots=w["slots"], **{"del": ["_survey_element_xpath", "extra_data"]})
    if r["d1"] != r["d2"]:
        ctx.mismatch("model own-slot dump not stable", case, r["d1"], r["d2"])
    # the builder model: toJson (fromJson dump) must be the implementation's second dump (fragment: see FromJson.lean)
    if "j2" in obs:
        r = ctx.driver.call("tojson.reload_tree", d=want)
        if r.get("ok"):
            ctx.count("model:fromjson:answered")
            w2 = C.enc(jsonable(obs["j2"]))
            if r["dump"] != w2:
                ctx.mismatch("ToJson.toJson (fromJson dump) vs dump of the reloaded survey", case,
                             C.dict_diff(unwire(w2), unwire(r["dump"])), "see diff (impl vs model)")
        else:
            ctx.count("model:fromjson:unsupported")
        # the builder model extended by survey-level `choices` (FromJsonChoices.lean, theorem
        # dump_stable_tree_choices): same comparison; counted apart so that the share of forms inside the
        # enlarged fragment shows next to the share inside `fromJson`'s
        import inspect as _inspect

        from pyxform.question import Option as _Option

        _ctor = [k for k, v in _inspect.signature(_Option.__init__).parameters.items()
                 if k != "self" and v.kind is not _inspect.Parameter.VAR_KEYWORD]
        rc = ctx.driver.call("tojson.reload_tree_choices", d=want, names=_ctor)
        if rc.get("ok"):
            ctx.count("model:fromjson-choices:answered")
            w2 = C.enc(jsonable(obs["j2"]))
            if rc["dump"] != w2:
                ctx.mismatch("ToJson.toJson (fromJsonC dump) vs dump of the reloaded survey", case,
                             C.dict_diff(unwire(w2), unwire(rc["dump"])), "see diff (impl vs model)")
        else:
            ctx.count("model:fromjson-choices:unsupported")
            if r.get("ok"):
                ctx.mismatch("fromJsonC rejects a dict fromJson accepts", case, "ok", "unsupported")
        # the builder model with the choices context (FromJsonSelects.lean: selects that carry their options get
        # the survey-level Itemset); tied by this stream only (no theorem yet)
        rs = ctx.driver.call("tojson.reload_tree_selects", d=want, names=_ctor)
        if rs.get("ok"):
            ctx.count("model:fromjson-selects:answered")
            w2 = C.enc(jsonable(obs["j2"]))
            if rs["dump"] != w2:
                ctx.mismatch("ToJson.toJson (fromJsonS dump) vs dump of the reloaded survey", case,
                             C.dict_diff(unwire(w2), unwire(rs["dump"])), "see diff (impl vs model)")
        else:
            ctx.count("model:fromjson-selects:unsupported")
            if rc.get("ok"):
                ctx.mismatch("fromJsonS rejects a dict fromJsonC accepts", case, "ok", "unsupported")
    # options: model dump / reload / dump against the implementation's Option(**dump).to_json_dict()
    import inspect

    from pyxform.question import Option

    ctor = [k for k, v in inspect.signature(Option.__init__).parameters.items()
            if k != "self" and v.kind is not inspect.Parameter.VAR_KEYWORD]
    n = 0
    for ln, its in (s.choices or {}).items():
        for o in its.options:
            if n >= 6:
                break
            n += 1
            r = ctx.driver.call("tojson.option_reload", opt=opt_wire(o), names=ctor)
            d1 = o.to_json_dict(delete_keys=("parent",))
            o2 = Option(**d1)
            want = {"d1": C.enc(jsonable(d1)), "extra2": C.enc(jsonable(o2.extra_data or {})),
                    "d2": C.enc(jsonable(o2.to_json_dict(delete_keys=("parent",))))}
            if r != want:
                ctx.mismatch("ToJson option dump/reload/dump vs Option", case, want, r)


def unwire(w):
    if isinstance(w, dict):
        if "i" in w:
            return int(w["i"])
        if "a" in w:
            return [unwire(x) for x in w["a"]]
        if "o" in w:
            return {k: unwire(v) for k, v in w["o"]}
    return w
