"""Generator of token strings for the lexer correspondence (C10; reusable by C03/C06/C17).

Strings are concatenations of fragments that sit on the decision boundaries of the rules of
`pyxform/parsing/expression.py`: every rule's own shapes, near misses (one character short / one
too many), the documented traps (`<=`, ` mod `, leading `-`, `À-Ö]`, DATE/TIME before NUMBER, …),
Unicode digits / spaces / name characters, plus raw random characters.
"""

from __future__ import annotations

NAMES = ["a", "b1", "x_y", "q-1", "n.m", "_z", "Abc", "mod", "div", "and", "or", "T", "Z", "last-saved", "e2", "À-Ö]", "À-Ö]x",
         "é", "ñu", "日本", "𐐀a", "a·b", "ǅ", "x‿y", "À", "Ö", "×", "÷", "a×b", "ͰͰ", ";", "π"]
DIGITS = ["0", "1", "7", "12", "2020", "00", "٣", "१२", "０", "𝟘", "²", "½", "৪"]
SPACES = [" ", "  ", "\t", "\n", "\r\n", "\u00a0", "\u2003", "\u3000", "\x1c", "\x85", "\u200b", "\ufeff", "\u180e", "\x0b\x0c"]
PUNCT = list("*+-=!<>|()[]{}./,:;'\"$#@%^&~`?\\_") + ["..", "<=", ">=", "!=", "==", "//", "://", "${", "}", "[]{}", "[]{", "$", "{", "--", "-.", ".-"]
WORDS = [" mod ", " div ", " and ", " or ", " mod", "mod ", " or", "and ", " mod  ", "  div ", " not ", " MOD "]
DATES = ["2020-01-01", "-2020-01-01", "2020-1-01", "2020-01-1", "20200-01-01", "2020-01-011", "2020-13-45", "٢٠٢٠-٠١-٠١", "2020-01-01T", "2020-01-01T10:20:30",
         "2020-01-01T10:20:30Z", "2020-01-01T10:20:30+05:30", "2020-01-01T10:20:30-05:30", "2020-01-01T10:20:30.123", "2020-01-01T10:20:30. \t+01:00",
         "2020-01-01T10:20:30. Z", "2020-01-01 10:20:30", "2020-01-01T1:20:30", "2020-01-01t10:20:30"]
TIMES = ["10:20:30", "10:20:30Z", "10:20:30+01:00", "10:20:30-01:00", "10:20:30+1:00", "10:20:30+01:0", "10:20:30.", "10:20:30. ", "10:20:30.  Z", "10:20:30.5",
         "1:20:30", "10:2:30", "10:20:3", "100:20:30", "10:20:300", "10:20", "10:20:30z", "10:20:30 Z", "10:20:30.\u00a0-02:00"]
NUMBERS = ["1", "-1", "1.", "1.5", "-1.5", ".5", "-.5", "-.", "-", "1e5", "1.2.3", "--1", "- 1", "1-2", "1 -2", "1- 2", "0x10", "1,000", "-0", "٣.٥", "+1", "1..2", ".", "-..5"]
LITERALS = ["'a'", '"a"', "''", '""', "'it''s'", "'a\"b'", '"a\'b"', "'unterminated", '"unterminated', "'multi\nline'", "'a' 'b'", "'${x}'", "\"f(1)\""]
REFS = ["${a}", "${last-saved#a}", "${a:b}", "${a:b:c}", "${ a}", "${a }", "${}", "${last-saved#}", "${last-saved}", "${last-saved#a:b}", "${1a}", "${a-b.c}", "${À-Ö]}",
        "${a}${b}", "${a", "$a}", "${a}}", "${${a}}", "${a b}", "${é}", "${LAST-SAVED#a}", "${last-saved#last-saved#a}"]
CALLS = ["now()", "today()", "f(", "a:b(", "a:b:c(", "concat('a', ${b})", "if(${a} > 1, 'x', 'y')", "f (", "1f(", "pulldata('x', 'y')", "once(uuid())", "count(${r})", "À-Ö](",
         "a[", "a:b[", "a [", "a[1]", "a]", "]", "http://x", "a:b://", "jr://images/x.png", "a:/", "a:://", "a://b://", "instance('x')/root/item[name=${a}]/label", "a-b(", "a.(", ".a(", "-a(",
         "../a", "./a", "/data/a", "//a", "..", ".", "*", "a|b", "a | b", "position(..)", "selected(., 'x')", "3 * (2 + 1)", "a div b", "a mod b", "a div  b", "x and y", "x or y", "xandy",
         "1 + 1", "1+1", "2 - 1", "2-1", "a - b", "a-b", "a -b", "a- b", "- a", "-a"]
ALPHABET = list("abcxyzTZ_09 1-+*.:;,/|()[]{}$#'\"=!<>\n\t")


def token_string(rng) -> str:
    k = rng.random()
    if k < 0.04:
        # raw random characters (incl. arbitrary code points)
        n = rng.randint(0, 12)
        out = []
        for _ in range(n):
            r = rng.random()
            if r < 0.7:
                out.append(rng.choice(ALPHABET))
            elif r < 0.85:
                out.append(chr(rng.randint(0x80, 0x2FFF)))
            else:
                cp = rng.randint(0x80, 0x10FFFF)
                out.append("?" if 0xD800 <= cp <= 0xDFFF else chr(cp))
        return "".join(out)
    pools = [NAMES, DIGITS, SPACES, PUNCT, WORDS, DATES, TIMES, NUMBERS, LITERALS, REFS, CALLS]
    weights = [6, 3, 5, 8, 3, 3, 3, 4, 3, 4, 6]
    n = rng.choice([1, 1, 2, 2, 3, 3, 4, 5, 6, 8])
    parts = []
    for _ in range(n):
        pool = rng.choices(pools, weights)[0]
        parts.append(rng.choice(pool))
        if rng.random() < 0.15:
            parts.append(rng.choice([" ", " ", "", "-", ":", "."]))
    s = "".join(parts)
    if rng.random() < 0.05 and s:
        # mutate one character
        i = rng.randrange(len(s))
        s = s[:i] + rng.choice(ALPHABET) + s[i + 1:]
    if rng.random() < 0.03 and s:
        i = rng.randrange(len(s))
        s = s[:i] + s[i + 1:]
    return s


TYPES = ["text", "date", "dateTime", "datetime", "geopoint", "geotrace", "geoshape", "integer", "calculate", "time", "", "q date", "select_one x"]


def impl_scan(text: str, etype: str):
    """The implementation's answers for one string: tokens (name, value, start, end), remainder,
    default_is_dynamic, validate_pyxform_reference_syntax verdict."""
    from pyxform.errors import PyXFormError
    from pyxform.parsing import expression
    from pyxform.utils import default_is_dynamic
    from pyxform.validators.pyxform.pyxform_reference import validate_pyxform_reference_syntax

    tokens, rem = expression.parse_expression(text)
    toks = [[t.name, t.value, t.start, t.end] for t in tokens]
    dyn = bool(default_is_dynamic(text, etype))
    try:
        validate_pyxform_reference_syntax(text, "survey", 2, "label")
        ref_ok = True
    except PyXFormError:
        ref_ok = False
    return toks, rem, dyn, ref_ok
