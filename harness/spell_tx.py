"""
C13: the catalogue of equivalence transformations (DESIGN Appendix C) on workbook grids.

Every transformation is a function (rng, wb) -> label | None working IN PLACE on a deep copy made
by `apply`; it returns None when it has no site in this workbook.  Sheets carry `orig`: for each
row the row number it had in the original workbook (None for inserted blank rows), from which
the exact row shift is computed.
"""

from __future__ import annotations

import copy
import re

import spell
from spell import sheet, split_header, snake


def init_orig(wb):
    for s in wb["sheets"]:
        s["orig"] = [i + 2 for i in range(len(s["rows"]))]
    return wb


def row_map(wb, name):
    s = sheet(wb, name)
    if s is None:
        return {}
    return {i + 2: o for i, o in enumerate(s["orig"]) if o is not None}


def rand_case(rng, t: str) -> str:
    mode = rng.choice(["upper", "title", "mixed", "cap"])
    if mode == "upper":
        return t.upper()
    if mode == "title":
        return t.title()
    if mode == "cap":
        return t[:1].upper() + t[1:]
    return "".join(c.upper() if rng.random() < 0.5 else c.lower() for c in t)


def known_first(sname, tok):
    if tok in spell.CASE_FIXED:
        return False
    return snake(tok) in spell.KNOWN_FIRST.get(sname, ()) or snake(tok).replace("_", " ") in spell.KNOWN_FIRST.get(sname, ())


def rename(s, i, new):
    if new in s["cols"] and s["cols"][i] != new:
        return False
    s["cols"][i] = new
    return True


def pick_sheet(rng, wb, names=("survey", "choices", "settings")):
    ss = [s for s in wb["sheets"] if s["name"].lower() in names and s["cols"]]
    return rng.choice(ss) if ss else None


def join_header(toks, delim):
    return (delim or "::").join(toks)


# ---- header level

def t_hdr_case(rng, wb):
    s = pick_sheet(rng, wb)
    if s is None:
        return None
    idx = [i for i, h in enumerate(s["cols"]) if known_first(s["name"].lower(), split_header(h)[0][0])]
    if not idx:
        return None
    i = rng.choice(idx)
    toks, d = split_header(s["cols"][i])
    toks[0] = rand_case(rng, toks[0])
    return f"hdr_case:{s['name']}:{s['cols'][i]}" if rename(s, i, join_header(toks, d)) else None


def t_hdr_space(rng, wb):
    s = pick_sheet(rng, wb)
    if s is None:
        return None
    idx = [i for i, h in enumerate(s["cols"]) if known_first(s["name"].lower(), split_header(h)[0][0])]
    if not idx:
        return None
    i = rng.choice(idx)
    toks, d = split_header(s["cols"][i])
    t0 = toks[0]
    mode = rng.choice(["outer", "underscore", "inner", "delim"])
    if mode == "underscore" and "_" in t0:
        t0 = t0.replace("_", rng.choice([" ", "  ", " \t"]))
    elif mode == "inner" and " " in t0.strip():
        t0 = re.sub(" +", lambda m: rng.choice(["  ", "   ", "\t", " \n"]), t0.strip())
    elif mode == "delim" and d:
        toks = [rng.choice(["", " ", "  "]) + t + rng.choice(["", " ", "  "]) for t in toks]
        t0 = toks[0]
    else:
        t0 = rng.choice(["", " ", "  ", "\t"]) + t0 + rng.choice([" ", "  ", "\n", " "])
    toks[0] = t0
    old = s["cols"][i]
    return f"hdr_space:{s['name']}:{old}" if rename(s, i, join_header(toks, d)) else None


def t_hdr_alias(rng, wb):
    s = pick_sheet(rng, wb, ("survey", "choices", "settings", "entities"))
    if s is None:
        return None
    sname = s["name"].lower()
    sites = []
    for i, h in enumerate(s["cols"]):
        hc = spell.header_class(sname, h)
        if hc and len(hc[0]) > 1:
            sites.append((i, hc))
    if not sites:
        return None
    i, (cls, mi, rest) = rng.choice(sites)
    pool = [m for j, m in enumerate(cls) if j != mi and not (s.get("single") and "::" in m)]
    if not pool:
        return None
    new = rng.choice(pool)
    # an alias that would collide with a column already present is not a rewriting of *this* form
    present = {spell.header_class(sname, h)[0][0] + "|" + "::".join(spell.header_class(sname, h)[2])
               for j, h in enumerate(s["cols"]) if j != i and spell.header_class(sname, h)}
    if cls[0] + "|" + "::".join(rest) in present:
        return None
    old = s["cols"][i]
    return f"hdr_alias:{s['name']}:{old}->{new}" if rename(s, i, "::".join([new, *rest])) else None


def t_hdr_single_colon(rng, wb):
    """whole sheet: `::` -> `:` (only when every token is colon-free, or a `jr:x` token)."""
    s = pick_sheet(rng, wb, ("survey", "choices"))
    if s is None or not any("::" in h for h in s["cols"]):
        return None
    new = []
    for h in s["cols"]:
        toks, d = split_header(h)
        for t in toks:
            if ":" in t and not re.fullmatch(r"jr:[^:\s]+", t):
                return None
            if t == "jr" or t == "":
                return None
        if d is None and ":" in h:
            return None
        sp = rng.choice(["", "", " "])
        new.append((sp + ":" + sp).join(toks))
    if len(set(new)) != len(new):
        return None
    s["cols"] = new
    s["single"] = True  # from now on no `::` may be introduced into this sheet's headers
    return f"hdr_single_colon:{s['name']}"


# ---- type cells

def _type_col(s):
    for i, h in enumerate(s["cols"]):
        if snake(split_header(h)[0][0]) in ("type", "command") and len(split_header(h)[0]) == 1:
            return i
    return None


def t_type_alias(rng, wb):
    s = sheet(wb, "survey")
    if s is None:
        return None
    ti = _type_col(s)
    if ti is None:
        return None
    sites = []
    for ri, r in enumerate(s["rows"]):
        t = r[ti]
        if not t:
            continue
        t1 = re.sub(" +", " ", t.strip())
        for cls in spell.SELECT_CLASSES:
            for m in sorted(cls, key=len, reverse=True):
                if t1.startswith(m + " "):
                    sites.append((ri, "select", cls, m, t1[len(m):]))
                    break
            else:
                continue
            break
        mm = re.fullmatch(r"(begin|end)([ _])(group|repeat|lgroup|looped group)", t1)
        if mm:
            sites.append((ri, "control", mm.group(1), mm.group(3), ""))
        for cls in spell.TYPE_CLASSES:
            if t1 in cls:
                sites.append((ri, "type", cls, t1, ""))
        for o in spell.OR_OTHER:
            if t1.endswith(" " + o) and t1.startswith("select"):
                sites.append((ri, "or_other", o, t1[: -len(o)], ""))
    if not sites:
        return None
    ri, kind, a, b, rest = rng.choice(sites)
    old = s["rows"][ri][ti]
    if kind == "select":
        new = rng.choice([m for m in a if m != b] or [b]) + rest
    elif kind == "control":
        cls = next(c for c in spell.CONTROL_CLASSES if b in c)
        new = a + rng.choice([" ", "_"]) + rng.choice(cls)
    elif kind == "type":
        new = rng.choice([m for m in a if m != b])
    else:
        new = b + rng.choice([o for o in spell.OR_OTHER if o != a])
    if new == old:
        return None
    s["rows"][ri][ti] = new
    return f"type_alias:{old}->{new}"


# ---- values

def t_truth(rng, wb):
    sites = []
    for s in wb["sheets"]:
        sname = s["name"].lower()
        if sname not in ("survey", "settings"):
            continue
        for ci, h in enumerate(s["cols"]):
            toks, _ = split_header(h)
            hc = spell.header_class(sname, h)
            canon = (hc[0][0] if hc and not hc[2] else (snake(toks[0]) if len(toks) == 1 else None))
            if sname == "settings" and len(toks) == 1 and toks[0] in spell.TRUTH_SETTINGS:
                canon = toks[0]
            ok = canon in spell.TRUTH_SURVEY if sname == "survey" else canon in spell.TRUTH_SETTINGS
            if not ok:
                continue
            for ri, r in enumerate(s["rows"]):
                v = (r[ci] or "").strip()
                if v in spell.TRUE_SPELLINGS or v in spell.FALSE_SPELLINGS:
                    sites.append((s, ri, ci, v))
    if not sites:
        return None
    s, ri, ci, v = rng.choice(sites)
    pool = spell.TRUE_SPELLINGS if v in spell.TRUE_SPELLINGS else spell.FALSE_SPELLINGS
    # `true()`/`false()` are expressions, documented for bind columns only
    if s["name"].lower() == "settings" or snake(split_header(s["cols"][ci])[0][0]) == "disabled":
        pool = [p for p in pool if "(" not in p]
        if v not in pool:
            return None
    new = rng.choice([p for p in pool if p != v])
    s["rows"][ri][ci] = new
    return f"truth:{s['name']}:{s['cols'][ci]}:{v}->{new}"


def t_smart_quotes(rng, wb):
    sites = []
    for s in wb["sheets"]:
        if s["name"].lower() not in ("survey", "choices", "settings", "external_choices"):
            continue
        for ri, r in enumerate(s["rows"]):
            for ci, v in enumerate(r):
                if v and ("'" in v or '"' in v):
                    sites.append((s, ri, ci))
    if not sites:
        return None
    s, ri, ci = rng.choice(sites)
    v = s["rows"][ri][ci]
    out = []
    for ch in v:
        if ch in spell.SMART and rng.random() < 0.7:
            out.append(rng.choice(spell.SMART[ch]))
        else:
            out.append(ch)
    new = "".join(out)
    if new == v:
        return None
    s["rows"][ri][ci] = new
    return f"smart_quotes:{s['name']}:{s['cols'][ci]}"


def t_cell_space(rng, wb):
    s = sheet(wb, "survey")
    if s is None:
        return None
    sites = [(ri, ci) for ri, r in enumerate(s["rows"]) for ci, v in enumerate(r) if v]
    if not sites:
        return None
    ri, ci = rng.choice(sites)
    v = s["rows"][ri][ci]
    mode = rng.choice(["outer", "inner", "both"])
    new = v
    if mode in ("inner", "both") and " " in v:
        new = re.sub(" +", lambda m: m.group(0) if rng.random() < 0.5 else " " * rng.randint(1, 3), new)
    if mode in ("outer", "both") or new == v:
        new = rng.choice(["", " ", "  ", "\t", "\n"]) + new + rng.choice(["", " ", "   ", " ", "\n"])
    if new == v:
        return None
    s["rows"][ri][ci] = new
    return f"cell_space:{s['cols'][ci]}"


# ---- layout

def t_col_perm(rng, wb):
    s = pick_sheet(rng, wb, ("survey", "choices", "settings", "external_choices"))
    if s is None or len(s["cols"]) < 2:
        return None
    perm = list(range(len(s["cols"])))
    rng.shuffle(perm)
    if perm == sorted(perm):
        return None
    s["cols"] = [s["cols"][i] for i in perm]
    s["rows"] = [[r[i] for i in perm] for r in s["rows"]]
    return f"col_perm:{s['name']}"


def t_sheet_perm(rng, wb):
    if len(wb["sheets"]) < 2:
        return None
    before = [s["name"] for s in wb["sheets"]]
    rng.shuffle(wb["sheets"])
    if [s["name"] for s in wb["sheets"]] == before:
        return None
    return "sheet_perm"


def t_blank_row(rng, wb):
    s = pick_sheet(rng, wb, ("survey", "choices"))
    if s is None:
        return None
    k = rng.randint(0, len(s["rows"]))
    n = rng.choice([1, 1, 2, 3])
    for _ in range(n):
        s["rows"].insert(k, [None] * len(s["cols"]))
        s["orig"].insert(k, None)
    return f"blank_row:{s['name']}:{k}x{n}"


BLANK_RUN_LIMIT = 60  # pinned: the Excel readers keep interior runs of up to 60 blank rows (61 = end of data)


def t_blank_run(rng, wb):
    """A long run of blank rows (just below / at the readers' end-of-data limit) between two data rows."""
    s = pick_sheet(rng, wb, ("survey", "choices"))
    if s is None or len(s["rows"]) < 2:
        return None
    blank = [all(v in (None, "") for v in r) for r in s["rows"]]
    sites = [k for k in range(1, len(s["rows"])) if not blank[k - 1] and not blank[k]]
    if not sites or any(blank):
        return None  # runs must not merge with blank rows already there
    k = rng.choice(sites)
    n = rng.choice([BLANK_RUN_LIMIT - 1, BLANK_RUN_LIMIT, BLANK_RUN_LIMIT])
    for _ in range(n):
        s["rows"].insert(k, [None] * len(s["cols"]))
        s["orig"].insert(k, None)
    return f"blank_run:{s['name']}:{k}x{n}"


RAW_SHEETS = [
    None,                                                        # plain text sheet (cols/rows only)
    [["a", "a", "b"], [1, 2, 3]],                                # duplicate caption
    [[1, 2.5, ["__date__", "2020-01-02T00:00:00"], True], ["x", "y", "z", "w"]],   # numbers / date / boolean in the first row
    [[None, None, None], ["x", "y", None], [None, None, None], [3, None, "z"]],     # empty first row, gaps
    [],                                                          # completely empty sheet
    [["total", None, "total"], [None, 10, 10.5], ["sum", None, ["__date__", "2021-03-04T05:06:07"]]],
    [["only one cell"]],
]


def t_extra_sheet(rng, wb):
    """Irrelevant workbook content: a sheet that is not an XLSForm sheet (unrelated or underscore-prefixed name) with
    arbitrary cells — typed values, duplicate or missing captions, empty rows.  File channels carry the raw cells;
    markdown / dict carry the plain text rendering."""
    name = rng.choice(spell.UNRELATED_SHEETS)
    if any(s["name"].lower() == name.lower() for s in wb["sheets"]):
        return None
    new = {"name": name, "cols": ["a", "b"], "rows": [["1", "x"], ["2", None]], "orig": [2, 3]}
    k = rng.randrange(len(RAW_SHEETS))
    if RAW_SHEETS[k] is not None:
        new["raw"] = copy.deepcopy(RAW_SHEETS[k])
    wb["sheets"].insert(rng.randint(0, len(wb["sheets"])), new)
    return f"extra_sheet:{name}:raw{k}"


def t_sheet_case(rng, wb):
    s = rng.choice(wb["sheets"])
    if s["name"].lower() not in spell.KNOWN_SHEETS:
        return None
    new = rand_case(rng, s["name"])
    if new == s["name"]:
        return None
    old = s["name"]
    s["name"] = new
    return f"sheet_case:{old}->{new}"


def t_unknown_col(rng, wb):
    s = pick_sheet(rng, wb, ("survey", "settings"))
    if s is None:
        return None
    name = rng.choice(spell.UNKNOWN_COLS)
    if any(snake(c) == snake(name) for c in s["cols"]):
        return None
    k = rng.randint(0, len(s["cols"]))
    s["cols"].insert(k, name)
    for r in s["rows"]:
        blank = all(v in (None, "") for v in r)
        r.insert(k, None if blank or rng.random() < 0.5 else rng.choice(["check this", "ok", "1"]))
    return f"unknown_col:{s['name']}:{name}"


TX = {
    "hdr_case": t_hdr_case,
    "hdr_space": t_hdr_space,
    "hdr_alias": t_hdr_alias,
    "hdr_single_colon": t_hdr_single_colon,
    "type_alias": t_type_alias,
    "truth": t_truth,
    "smart_quotes": t_smart_quotes,
    "cell_space": t_cell_space,
    "col_perm": t_col_perm,
    "sheet_perm": t_sheet_perm,
    "blank_row": t_blank_row,
    "blank_run": t_blank_run,
    "extra_sheet": t_extra_sheet,
    "sheet_case": t_sheet_case,
    "unknown_col": t_unknown_col,
}
# transformations after which element orders that follow column order may differ
LAX = {"col_perm"}
# transformations that only file-like channels can express
NEEDS_FILE = {"sheet_perm", "extra_sheet", "sheet_case"}


def apply(rng, wb, names):
    """Apply the named transformations in order to a copy; returns (wb', labels)."""
    out = copy.deepcopy(wb)
    if "orig" not in out["sheets"][0]:
        init_orig(out)
    labels = []
    for n in names:
        lab = TX[n](rng, out)
        if lab:
            labels.append(lab)
    return out, labels
