"""
C07 (itext): form generator with sparse translation patterns, extraction of the per-element
translation dicts from the implementation's *built* survey (the input of the Lean itext model),
and the observation of an XForm that property C07 talks about.

Every random choice derives from the `random.Random` passed in (seeded from VERIF_SEED).
"""

from __future__ import annotations

import copy
import re
import sys
import xml.etree.ElementTree as ET

from vcore import REPO

if str(REPO) not in sys.path:
    sys.path.insert(0, str(REPO))

NS = {
    "h": "http://www.w3.org/1999/xhtml",
    "x": "http://www.w3.org/2002/xforms",
}
XF = "{http://www.w3.org/2002/xforms}"

LANG_POOL = ["en", "fr", "English (en)", "español", "de", "default", "sw", "French (fr)", "Kiswahili (sw)"]


def near_misses(name: str) -> list[str]:
    """Spellings a person may type for the same language: other letter case, and for `Name (code)` the name
    without the code, the code alone, the code glued on — all of them are *different* translations."""
    out = [name.upper(), name.lower(), name.title(), name.swapcase()]
    m = re.fullmatch(r"(.*?)\s*\((.+)\)", name)
    if m:
        base, code = m.group(1), m.group(2)
        out += [base, base.lower(), code, f"{base}({code})", f"{base} ({code.upper()})"]
    else:
        out += [f"{name} ({name[:2].lower()})", f"{name.title()} ({name[:2].lower()})"]
    return [v for v in dict.fromkeys(out) if v != name and v.strip() == v and v]
TEXTS = ["A", "Label", "b c", "?", "é", "word", "-", "x1", "Z z"]
MEDIA_COLS = ["image", "audio", "video", "big-image"]
SEARCH_APPEARANCES = [
    "search('fruits')", "search('f', 'matches', 'name', ${q0})", "minimal search('abc')",
    "search()", "xsearch('abcd')",
]
PLAIN_APPEARANCES = ["minimal", "search", "search(", "likert", "quick compact", "searchable"]


# ------------------------------------------------------------------------------ generator


class ItextGen:
    def __init__(self, rng, big=False, directed=None):
        self.rng = rng
        self.big = big
        self.directed = directed or {}
        r = rng.random()
        nl = 0 if r < 0.15 else 1 if r < 0.4 else 2 if r < 0.8 else 3
        if "nlangs" in self.directed:
            nl = self.directed["nlangs"]
        self.langs = rng.sample(LANG_POOL, nl)
        # near misses of a language name (case, with / without the `(code)`, the code alone) are different
        # translations; the default language may be any of them, present as a translation or not
        if self.langs and rng.random() < 0.3:
            var = rng.choice(near_misses(rng.choice(self.langs)))
            if var not in self.langs:
                self.langs.append(var)
        # the form's default language is decided first (settings cell wins over the argument)
        dl_pool = self.langs + ["default", "xx"]
        if self.langs:
            dl_pool += rng.sample(near_misses(rng.choice(self.langs)), 2)
        self.st_dl = rng.choice(dl_pool) if rng.random() < 0.45 else None
        self.kw_dl = rng.choice(dl_pool) if rng.random() < 0.3 else None
        self.dl = self.st_dl or self.kw_dl or "default"
        self.counter = 0
        self.p_blank = rng.choice([0.0, 0.0, 0.05, 0.15])
        self.lists = {}
        self.p_unsuffixed = rng.choice([0.0, 0.2, 0.5])
        self.p_col = rng.choice([0.15, 0.3, 0.5])
        self.p_unlabeled_choice = self.directed.get("p_unlabeled_choice", rng.choice([0.0, 0.0, 0.0, 0.15]))
        self.search_lists = set()
        self.osm_lists = {}

    def text(self, dyn=False):
        if not dyn and self.rng.random() < self.p_blank:
            # whitespace-only cell: reachable through dict / JSON input only (spreadsheet readers drop empty
            # cells); after cleaning it is an empty-string translation, which still is a translation
            return self.rng.choice([" ", "  "])
        s = self.rng.choice(TEXTS)
        if s != "-" and self.rng.random() < 0.7:
            # distinct marker texts: a value shown under the wrong language / id / form is noticed
            self.counter_txt = getattr(self, "counter_txt", 0) + 1
            s = f"{s}~{self.counter_txt}"
        if dyn:
            s = s + " ${q0}" + self.rng.choice(["", " t"])
        return s

    def name(self, prefix="q"):
        self.counter += 1
        pool = {"q": ["q", "n", "age", "hint", "my_guidance_hint_q", "label", "a-b", "x.y"], "g": ["g", "grp", "guidance_hint", "r"]}[prefix]
        return f"{self.rng.choice(pool)}{self.counter}"

    def sparse(self, row, base, p_any=None, dyn_p=0.0, force=False):
        """Fill `base`, `base::lang` cells with a sparse pattern. Returns True when any cell was set."""
        rng = self.rng
        p_any = self.p_col if p_any is None else p_any
        if not force and rng.random() >= p_any:
            return False
        dyn = rng.random() < dyn_p
        cols = []
        mode = rng.random()
        if not self.langs or mode < self.p_unsuffixed:
            cols.append(base)
            if self.langs and rng.random() < 0.4:
                cols += [f"{base}::{lg}" for lg in self.langs if rng.random() < 0.5]
        elif mode < 0.55 + self.p_unsuffixed / 2:
            cols += [f"{base}::{lg}" for lg in self.langs if rng.random() < 0.6]
            if not cols:
                cols.append(f"{base}::{rng.choice(self.langs)}")
        else:
            cols.append(f"{base}::{rng.choice(self.langs)}")
        for c in cols:
            if base in MEDIA_COLS:
                row[c] = rng.choice(["a.png", "b.jpg", "-", "m.mp3"])
            else:
                row[c] = self.text(dyn)
        return True

    def bind_message(self, row, col, p):
        """A bind message column given directly (bind::jr:…): plain / with ${ref} / per language."""
        rng = self.rng
        if rng.random() >= p:
            return
        dyn = rng.random() < 0.5
        mode = rng.random()
        if not self.langs or mode < 0.5:
            row[col] = self.text(dyn)
        else:
            for lg in self.langs:
                if rng.random() < 0.6:
                    row[f"{col}::{lg}"] = self.text(dyn and rng.random() < 0.7)
            if mode > 0.85:
                row[col] = self.text(dyn)

    def list_name(self, search=False):
        rng = self.rng
        cands = [l for l in self.lists if (l in self.search_lists) == search]
        other = [l for l in self.lists if (l in self.search_lists) != search]
        if cands and rng.random() < 0.5:
            return rng.choice(cands)
        if other and rng.random() < 0.06:
            return rng.choice(other)  # search / non-search conflict (rejected by pyxform)
        ln = rng.choice(["yn", "c", "l-1", "a", "opts", "c-1"] + (["it's"] if rng.random() < 0.03 else [])) + str(len(self.lists))
        self.new_list(ln)
        if search:
            self.search_lists.add(ln)
        return ln

    def new_list(self, ln):
        rng = self.rng
        kind = rng.choice(["plain", "plain", "translated", "translated", "media", "dynamic", "mixed", "mixed"])
        if not self.langs and kind == "translated":
            kind = "mixed"
        items = []
        for i in range(rng.randint(1, 4)):
            row = {"list_name": ln, "name": rng.choice(["a", "b", "c", "x"]) + str(i)}
            unlabeled = rng.random() < self.p_unlabeled_choice
            if kind == "plain":
                if not unlabeled:
                    row["label"] = self.text()
            elif kind == "translated":
                if not unlabeled:
                    self.sparse(row, "label", force=True)
            elif kind == "media":
                if not unlabeled:
                    row["label"] = self.text()
                self.sparse(row, rng.choice(["image", "audio"]), p_any=0.7)
            elif kind == "dynamic":
                if not unlabeled:
                    row["label"] = self.text(dyn=rng.random() < 0.6)
            else:
                if not unlabeled:
                    self.sparse(row, "label", force=True, dyn_p=0.15)
                self.sparse(row, "image", p_any=0.3)
                self.sparse(row, "audio", p_any=0.15)
                if rng.random() < 0.1:
                    self.sparse(row, "big-image", p_any=1.0)
            if rng.random() < 0.1:
                row["extra_col"] = "e"
            items.append(row)
        self.lists[ln] = items

    def question_row(self, in_repeat):
        rng = self.rng
        r = rng.random()
        row = {}
        if r < 0.38:
            typ = rng.choice(["select_one", "select_one", "select_multiple", "rank"])
            search = typ != "rank" and rng.random() < 0.18
            ln = self.list_name(search)
            row["type"] = f"{typ} {ln}"
            if search:
                row["appearance"] = rng.choice(SEARCH_APPEARANCES)
            elif rng.random() < 0.25:
                row["appearance"] = rng.choice(PLAIN_APPEARANCES)
            if not search and rng.random() < 0.08 and typ != "rank":
                row["type"] += rng.choice([" or_other", " or other"])
            if rng.random() < 0.15 and "or" not in row["type"].split(" ")[2:]:
                row["choice_filter"] = "true()"
            if rng.random() < 0.08 and typ != "rank":
                row["parameters"] = rng.choice(["randomize=true", "randomize=true seed=3"])
        elif r < 0.44:
            row["type"] = rng.choice(["select_one_from_file f.csv", "select_multiple_from_file g.xml", "select_one_from_file h.geojson"])
            if rng.random() < 0.1:
                row["appearance"] = "search('f')"
        elif r < 0.47:
            # osm question: its tags (osm sheet) render a label each
            ln = "tags" + str(len(self.osm_lists))
            row["type"] = f"osm {ln}"
            tags = []
            for i in range(rng.randint(1, 3)):
                t = {"list_name": ln, "name": rng.choice(["name", "addr", "kind"]) + str(i)}
                if rng.random() < 0.6:
                    self.sparse(t, "label", force=True)
                else:
                    t["label"] = self.text()
                tags.append(t)
            self.osm_lists[ln] = tags
        elif r < 0.52:
            row["type"] = "calculate"
            row["calculation"] = rng.choice(["1 + 1", "${q0}"])
        else:
            row["type"] = rng.choice(
                ["text", "text", "integer", "note", "note", "image", "acknowledge", "range", "date", "geopoint", "barcode",
                 "hidden", "start", "audio", "decimal"]
            )
        row["name"] = self.name("q")
        base = row["type"].split(" ")[0]
        quiet = base in ("calculate", "hidden", "start")
        p_label = 0.25 if quiet else 0.93
        has_label = self.sparse(row, "label", p_any=p_label, dyn_p=0.1)
        has_hint = self.sparse(row, "hint", dyn_p=0.1)
        self.sparse(row, "guidance_hint")
        for m in MEDIA_COLS:
            if m == "big-image" and not any(k.split("::")[0] == "image" for k in row) and rng.random() < 0.85:
                continue  # big-image without image is rejected
            self.sparse(row, m, p_any=self.p_col * (0.5 if m in ("image", "audio") else 0.15))
        if rng.random() < 0.45:
            row["constraint"] = ". != 'x'"
            self.sparse(row, "constraint_message", p_any=0.8, dyn_p=0.3)
        elif rng.random() < 0.1:
            self.sparse(row, "constraint_message", p_any=1.0, dyn_p=0.3)
        if rng.random() < 0.45:
            row["required"] = rng.choice(["yes", "true()", "${q0} = 'a'"])
            self.sparse(row, "required_message", p_any=0.8, dyn_p=0.3)
        self.bind_message(row, "bind::jr:noAppErrorString", 0.12)
        if base == "range" and rng.random() < 0.5:
            row["parameters"] = "start=1 end=5 step=1"
        if rng.random() < 0.05 and base in ("text", "integer") and not in_repeat:
            row["trigger"] = "${q0}"
            row["calculation"] = "1"
        return row

    def section_rows(self, depth, in_repeat):
        rng = self.rng
        rows = []
        n = rng.randint(1, 3 if not self.big else 5)
        for _ in range(n):
            if depth < 3 and rng.random() < 0.22:
                kind = rng.choice(["group", "group", "repeat"])
                row = {"type": f"begin {kind}", "name": self.name("g")}
                self.sparse(row, "label", p_any=0.75, dyn_p=0.1)
                self.sparse(row, "hint", p_any=0.1)
                self.sparse(row, "guidance_hint", p_any=0.08)
                self.sparse(row, "image", p_any=0.12)
                if rng.random() < 0.1:
                    row["relevant"] = "${q0} = 'a'"
                    self.sparse(row, "constraint_message", p_any=0.5)
                    self.sparse(row, "required_message", p_any=0.3)
                    self.bind_message(row, "bind::jr:noAppErrorString", 0.3)
                if rng.random() < 0.15:
                    row["appearance"] = "field-list"
                rows.append(row)
                rows += self.section_rows(depth + 1, in_repeat or kind == "repeat")
                rows.append({"type": f"end {kind}"})
            else:
                rows.append(self.question_row(in_repeat))
        return rows

    def form(self):
        rng = self.rng
        q0 = {"type": "text", "name": "q0"}
        self.sparse(q0, "label", force=True)
        survey = [q0] + self.section_rows(0, False)
        # lists never used by a select (they still get an instance)
        if rng.random() < 0.25:
            self.new_list("unused" + str(len(self.lists)))
        rows = [r for items in self.lists.values() for r in items]
        # shuffle column order on both sheets (translated before unsuffixed etc.)
        form = {"survey": survey}
        cols = []
        for r in survey:
            for k in r:
                if k not in cols:
                    cols.append(k)
        if rng.random() < 0.5:
            head = [c for c in cols if c in ("type", "name")]
            tail = [c for c in cols if c not in head]
            rng.shuffle(tail)
            form["survey_cols"] = head + tail
        if rows:
            form["choices"] = rows
        if self.osm_lists:
            form["osm"] = [t for tags in self.osm_lists.values() for t in tags]
        st = {}
        if self.st_dl is not None:
            st["default_language"] = self.st_dl
        if rng.random() < 0.2:
            st["form_title"] = "T"
        if st:
            form["settings"] = [st]
        kw = {}
        if self.kw_dl is not None:
            kw["default_language"] = self.kw_dl
        return {"form": form, "kw": kw}


def gen_case(rng, big=False, directed=None):
    return ItextGen(rng, big=big, directed=directed).form()


# ------------------------------------------------------------------------------ extraction


class Unsupported(Exception):
    pass


def txt_json(v):
    """Python `str | dict | None` slot → JSON for the model: null | "s" | {"d": [[lang, text], …]}."""
    if v is None:
        return None
    if isinstance(v, str):
        return v
    if isinstance(v, dict):
        out = []
        for k, x in v.items():
            if not isinstance(k, str) or not isinstance(x, str):
                raise Unsupported("nested dict in a translatable slot")
            out.append([k, x])
        return {"d": out}
    raise Unsupported(f"slot of type {type(v).__name__}")


def media_json(m):
    """media dict: type → str | {lang: str}; → [[type, txt_json], …] | null."""
    if m is None:
        return None
    if not isinstance(m, dict):
        raise Unsupported("media is not a dict")
    out = []
    for k, v in m.items():
        if v is None:
            raise Unsupported("media value None")
        if k == "default" and isinstance(v, dict):
            raise Unsupported("media dict nested under 'default'")
        out.append([k, txt_json(v)])
    return out


def extract(survey) -> dict:
    """The built survey (before xml()) as input of the Lean itext model.  Reads plain slots only."""
    from pyxform.question import MultipleChoiceQuestion, Question
    from pyxform.section import Section

    def elem(e):
        cls = type(e).__name__
        d = {"cls": cls, "name": e.name, "kids": []}
        if isinstance(e, Question | Section):
            d["type"] = e.type if isinstance(e.type, str) else ""
            d["label"] = txt_json(e.label)
            d["hint"] = txt_json(e.hint)
            d["guidance"] = txt_json(getattr(e, "guidance_hint", None))
            d["media"] = media_json(e.media)
            bind = e.bind
            if bind is not None and not isinstance(bind, dict):
                raise Unsupported("bind is not a dict")
            bind = bind or {}
            d["msgs"] = []
            for key, v in bind.items():
                if key in ("jr:constraintMsg", "jr:requiredMsg", "jr:noAppErrorString"):
                    if v is None:
                        raise Unsupported("bind message None")
                    d["msgs"].append([key, txt_json(v)])
            d["calc"] = "calculate" in bind
            d["trigger"] = bool(getattr(e, "trigger", None))
            ctl = e.control
            if ctl is not None and not isinstance(ctl, dict):
                raise Unsupported("control is not a dict")
            d["bodyless"] = bool(ctl and ctl.get("bodyless"))
            d["flat"] = bool(getattr(e, "flat", None))
            app = (ctl or {}).get("appearance") if ctl else None
            if app is not None and not isinstance(app, str):
                raise Unsupported("appearance is not a string")
            d["appearance"] = app
            if isinstance(e, MultipleChoiceQuestion):
                d["itemset"] = e.itemset if isinstance(e.itemset, str) else None
                d["list"] = e.list_name
                d["hasChoices"] = e.choices is not None
                if e.choices is not None and e.choices.name != e.list_name:
                    raise Unsupported("select whose Itemset is not its list_name")
            if cls == "OsmUploadQuestion":
                d["tags"] = []
                for t in e.children or ():
                    if getattr(t, "media", None):
                        raise Unsupported("osm tag with media")
                    d["tags"].append([t.name, txt_json(t.label)])
            if isinstance(e, Section):
                d["kids"] = [elem(c) for c in e.children]
        return d

    lists = []
    for ln, its in (survey.choices or {}).items():
        opts = []
        for o in its.options:
            if isinstance(o.extra_data, dict) and "itextId" in o.extra_data:
                # an extra choices column of that name is written as a second <itextId> child (finding F60)
                raise Unsupported("choices column named itextId")
            opts.append({"label": txt_json(o.label), "media": media_json(o.media)})
        lists.append({"name": ln, "options": opts})
    root = elem(survey)
    return {"defaultLanguage": survey.default_language, "lists": lists, "root": root}


def build_survey(form, kw):
    """The implementation's front end up to the built (not yet serialised) survey."""
    import impl
    from pyxform.builder import create_survey_element_from_dict
    from pyxform.xls2json import workbook_to_json
    from pyxform.xls2json_backends import get_xlsform

    wb = get_xlsform(xlsform=copy.deepcopy(impl.wb_dict(form)))
    data = workbook_to_json(
        workbook_dict=wb, form_name=None, fallback_form_name=wb.fallback_form_name,
        default_language=kw.get("default_language"), warnings=[],
    )
    return create_survey_element_from_dict(data)


# ------------------------------------------------------------------------------ observation

ITEXT_REF = re.compile(r"jr:itext\('(.*)'\)", re.S)


def local(tag):
    return tag.split("}", 1)[1] if "}" in tag else tag


VALUE_XML = re.compile(r"<value(?: [^<>]*)?(?:/>|(?<!/)>.*?</value>)", re.S)


def norm_kids(kids):
    """Children of a <value> as a reader sees them: line ends normalised, empty text nodes absent, adjacent text
    nodes merged.  `["t", text]` | `["e", tag, [[k, v], …]]`."""
    out = []
    for k in kids:
        if k[0] == "t":
            t = k[1].replace("\r\n", "\n").replace("\r", "\n")
            if not t:
                continue
            if out and out[-1][0] == "t":
                out[-1] = ["t", out[-1][1] + t]
            else:
                out.append(["t", t])
        else:
            out.append(["e", k[1], sorted([list(a) for a in k[2]])])
    return out


def value_dom(v) -> dict:
    """The DOM of one <value> of the implementation's XForm: attributes and children (text chunks and elements)."""
    kids = [["t", v.text or ""]]
    for c in v:
        kids.append(["e", local(c.tag), [[local(k), x] for k, x in c.attrib.items()]])
        if len(c) or (c.text or ""):
            kids.append(["e", "#nested", []])  # an <output> never has content
        kids.append(["t", c.tail or ""])
    return {"attrs": sorted([local(k), x] for k, x in v.attrib.items()), "kids": norm_kids(kids)}


def observe(xform: str) -> dict:
    """What C07 observes: translations (lang, default attribute, text ids in order), all
    jr:itext('…') attribute values in the body and on binds, all itextId values of choice items."""
    root = ET.fromstring(xform)
    model = root.find("h:head/x:model", NS)
    body = root.find("h:body", NS)
    trans = []
    n_itext = 0
    for it in model.findall("x:itext", NS):
        n_itext += 1
        for t in it.findall("x:translation", NS):
            trans.append({
                "lang": t.get("lang"),
                "default": t.get("default"),
                "ids": [x.get("id") for x in t.findall("x:text", NS)],
                "forms": [[v.get("form") for v in x.findall("x:value", NS)] for x in t.findall("x:text", NS)],
                "values": [["".join(v.itertext()) for v in x.findall("x:value", NS)] for x in t.findall("x:text", NS)],
                "doms": [[value_dom(v) for v in x.findall("x:value", NS)] for x in t.findall("x:text", NS)],
            })
    # the serialised <value> elements of the itext block, in document order, dealt out to the texts by their counts
    m = re.search(r"<itext>.*?</itext>", xform, re.S)
    raw = VALUE_XML.findall(m.group(0)) if m else []
    if sum(len(f) for t in trans for f in t["forms"]) == len(raw):
        it = iter(raw)
        for t in trans:
            t["valueXml"] = [[next(it) for _ in f] for f in t["forms"]]
    else:
        for t in trans:
            t["valueXml"] = None
    body_refs, bind_refs, item_ids = [], [], []
    for el in body.iter():
        for k, v in el.attrib.items():
            m = ITEXT_REF.fullmatch(v)
            if m:
                body_refs.append(m.group(1))
    for b in model.findall("x:bind", NS):
        for k, v in b.attrib.items():
            m = ITEXT_REF.fullmatch(v)
            if m:
                bind_refs.append(m.group(1))
    item_lists = []
    for inst in model.findall("x:instance", NS):
        if inst.get("id") is None:
            continue
        for el in inst.iter():
            if local(el.tag) == "itextId":
                item_ids.append(el.text or "")
                if inst.get("id") not in item_lists:
                    item_lists.append(inst.get("id"))
    return {
        "translations": trans,
        "bodyRefs": body_refs,
        "bindRefs": bind_refs,
        "itemIds": item_ids,
        "itextBlocks": n_itext,
    }


def expected_default_language(case) -> str:
    """The form's default language as the user states it: settings cell, else argument, else 'default'."""
    st = (case["form"].get("settings") or [{}])[0]
    v = st.get("default_language")
    if v not in (None, ""):
        return str(v)
    v = case.get("kw", {}).get("default_language")
    if v is not None:
        return str(v)
    return "default"
