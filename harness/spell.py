"""
C13 support: workbook grids, delivery channels, the catalogue of documented-equivalent
rewritings (DESIGN Appendix C), and the canonical form in which two conversions are compared.

The equivalence classes below are the harness's OWN pinned copy of what the XLSForm
documentation / the property text calls interchangeable; they are deliberately not read from
/repo (a changed alias table must show up as a difference, not be followed silently).
"""

from __future__ import annotations

import copy
import io
import re
import xml.etree.ElementTree as ET

import impl

# --------------------------------------------------------------------------- workbook grid
# wb = {"sheets": [{"name": str, "cols": [str], "rows": [[str|None, ...], ...]}, ...]}

KNOWN_SHEETS = ("survey", "choices", "settings", "external_choices", "entities", "osm")


def wb_from_form(form: dict) -> dict:
    sheets = []
    for s in KNOWN_SHEETS:
        if s in form and form[s] is not None:
            cols = impl.headers_of(form[s], form.get(s + "_cols"))
            rows = [[(str(r[c]) if r.get(c) not in (None, "") else None) for c in cols] for r in form[s]]
            sheets.append({"name": s, "cols": cols, "rows": rows})
    return {"sheets": sheets}


def sheet(wb, name):
    for s in wb["sheets"]:
        if s["name"].lower() == name:
            return s
    return None


def to_dict(wb: dict) -> dict:
    """The dict accepted by convert(): keys are the (lower-case) sheet names as a backend would
    deliver them; row dicts in header order, non-empty cells only."""
    out = {"sheet_names": [s["name"] for s in wb["sheets"]]}
    for s in wb["sheets"]:
        key = s["name"].lower()
        out[key] = [{c: v for c, v in zip(s["cols"], r) if v not in (None, "")} for r in s["rows"]]
        out[key + "_header"] = [{c: None for c in s["cols"]}] if s["cols"] else []
    return out


def md_ok(wb: dict) -> bool:
    """Can the markdown channel carry this workbook without changing it in ways other than
    trimming cells?"""
    for s in wb["sheets"]:
        if not s["cols"]:
            return False
        for v in [s["name"], *s["cols"], *[c for r in s["rows"] for c in r]]:
            if v is None:
                continue
            if "\n" in v or "\r" in v or "\\" in v or "#" in v or not v.strip():
                return False
        if any(c is None or not c.strip() for c in s["cols"]):
            return False
    return True


def to_md(wb: dict) -> str:
    lines = []
    for s in wb["sheets"]:
        lines.append(f"| {s['name']} |")
        lines.append("| | " + " | ".join(impl.md_cell(c) for c in s["cols"]) + " |")
        for r in s["rows"]:
            if all(v in (None, "") for v in r):
                lines.append("| |" + " |" * len(s["cols"]))
            else:
                lines.append("| | " + " | ".join(impl.md_cell(v or "") for v in r) + " |")
    return "\n".join(lines) + "\n"


def raw_cell(v):
    if isinstance(v, list) and v and v[0] == "__date__":
        import datetime

        return datetime.datetime.fromisoformat(v[1])
    return v


def xlsx_ok(wb: dict) -> bool:
    for s in wb["sheets"]:
        if "raw" in s:
            if len(s["name"]) > 31 or re.search(r"[\\/*?:\[\]]", s["name"]):
                return False
            continue
        if not s["cols"] or len(s["name"]) > 31 or re.search(r"[\\/*?:\[\]]", s["name"]):
            return False
        if len(set(s["cols"])) != len(s["cols"]):
            return False
        for v in [*s["cols"], *[c for r in s["rows"] for c in r]]:
            if v is not None and (re.search(r"[\x00-\x08\x0b\x0c\x0e-\x1f]", v) or v.startswith("=")):
                return False  # control characters are illegal in xlsx; openpyxl stores "=…" as a formula
    return True


def to_xlsx(wb: dict) -> bytes:
    from openpyxl import Workbook

    book = Workbook(write_only=True)
    for s in wb["sheets"]:
        ws = book.create_sheet(title=s["name"])
        if "raw" in s:
            # irrelevant workbook content: typed cells exactly as given (numbers, dates, booleans, duplicates, gaps)
            for r in s["raw"]:
                ws.append([raw_cell(v) for v in r])
            continue
        ws.append(list(s["cols"]))
        for r in s["rows"]:
            ws.append([(v if v not in (None, "") else None) for v in r])
    buf = io.BytesIO()
    book.save(buf)
    return buf.getvalue()


def run(wb: dict, channel: str) -> dict:
    """Convert through one channel; outcome dict as impl.run."""
    from pathlib import Path

    from pyxform.errors import PyXFormError
    from pyxform.xls2xform import convert

    try:
        if channel == "dict":
            res = convert(xlsform=copy.deepcopy(to_dict(wb)))
        elif channel == "md":
            res = convert(xlsform=to_md(wb), file_type=".md")
        elif channel == "xlsx":
            res = convert(xlsform=to_xlsx(wb), file_type=".xlsx")
        else:
            raise ValueError(channel)
    except PyXFormError as e:
        return {"class": "pyxform", "ok": False, "msg": str(e)}
    except RecursionError:
        return {"class": "internal", "ok": False, "msg": "RecursionError", "site": ""}
    except Exception as e:  # noqa: BLE001
        import traceback

        site = ""
        for fr in reversed(traceback.extract_tb(e.__traceback__)):
            if "/pyxform/" in fr.filename:
                site = f"{Path(fr.filename).name}:{fr.name}"
                break
        return {"class": "internal", "ok": False, "msg": f"{type(e).__name__}: {e}", "site": site}
    return {"class": "ok", "ok": True, "xform": res.xform, "warnings": list(res.warnings), "itemsets": res.itemsets}


# --------------------------------------------------------------------------- pinned equivalences

# Interchangeable header prefixes (the part before the language / remaining tokens), per sheet.
SURVEY_HEADER_CLASSES = [
    ["label", "caption"],
    ["relevant", "relevance", "bind::relevant"],
    ["required", "bind::required"],
    ["constraint", "bind::constraint"],
    ["constraint_message", "constraining_message", "bind::jr:constraintMsg"],
    ["required_message", "requiredmsg", "bind::jr:requiredMsg"],
    ["calculation", "calculate", "bind::calculate"],
    ["read_only", "readonly", "bind::readonly"],
    ["image", "media::image"],
    ["big-image", "media::big-image"],
    ["audio", "media::audio"],
    ["video", "media::video"],
    ["appearance", "control::appearance", "body::appearance"],
    ["repeat_count", "count", "jr:count", "control::jr:count"],
    ["name", "tag", "value"],
    ["type", "command"],
    ["no_app_error_string", "noapperrorstring", "bind::jr:noAppErrorString"],
    ["save_to", "bind::entities:saveto"],
    ["autoplay", "control::autoplay"],
    ["rows", "control::rows"],
]
CHOICES_HEADER_CLASSES = [
    ["label", "caption"],
    ["list_name", "list name"],
    ["name", "value"],
    ["image", "media::image"],
    ["big-image", "media::big-image"],
    ["audio", "media::audio"],
    ["video", "media::video"],
]
SETTINGS_HEADER_CLASSES = [
    ["form_title", "title", "set_form_title"],
    ["form_id", "id_string", "set_form_id"],
]
ENTITIES_HEADER_CLASSES = [["dataset", "list_name"]]
EXTERNAL_HEADER_CLASSES = [["list_name", "list name"], ["name", "value"], ["label", "caption"]]
HEADER_CLASSES = {
    "survey": SURVEY_HEADER_CLASSES,
    "choices": CHOICES_HEADER_CLASSES,
    "settings": SETTINGS_HEADER_CLASSES,
    "entities": ENTITIES_HEADER_CLASSES,
    "external_choices": EXTERNAL_HEADER_CLASSES,
}
# Columns whose first token may change case / spacing / `_`↔space (known to the sheet).
KNOWN_FIRST = {
    "survey": {
        "type", "name", "label", "hint", "guidance_hint", "default", "choice_filter", "parameters", "trigger",
        "media", "bind", "control", "instance", "body",
    } | {m for c in SURVEY_HEADER_CLASSES for m in c if "::" not in m and ":" not in m},
    "choices": {"name", "label", "media", "list_name", "list name", "caption", "value", "image", "audio", "video", "big-image"},
    "settings": {
        "form_title", "form_id", "title", "id_string", "version", "default_language", "instance_name", "style",
        "submission_url", "public_key", "auto_send", "auto_delete", "allow_choice_duplicates", "name",
        "omit_instanceID", "clean_text_values", "set_form_title", "set_form_id", "instance_xmlns", "namespaces",
    },
    "entities": {"dataset", "list_name", "label", "entity_id", "create_if", "update_if"},
}
# case-sensitive settings columns (slot names with capitals: only the exact spelling is "known")
CASE_FIXED = {"omit_instanceID"}

SELECT_CLASSES = [
    ["select_one", "select one", "select1", "select one from", "add select one prompt using"],
    ["select_multiple", "select all that apply", "select all that apply from", "add select multiple prompt using"],
]
OR_OTHER = ["or_other", "or other", "or specify other"]
CONTROL_CLASSES = [
    ["group"],
    ["repeat", "lgroup", "looped group"],
]
TYPE_CLASSES = [
    ["integer", "int"],
    ["text", "string"],
    ["image", "photo", "add image prompt", "add photo prompt"],
    ["dateTime", "datetime"],
    ["geopoint", "location", "gps"],
    ["deviceid", "imei"],
    ["audio", "add audio prompt"],
    ["video", "add video prompt"],
    ["file", "add file prompt"],
]
TRUE_SPELLINGS = ["yes", "Yes", "YES", "true", "True", "TRUE", "true()"]
FALSE_SPELLINGS = ["no", "No", "NO", "false", "False", "FALSE", "false()"]
# columns holding truth values (canonical header class members are resolved via first_token_class)
TRUTH_SURVEY = {"required", "bind::required", "read_only", "readonly", "bind::readonly", "disabled",
                "relevant", "constraint", "calculation"}
# pinned: the bind attributes whose yes/no style values are written as true()/false(), with their column spellings
CONVERTIBLE_COLUMNS = {
    "readonly": ["read_only", "readonly", "bind::readonly"],
    "required": ["required", "bind::required"],
    "relevant": ["relevant", "relevance", "bind::relevant"],
    "constraint": ["constraint", "bind::constraint"],
    "calculate": ["calculation", "calculate", "bind::calculate"],
}
TRUTH_SETTINGS = {"omit_instanceID", "allow_choice_duplicates", "clean_text_values"}
SMART = {"'": ["‘", "’"], '"': ["“", "”"]}
UNRELATED_SHEETS = ["notes", "_draft", "lookup data", "Changelog", "_survey", "_choices", "translations todo", "README"]
UNKNOWN_COLS = ["notes", "my comment", "TODO", "reviewer", "xnote_1"]


def split_header(h: str):
    """(tokens, delimiter) of a header the way a reader of the documentation would."""
    if "::" in h:
        return [t.strip() for t in h.split("::")], "::"
    return [h.strip()], None


def snake(s: str) -> str:
    return "_".join(s.split()).lower()


def header_class(sheet_name: str, h: str):
    """(class, member index, rest tokens) when the header starts with a member of a pinned class."""
    toks, _ = split_header(h)
    best = None
    for cls in HEADER_CLASSES.get(sheet_name, []):
        for i, m in enumerate(cls):
            mt = m.split("::")
            if len(toks) >= len(mt) and [snake(toks[0]), *toks[1 : len(mt)]] == [snake(mt[0]), *mt[1:]]:
                if best is None or len(mt) > best[3]:
                    best = (cls, i, toks[len(mt):], len(mt))
    return best[:3] if best else None


# --------------------------------------------------------------------------- canonical results

ROW_RE = re.compile(r"\[row : (\d+)\]")
DICT_DUMP_RE = re.compile(r"(?<=is being skipped:\n)\{.*\}$|(?<=has no label: )\{.*\}$", re.S)
BAD_LANG_RE = re.compile(r"(valid machine-readable codes: )(.*?)\. Learn")
QUOTED_COL_RE = re.compile(r"the '([^']*)' value is invalid")
NOTE_RE = re.compile(r"generated_note_name_(\d+)")


def _strip_ns(tag):
    return tag


def canon_tree(el, lax: bool, in_secondary=False, path=()):
    tag = el.tag
    attrs = sorted(el.attrib.items())
    kids = [canon_tree(k, lax, in_secondary, (*path, tag)) for k in el]
    text = el.text or ""
    tails = [k.tail or "" for k in el]
    if not any(t.strip() for t in [text, *tails]) and kids:
        text, tails = "", ["" for _ in tails]
    local = tag.rsplit("}", 1)[-1]
    if lax:
        # orders that follow column order and carry no meaning for an XForms engine
        if local in ("itext",):
            kids = sorted(kids, key=lambda k: repr(k[1]))
        elif local in ("translation", "text"):
            kids = sorted(kids, key=repr)
        elif local == "item" and any(p.rsplit("}", 1)[-1] == "instance" for p in path):
            kids = sorted(kids, key=repr)
    return (tag, tuple(attrs), text, tuple(kids), tuple(tails))


def canon_header(h: str) -> str:
    """Documentation-level identity of a header: first token snake-cased and mapped to the first member
    of its pinned class, delimiters normalised."""
    toks = [t.strip() for t in (h.split("::") if "::" in h else h.split(":"))]
    if "jr" in toks[:-1]:
        i = toks.index("jr")
        toks = [*toks[:i], "jr:" + toks[i + 1], *toks[i + 2:]]
    toks[0] = snake(toks[0])
    for classes in HEADER_CLASSES.values():
        for cls in classes:
            for mem in cls:
                mt = mem.split("::")
                if toks[: len(mt)] == mt:
                    return "::".join([cls[0], *toks[len(mt):]])
    return "::".join(toks)


def canon_xform(text: str, lax: bool, note_map=None):
    if note_map:
        text = NOTE_RE.sub(lambda m: "generated_note_name_" + str(note_map.get(int(m.group(1)), "UNMAPPED" + m.group(1))), text)
    try:
        root = ET.fromstring(text)
    except ET.ParseError:
        return ("not-well-formed", text)  # C01's business; still must be the same text on both sides
    return canon_tree(root, lax)


def canon_msg(msg: str, survey_map=None, choices_map=None):
    """Row numbers cited in a message mapped back to the original numbering.  Messages of the
    choices validator cite choices rows; everything else cites survey rows."""
    # messages that dump the raw row dict: the property fixes kind, subject (the element's name) and row,
    # not the spelling of the cells quoted after them
    mm = DICT_DUMP_RE.search(msg)
    if mm:
        nm = re.search(r"'name': ('[^']*'|\"[^\"]*\")", mm.group(0))
        msg = msg[: mm.start()] + "{name=" + (nm.group(1) if nm else "-") + "}" + msg[mm.end():]
    # messages that quote a column header as typed: the column is the subject, not its spelling
    msg = QUOTED_COL_RE.sub(lambda q: "the '" + canon_header(q.group(1)) + "' value is invalid", msg)
    # the language list of the bad-language-code warning follows column order: the subject is the set
    msg = BAD_LANG_RE.sub(lambda q: q.group(1) + ", ".join(sorted(q.group(2).split(", "))) + ". Learn", msg)
    m = choices_map if "On the 'choices' sheet" in msg else survey_map
    if m:
        msg = ROW_RE.sub(lambda mm: "[row : %s]" % m.get(int(mm.group(1)), "?" + mm.group(1)), msg)
    if survey_map:
        msg = NOTE_RE.sub(lambda mm: "generated_note_name_" + str(survey_map.get(int(mm.group(1)), "UNMAPPED" + mm.group(1))), msg)
    return msg


def canon_itemsets(text):
    """itemsets.csv is read by column name: rows as sorted (header, value) pairs, in row order."""
    if not text:
        return text
    import csv
    import io as _io

    rows = list(csv.reader(_io.StringIO(text)))
    if not rows:
        return []
    return [sorted(zip(rows[0], r)) for r in rows[1:]]


def canon_result(r: dict, lax: bool, survey_map=None, choices_map=None):
    if r["class"] == "ok":
        return {
            "class": "ok",
            "xform": canon_xform(r["xform"], lax, survey_map),
            "warnings": sorted(canon_msg(w, survey_map, choices_map) for w in r["warnings"]),
            "itemsets": canon_itemsets(r.get("itemsets")),
        }
    if r["class"] == "pyxform":
        return {"class": "pyxform", "msg": canon_msg(r["msg"], survey_map, choices_map)}
    return {"class": "internal", "msg": r["msg"], "site": r.get("site", "")}


def first_diff(a, b, path="") -> str:
    """Human-readable first difference of two canonical results."""
    if type(a) is not type(b):
        return f"{path}: {a!r} vs {b!r}"[:400]
    if isinstance(a, dict):
        for k in sorted(set(a) | set(b)):
            if a.get(k) != b.get(k):
                return first_diff(a.get(k), b.get(k), f"{path}/{k}")
    if isinstance(a, (list, tuple)):
        if len(a) == 5 and isinstance(a[0], str) and isinstance(a[3], tuple):  # element
            tag = a[0].rsplit("}", 1)[-1]
            if a[0] != b[0]:
                return f"{path}: <{a[0]}> vs <{b[0]}>"
            if a[1] != b[1]:
                return f"{path}/{tag}@: {dict(a[1])} vs {dict(b[1])}"[:600]
            if a[2] != b[2]:
                return f"{path}/{tag}#text: {a[2]!r} vs {b[2]!r}"[:600]
            if len(a[3]) != len(b[3]):
                return f"{path}/{tag}: {len(a[3])} vs {len(b[3])} children"
            for i, (x, y) in enumerate(zip(a[3], b[3])):
                if x != y:
                    return first_diff(x, y, f"{path}/{tag}[{i}]")
            return f"{path}/{tag}#tails: {a[4]!r} vs {b[4]!r}"[:400]
        if len(a) != len(b):
            extra = [x for x in a if x not in b][:2], [y for y in b if y not in a][:2]
            return f"{path}: lengths {len(a)} vs {len(b)}; only-original {extra[0]!r} only-transformed {extra[1]!r}"[:800]
        for i, (x, y) in enumerate(zip(a, b)):
            if x != y:
                return first_diff(x, y, f"{path}[{i}]")
    return f"{path}: {a!r} vs {b!r}"[:600]
