"""
C17 stream B — vocabulary fuzz: workbooks whose cells are drawn from the XLSForm vocabulary
(fuzzed types, names, parameters, references, sparse sheets, empty groups, odd headers).
Nothing here is expected to be a valid form; the only oracle is "result or PyXFormError".
Every random choice derives from the `random.Random` passed in.
"""

from __future__ import annotations

import random

import gen

TYPES_PLAIN = [
    "text", "integer", "decimal", "date", "time", "dateTime", "note", "geopoint", "geotrace", "geoshape",
    "barcode", "image", "photo", "audio", "video", "file", "acknowledge", "int", "string", "trigger",
    "background-audio", "background-geopoint", "hidden", "calculate", "range", "start", "end", "today",
    "deviceid", "username", "phonenumber", "email", "audit", "xml-external", "csv-external",
    "start-geopoint", "select one", "add note prompt", "q string", "simserial", "subscriberid",
    "number of days in last month", "percentage", "uri:email", "phone number", "signature",
]
TYPES_ODD = [
    "", "foo", "Text", "TEXT", "select_one", "select_multiple", "begin", "end", "begin_group", "end_group",
    "begin  group", "group", "repeat", "begin loop over l1", "begin loop", "end loop", "osm", "osm l1",
    "select_one_from_file", "rank", "select one from", "begin group x", "end group x", "text text",
    "select_one l1 or", "select_one l1 or_other x", "1", "${a}", "text ", "begin repeat over l1",
    "instance_id", "title", "id_string", "public_key", "default_language", "form_title",
]
SELECT_CMDS = [
    "select_one", "select_multiple", "select one", "select multiple", "select all that apply", "rank",
    "select_one_external", "select_one_from_file", "select_multiple_from_file", "select one from file",
    "select1", "select_multiple_external",
]
LISTS = ["l1", "l2", "yn", "nolist", "f.csv", "f.xml", "f.geojson", "f.txt", "f", "a.b.csv", "${a}", "${q1}",
         "${nosuch}", "l1,l2", "L1"]
OR_OTHER = ["", "", "", " or_other", " or other", " or specify other"]
NAMES_OK = ["a", "b", "c", "q1", "q2", "g", "g1", "r", "r1", "age", "meta", "data", "instanceID", "A", "a_other",
            "r_count", "audit", "name", "label", "__version__", "entity", "x-y", "x.y", "_z", "é"]
NAMES_BAD = ["1a", "a b", "$a", "a/b", "", "-a", "a:b:c", ":a", "a:", "${a}", ".", "a b", "a&b", "<a>", "a:b"]
REFS = ["${a}", "${b}", "${q1}", "${g}", "${r}", "${nosuch}", "${a", "${a b}", "${${a}}", "${}", "${ a }", "$a",
        "${last-saved#a}", "${last-saved#nosuch}", "${a}${b}", "${A}", "${meta}", "${instanceID}", "${data}"]
EXPRS = [
    ". > 0", "true()", "1 + 1", "", "now()", "today()", "${a} > 3", "${b} = 'x'", "concat(${a}, 'y')",
    "selected(${q1}, 'a')", "instance('l1')/root/item[name=${a}]/label", "pulldata('f', 'a', 'b', ${a})",
    "../a", "/data/a", "position(..)", "indexed-repeat(${a}, ${r}, 1)", "count(${r})", "${nosuch} + 1", "${data} != ''",
    "'unterminated", "((", "a b c", "1 div 0", "if(${a} = 1, 'a', 'b')", "once(random())", "x", "-1", "42", "3.5",
    "${a} and ${b}", "search('f')", "search('f', 'matches', 'a', ${a})", "${a", "${}", "${a b}",
]
PARAMS = [
    "rows=3", "rows=abc", "foo=1", "rows", "rows=", "=3", "randomize=true", "randomize=maybe", "seed=3",
    "randomize=true seed=3", "randomize=true, seed=${a}", "randomize=true;seed=x", "start=1 end=10 step=1",
    "start=10 end=1 step=3", "start=a", "step=0", "start=1;end=5;step=2", "max-pixels=100", "max-pixels=a",
    "app=com.x.y", "app=1", "quality=low", "quality=bad", "quality=external", "allow-mock-accuracy=true",
    "allow-mock-accuracy=x", "capture-accuracy=5", "capture-accuracy=x", "warning-accuracy=x", "value=v label=l",
    "value=1v", "label=a b", "track-changes=true", "track-changes=x", "identify-user=true",
    "location-priority=balanced location-min-interval=1 location-max-age=2", "location-priority=x",
    "location-min-interval=1", "location-priority=balanced location-min-interval=a location-max-age=2",
    "location-priority=balanced location-min-interval=5 location-max-age=2", "track-changes-reasons=on-form-edit",
    "track-changes-reasons=x", "a=b=c", "rows=3 rows=4", ";", ",", " ", "create=1",
]
APPEARANCES = [
    "minimal", "field-list", "table-list", "label", "list-nolabel", "search('f')", "search('f', 'matches', 'a', ${a})",
    "multiline", "annotate", "quick", "w1", "field-list table-list", "map", "picker", "no-ticks", "vertical",
    "${a}", "likert", "autocomplete", "signature", "rating", "",
]
TEXTS = ["Label", "a", "Q ${a}", "Q ${nosuch}", "<b>x</b>", "x & y", "1", " ", "é", "${a", "a | b", "**bold**",
         "jr:itext('x')", "[link](http://x)", "line1\nline2", "0", "True", "None"]
YESNO = ["yes", "no", "true", "false", "TRUE", "Yes", "true()", "false()", "1", "0", "maybe", "${a} = 1", ""]

SURVEY_COLS = [
    "label", "label::en", "label::fr", "label::English (en)", "hint", "hint::en", "guidance_hint", "relevant",
    "constraint", "constraint_message", "constraint_message::en", "required", "required_message", "calculation",
    "default", "appearance", "parameters", "choice_filter", "repeat_count", "read_only", "readonly", "trigger",
    "save_to", "image", "media::image", "media::audio::en", "audio", "video", "big-image", "media::big-image::en",
    "bind::relevant", "bind::foo", "bind::jr:preload", "bind::odk:length", "instance::x", "instance::jr:foo",
    "body::accuracyThreshold", "body::kb:flag", "control::appearance", "control::jr:count", "intent", "note",
    "notes", "disabled", "query", "autoplay", "rows", "style", "list_name", "sms_field", "hxl", "body::intent",
    "label::", "::en", "bind:relevant", "bind: relevant", "Label", "LABEL", "Relevant", "constraint message",
    "required message", "media::video::fr", "label:en", "hint:en", "caption", "value", "jr:count", "flat", "children",
    "choices", "itemset", "title", "type ", "name ", "compact_tag", "entities::x", "text", "bind::type",
    "bind::calculate", "bind::readonly", "bind::required", "bind::jr:constraintMsg::en", "bind::jr:noAppErrorString",
    "xpath", "__row", "extra", "list name", "instance::odk:x", "label::en::x",
]
KNOWN_CRASH_COLS = [
    # F14 family (a column whose :: shape contradicts its slot)
    "trigger::x", "parameters::x", "type::x", "name::x", "bind", "control", "media", "instance", "x:jr", "body",
    "default::x", "appearance::x", "choice_filter::x", "relevant::x", "calculation::x", "repeat_count::x",
    "hint:jr", "x:jr:y", "choices::x", "itemset::x", "children::x", "constraint::x", "required::x", "read_only::x",
    "save_to::x", "list_name::x", "intent::x", "query::x", "style::x", "rows::x", "sms_field::x", "flat::x",
]
CHOICE_COLS = ["label", "label::en", "label::fr", "image", "media::image", "media::audio::fr", "geometry", "extra",
               "a b", "1abc", "filter", "value", "sortby", "order", "hint", "audio", "name ", "label::", "x::y",
               "bind::x", "media", "media::x", "list name", "choices", "type", "children"]
SETTINGS_KEYS = [
    "form_title", "form_id", "version", "default_language", "public_key", "submission_url", "instance_name",
    "style", "name", "omit_instanceID", "allow_choice_duplicates", "clean_text_values", "auto_send", "auto_delete",
    "namespaces", "instance_xmlns", "sms_keyword", "sms_separator", "prefix", "delimiter", "sms_allow_media",
    "sms_date_format", "sms_datetime_format", "sms_response", "id_string", "title", "flat", "instance_id",
    "attribute::x", "compact_tag", "compact_prefix", "compact_delimiter", "set form id", "set form title",
    "client_editable",
]
SETTINGS_CRASH_KEYS = ["children", "type", "choices", "attribute", "name::x", "entity_features", "_translations",
                       "_xpath", "setvalues_by_triggering_ref", "bind", "control", "label", "hint", "media",
                       "parameters", "trigger", "default", "itemset", "list_name", "parent", "extra_data",
                       "title::x", "id_string::x", "version::x", "style::x", "instance"]
SETTINGS_VALS = ["x", "yes", "no", "true", "1", "a b", "${a}", "concat(${a}, 'x')", "en", "fr", "default",
                 'xmlns:x="http://x"', 'esri="http://esri.com/xforms" x="y"', "http://x", "pages", "theme-grid",
                 "é", "<", "data", "a", "1a", "uid", "${nosuch}", ""]
ENTITY_COLS = ["dataset", "list_name", "label", "entity_id", "create_if", "update_if", "repeat", "foo", "dataset::x",
               "label::en"]
ENTITY_VALS = ["e", "trees", "__x", "a.b", "a b", "${a}", "concat(${a}, 'x')", "${nosuch}", "true()", "", "1",
               "${r}", "${q1}"]


def pick(rng, seq):
    return seq[rng.randrange(len(seq))]


def cell_for(rng: random.Random, col: str) -> str:
    base = col.split("::")[0].strip().lower()
    r = rng.random()
    if r < 0.04:
        return pick(rng, REFS)
    if r < 0.07:
        return pick(rng, TEXTS)
    if base in ("relevant", "constraint", "calculation", "choice_filter", "repeat_count", "bind", "control::jr:count"):
        return pick(rng, EXPRS)
    if base in ("required", "read_only", "readonly", "disabled", "autoplay"):
        return pick(rng, YESNO)
    if base == "default":
        return pick(rng, EXPRS + TEXTS + ["2024-01-01", "jr://images/x.png", "x.png"])
    if base in ("appearance", "control"):
        return pick(rng, APPEARANCES)
    if base == "parameters":
        return pick(rng, PARAMS)
    if base == "trigger":
        return pick(rng, REFS + ["${a}, ${b}", "x ${a}", "a"])
    if base == "save_to":
        return pick(rng, ["p", "name", "label", "__x", "a b", "1a", "${a}", "p.q", "P"])
    if base in ("image", "audio", "video", "big-image", "media"):
        return pick(rng, ["x.png", "a.mp3", "${a}.png", "jr://images/x.png", ""])
    return pick(rng, TEXTS)


def fuzz_type(rng: random.Random) -> str:
    r = rng.random()
    if r < 0.45:
        return pick(rng, TYPES_PLAIN)
    if r < 0.70:
        return pick(rng, SELECT_CMDS) + " " + pick(rng, LISTS) + pick(rng, OR_OTHER)
    if r < 0.78:
        return pick(rng, TYPES_ODD)
    if r < 0.90:
        return pick(rng, ["begin group", "begin repeat", "begin_group", "begin_repeat", "begin group", "begin repeat"])
    return pick(rng, ["end group", "end repeat", "end_group", "end_repeat"])


def fuzz_form(rng: random.Random, crashy: bool = False) -> dict:
    """One fuzzed workbook.  `crashy` additionally draws from the header / settings vocabulary of the
    known F14 / F22 crash families (kept apart so the rest of the stream is not drowned by them)."""
    n = rng.randint(0, 12)
    ncols = rng.randint(0, 6)
    pool = SURVEY_COLS + (KNOWN_CRASH_COLS if crashy else [])
    cols = [pick(rng, pool) for _ in range(ncols)]
    base_cols = [c for c in ("type", "name", "label") if rng.random() < 0.93]
    survey = []
    open_ = 0
    p_balanced = rng.choice([0.0, 0.7, 0.95])
    for _ in range(n):
        row = {}
        t = fuzz_type(rng)
        if t.startswith("end") and open_ == 0 and rng.random() < p_balanced:
            t = pick(rng, TYPES_PLAIN)
        if "type" in base_cols and rng.random() < 0.95:
            row["type"] = t
        if "name" in base_cols and rng.random() < 0.9 and not (t.startswith("end") and rng.random() < 0.8):
            row["name"] = pick(rng, NAMES_OK) if rng.random() < 0.88 else pick(rng, NAMES_BAD)
        if "label" in base_cols and rng.random() < 0.8 and not t.startswith("end"):
            row["label"] = pick(rng, TEXTS)
        for c in cols:
            if rng.random() < 0.4:
                row[c] = cell_for(rng, c)
        if rng.random() < 0.04:
            row = {}
        if row.get("type", "").startswith("begin"):
            open_ += 1
        elif row.get("type", "").startswith("end"):
            open_ = max(0, open_ - 1)
        survey.append(row)
    if rng.random() < p_balanced:
        for _ in range(open_):
            survey.append({"type": "end group" if rng.random() < 0.5 else "end repeat"})
    form = {"survey": survey, "survey_cols": base_cols + cols}
    # choices
    if rng.random() < 0.8:
        ch = []
        ccols = [pick(rng, CHOICE_COLS) for _ in range(rng.randint(0, 3))]
        lkey = "list_name" if rng.random() < 0.85 else "list name"
        for ln in rng.sample(["l1", "l2", "yn", "L1"], rng.randint(1, 3)):
            for i in range(rng.randint(0, 4)):
                row = {}
                if rng.random() < 0.95:
                    row[lkey] = ln
                if rng.random() < 0.93:
                    row["name"] = pick(rng, ["a", "b", "c", "a b", "other", "1", "x-1", "é", "A", "${a}"])
                if rng.random() < 0.85:
                    row[pick(rng, ["label", "label", "label::en", "label::fr"])] = pick(rng, TEXTS)
                for c in ccols:
                    if rng.random() < 0.5:
                        row[c] = pick(rng, TEXTS + ["x.png", "1 2", "a"])
                if rng.random() < 0.03:
                    row = {}
                ch.append(row)
        form["choices"] = ch
    # settings
    if rng.random() < 0.5:
        st = {}
        keys = SETTINGS_KEYS + (SETTINGS_CRASH_KEYS if crashy else [])
        for _ in range(rng.randint(0, 4)):
            k = pick(rng, keys)
            v = pick(rng, SETTINGS_VALS)
            if k in ("omit_instanceID", "allow_choice_duplicates", "clean_text_values", "auto_send", "auto_delete", "flat"):
                v = pick(rng, YESNO)
            st[k] = v
        form["settings"] = [st] if st or rng.random() < 0.5 else []
    if rng.random() < 0.15:
        ec = []
        for ln in ["l1", "f"]:
            for i in range(rng.randint(0, 3)):
                row = {"list_name": ln, "name": pick(rng, ["a", "b", "c"])}
                if rng.random() < 0.8:
                    row["label"] = "x"
                if rng.random() < 0.5:
                    row[pick(rng, ["state", "county", "a b"])] = "s"
                if rng.random() < 0.2:
                    row.pop(pick(rng, list(row)))
                ec.append(row)
        form["external_choices"] = ec
    if rng.random() < 0.15:
        ents = []
        for _ in range(rng.choice([1, 1, 1, 2, 0])):
            row = {}
            for c in ENTITY_COLS:
                if rng.random() < (0.8 if c in ("dataset", "label") else 0.15):
                    row[c] = pick(rng, ENTITY_VALS)
            ents.append(row)
        form["entities"] = ents
    if rng.random() < 0.04:
        form["osm"] = [{"list_name": "l1", "name": "building", "label": "B"}, {"list_name": "building", "name": "yes", "label": "Y"}]
    if rng.random() < 0.03:
        form.pop("survey")
    return form


def fuzz_valid_plus(rng: random.Random) -> dict:
    """A valid generated form with a few cells / rows replaced by fuzzed ones (reaches the later
    stages — builder, validation, XML generation — far more often than `fuzz_form`)."""
    g = gen.FormGen(rng, langs=rng.choice([[], [], ["en"], ["en", "fr"]]), n=(1, 12), max_depth=3,
                    p_select=0.3, p_logic=0.3, p_settings=0.3, p_repeat_count=0.4,
                    external_in_repeat=rng.random() < 0.1)
    form = g.form()
    survey = form["survey"]
    for _ in range(rng.randint(1, 4)):
        r = rng.random()
        i = rng.randrange(len(survey))
        row = survey[i]
        if r < 0.35:
            c = pick(rng, SURVEY_COLS)
            row[c] = cell_for(rng, c)
        elif r < 0.5 and not row.get("type", "").startswith(("begin", "end")):
            row["type"] = fuzz_type(rng)
        elif r < 0.6:
            row["name"] = pick(rng, NAMES_OK + NAMES_BAD)
        elif r < 0.7:
            survey.insert(i, {"type": fuzz_type(rng), "name": pick(rng, NAMES_OK), "label": pick(rng, TEXTS)})
        elif r < 0.75:
            survey.insert(i, {"type": "begin " + pick(rng, ["group", "repeat"]), "name": pick(rng, NAMES_OK), "label": "G"})
            survey.insert(i + 1, {"type": "end " + pick(rng, ["group", "repeat"])})
        elif r < 0.85 and form.get("choices"):
            ch = form["choices"]
            j = rng.randrange(len(ch))
            rr = rng.random()
            if rr < 0.3:
                ch[j].pop(pick(rng, list(ch[j])), None)
            elif rr < 0.6:
                c = pick(rng, CHOICE_COLS)
                ch[j][c] = pick(rng, TEXTS)
            else:
                ch[j]["name"] = pick(rng, ["a", "b", "a b", "other", "${a}"])
        elif r < 0.93:
            st = form.setdefault("settings", [{}])
            if not st:
                st.append({})
            k = pick(rng, SETTINGS_KEYS)
            st[0][k] = pick(rng, YESNO if k in ("omit_instanceID", "allow_choice_duplicates", "clean_text_values", "flat") else SETTINGS_VALS)
        else:
            row.pop(pick(rng, list(row)), None) if row else None
    return form
