"""
Core of the verification harness: build + audit of the Lean artefacts, the driver client,
known findings, evidence, replay files and the decision procedure shared by every check
(DESIGN.md section 2.2).

Exit codes of a check: 0 = property held on everything explored (known findings printed),
1 = VIOLATION line printed, 2 = infrastructure failure / timeout (never a VIOLATION).
"""

from __future__ import annotations

import argparse
import fcntl
import hashlib
import json
import os
import random
import re
import subprocess
import sys
import time
import traceback
from contextlib import contextmanager
from pathlib import Path

ROOT = Path(__file__).resolve().parent.parent
LEAN = ROOT / "lean"
WORK = ROOT / ".work"
REPO = Path(os.environ.get("PYXFORM_REPO", "/repo"))
EVIDENCE = ROOT / "evidence"
REPLAYS = ROOT / "replays"
DRIVER = LEAN / ".lake" / "build" / "bin" / "driver"
ALLOWED_AXIOMS = {"propext", "Classical.choice", "Quot.sound"}
FORBIDDEN = re.compile(
    r"\b(sorry|admit|native_decide|bv_decide|implemented_by|unsafe)\b|^\s*axiom\s|maxHeartbeats\s+0\b",
    re.M,
)

if str(REPO) not in sys.path:
    sys.path.insert(0, str(REPO))


class Infra(Exception):
    """Infrastructure failure: exit 2, never a violation."""


def log(*a):
    print(*a, file=sys.stderr, flush=True)


@contextmanager
def flock(name: str):
    WORK.mkdir(exist_ok=True)
    with open(WORK / f"{name}.lock", "w") as fh:
        fcntl.flock(fh, fcntl.LOCK_EX)
        try:
            yield
        finally:
            fcntl.flock(fh, fcntl.LOCK_UN)


def sh(cmd, cwd=None, timeout=3600, env=None):
    p = subprocess.run(
        cmd, cwd=cwd, timeout=timeout, env=env, capture_output=True, text=True, check=False
    )
    return p.returncode, p.stdout + p.stderr


# --------------------------------------------------------------------------- build / audit


def strip_lean_comments(src: str) -> str:
    """Remove `--` line comments and (nested) `/- -/` block comments."""
    out, i, depth, n = [], 0, 0, len(src)
    while i < n:
        if src.startswith("/-", i):
            depth += 1
            i += 2
        elif depth and src.startswith("-/", i):
            depth -= 1
            i += 2
        elif depth:
            i += 1
        elif src.startswith("--", i):
            while i < n and src[i] != "\n":
                i += 1
        else:
            out.append(src[i])
            i += 1
    return "".join(out)


def obligations() -> dict:
    """lean/obligations.json plus every fragment lean/obligations.d/*.json (one per property slice)."""
    obl = json.loads((LEAN / "obligations.json").read_text())
    d = LEAN / "obligations.d"
    if d.is_dir():
        for f in sorted(d.glob("*.json")):
            for k, v in json.loads(f.read_text()).items():
                e = obl.setdefault(k, {"modules": [], "theorems": []})
                e["modules"] += [m for m in v.get("modules", []) if m not in e["modules"]]
                e["theorems"] += [t for t in v.get("theorems", []) if t not in e["theorems"]]
    return obl


class BuildStatus:
    def __init__(self):
        self.tables_ok = True
        self.tables_err = ""
        self.proof_ok = True
        self.failed = []  # names of theorems / modules that no longer check
        self.theorems = []
        self.discharged = 0
        self.axioms = {}
        self.log = ""
        self.modules = []
        self.leanchecker = "not run (quick tier)"

    def broken_names(self):
        return self.failed or ([] if self.tables_ok else ["translator:Generated/Tables.lean"])


def regenerate_tables() -> tuple[bool, str]:
    """Run the translator against /repo's working tree (in a fresh interpreter so that the
    current source is imported); write Tables.lean only when its content changed."""
    out = WORK / "Tables.lean.new"
    rc, text = sh(
        ["/venv/bin/python", str(ROOT / "harness" / "translate_tables.py"), str(out)],
        cwd=str(ROOT),
        timeout=300,
    )
    if rc != 0:
        return False, text[-2000:]
    target = LEAN / "Pyxv" / "Generated" / "Tables.lean"
    new = out.read_text()
    if not target.exists() or target.read_text() != new:
        target.write_text(new)
    return True, ""


def build(prop: str | None, tier: str = "quick") -> BuildStatus:
    """Regenerate tables, build the driver (must succeed) and the proof modules of `prop`;
    audit axioms and forbidden tokens."""
    bs = BuildStatus()
    obl = obligations()
    entry = obl.get(prop, {"modules": [], "theorems": []}) if prop else {"modules": [], "theorems": []}
    bs.theorems = list(entry["theorems"])
    bs.modules = list(entry["modules"])
    with flock("build"):
        bs.tables_ok, bs.tables_err = regenerate_tables()
        if not bs.tables_ok:
            # keep the previous Tables.lean so the driver still builds
            log("translator failed:\n" + bs.tables_err)
        rc, out = sh(["lake", "build", "driver"], cwd=str(LEAN), timeout=3000)
        if rc != 0 or not DRIVER.exists():
            raise Infra("driver build failed:\n" + out[-4000:])
        for mod in bs.modules:
            rc, out = sh(["lake", "build", mod], cwd=str(LEAN), timeout=3000)
            bs.log += out
            if rc != 0:
                bs.proof_ok = False
                errs = re.findall(r"error: ([^\n]*)", out)
                bs.failed.append(f"{mod}: " + (errs[0] if errs else "build failed"))
        # forbidden tokens in every source the proof modules are made of
        for f in sorted((LEAN / "Pyxv").rglob("*.lean")):
            src = strip_lean_comments(f.read_text())
            m = FORBIDDEN.search(src)
            if m:
                bs.proof_ok = False
                bs.failed.append(f"{f.relative_to(LEAN)}: forbidden token {m.group(0).strip()!r}")
        if bs.proof_ok and bs.theorems:
            audit = WORK / f"Audit_{prop}.lean"
            audit.write_text(
                "".join(f"import {m}\n" for m in bs.modules)
                + "".join(f"#print axioms {t}\n" for t in bs.theorems)
            )
            rc, out = sh(["lake", "env", "lean", str(audit)], cwd=str(LEAN), timeout=1800)
            bs.log += out
            cur = None
            text = out.replace("\n  ", " ").replace("\n ", " ")
            for line in text.splitlines():
                m = re.match(r"'([^']+)' depends on axioms: \[(.*)\]", line)
                m2 = re.match(r"'([^']+)' does not depend on any axioms", line)
                if m:
                    bs.axioms[m.group(1)] = sorted(a.strip() for a in m.group(2).split(",") if a.strip())
                elif m2:
                    bs.axioms[m2.group(1)] = []
            for t in bs.theorems:
                ax = bs.axioms.get(t)
                if ax is None:
                    bs.proof_ok = False
                    bs.failed.append(f"{t}: not found / does not check")
                elif not set(ax) <= ALLOWED_AXIOMS:
                    bs.proof_ok = False
                    bs.failed.append(f"{t}: depends on axioms {ax}")
                else:
                    bs.discharged += 1
        if tier == "thorough" and bs.proof_ok and bs.modules:
            # independent re-check of the compiled proof modules (and everything they import from this
            # package) by the toolchain's leanchecker: replays every declaration through the kernel
            rc, out = sh(["lake", "env", "leanchecker", *bs.modules], cwd=str(LEAN), timeout=3000)
            bs.log += out
            bs.leanchecker = "ok" if rc == 0 else "failed"
            if rc != 0:
                bs.proof_ok = False
                bs.failed.append("leanchecker: " + (out.strip().splitlines()[-1][:300] if out.strip() else f"exit {rc}"))
    return bs


# --------------------------------------------------------------------------- driver client


class Driver:
    def __init__(self):
        self.p = None
        self.calls = 0

    def start(self):
        self.p = subprocess.Popen(
            [str(DRIVER)], stdin=subprocess.PIPE, stdout=subprocess.PIPE, text=True, bufsize=1
        )

    def call(self, op: str, **kw):
        if self.p is None or self.p.poll() is not None:
            self.start()
        kw["op"] = op
        self.p.stdin.write(json.dumps(kw, ensure_ascii=False) + "\n")
        self.p.stdin.flush()
        line = self.p.stdout.readline()
        self.calls += 1
        if not line:
            raise Infra(f"driver died on op {op}")
        r = json.loads(line)
        if not r.get("ok"):
            raise Infra(f"driver error on op {op}: {r.get('err')}")
        return r["v"]

    def close(self):
        if self.p and self.p.poll() is None:
            try:
                self.p.stdin.close()
                self.p.wait(timeout=5)
            except Exception:
                self.p.kill()


# --------------------------------------------------------------------------- findings


def known_findings() -> list[dict]:
    p = ROOT / "known_findings.json"
    out = []
    if p.exists():
        out = list(json.loads(p.read_text()).get("open", []))
    d = ROOT / "known_findings.d"  # fragments of slices under construction (folded into the file on merge)
    if d.is_dir():
        for f in sorted(d.glob("*.json")):
            out += json.loads(f.read_text()).get("open", [])
    return out


# --------------------------------------------------------------------------- context


def canon_hash(obj) -> str:
    return hashlib.sha1(json.dumps(obj, sort_keys=True, ensure_ascii=False, default=str).encode()).hexdigest()


class Failure:
    """An oracle failure observed on the implementation (a candidate violation)."""

    def __init__(self, kind: str, detail: str, case, signature: str | None = None, extra=None):
        self.kind = kind
        self.detail = detail
        self.case = case
        self.signature = signature or kind
        self.extra = extra or {}


class Ctx:
    def __init__(self, prop: str, tier: str, seed: int):
        self.prop = prop
        self.tier = tier
        self.seed = seed
        self.t0 = time.time()
        self.rng = random.Random(f"{prop}:{seed}")
        self.driver = Driver()
        self.evaluations = 0
        self.seen = set()
        self.nontrivial = set()
        self.samples = []
        self.failures: list[Failure] = []  # unlisted oracle failures
        self.known_seen: dict[str, str] = {}  # finding id -> description
        self.mismatches = []  # model/implementation observation mismatches
        self.dist = {}
        self.notes = {}
        self.search_ran = False
        self.deadline = None
        self._findings = [f for f in known_findings() if f["property"] == prop]
        self.matchers = {}

    # budget helpers
    def quick(self) -> bool:
        return self.tier == "quick"

    def pick(self, quick, thorough):
        return quick if self.tier == "quick" else thorough

    def count(self, key: str, n: int = 1):
        self.dist[key] = self.dist.get(key, 0) + n

    def record(self, case, nontrivial: bool = True, sample_every: int = 0):
        """Count one evaluated case; distinctness by canonical hash."""
        self.evaluations += 1
        h = canon_hash(case)
        if h not in self.seen:
            self.seen.add(h)
            if nontrivial:
                self.nontrivial.add(h)
        if len(self.samples) < 3:
            self.samples.append(case)

    def fail(self, failure: Failure):
        """Classify an oracle failure against the known findings of this property."""
        for f in self._findings:
            m = self.matchers.get(f["id"])
            if m is not None and m(failure):
                self.known_seen[f["id"]] = f["what"]
                self.count("known:" + f["id"])
                return "known"
        if len(self.failures) < 50:
            self.failures.append(failure)
        return "unlisted"

    def mismatch(self, what: str, case, impl, model):
        if len(self.mismatches) < 50:
            self.mismatches.append({"what": what, "case": case, "impl": impl, "model": model})


def write_replay(ctx: Ctx, name: str, payload: dict) -> Path:
    REPLAYS.mkdir(exist_ok=True)
    p = REPLAYS / f"{ctx.prop}-{ctx.tier}-seed{ctx.seed}-{name}.json"
    payload = dict(payload)
    payload.update({"property": ctx.prop, "seed": ctx.seed, "tier": ctx.tier})
    p.write_text(json.dumps(payload, indent=1, ensure_ascii=False, default=str))
    return p


def write_evidence(ctx: Ctx, bs: BuildStatus, rule: str, violations: int, extra: dict | None = None):
    EVIDENCE.mkdir(exist_ok=True)
    cov = {
        "obligations": max(1, len(bs.theorems)),
        "discharged": bs.discharged,
        "checker_cmd": "cd lean && lake build "
        + " ".join(bs.modules)
        + " && lake env lean .work/Audit_%s.lean  (#print axioms of every listed theorem)" % ctx.prop,
        "trusted_base": [
            "Lean 4.33.0 kernel",
            "axioms allowed: propext, Classical.choice, Quot.sound (audited with #print axioms on every run); no native_decide/bv_decide/sorry",
            "harness/translate_tables.py (regenerates Pyxv/Generated/Tables.lean from /repo's working tree)",
            "correspondence harness (generators, driver protocol) — agreement only on the inputs explored",
            "modelled, not verified: the Python implementation, CPython's re/csv/json/minidom/expat",
        ],
        "theorems": bs.theorems,
        "theorem_axioms": bs.axioms,
        "proof_ok": bs.proof_ok,
        "leanchecker": bs.leanchecker,
        "tables_regenerated_ok": bs.tables_ok,
        "no_longer_checking": bs.broken_names(),
        "evaluations": ctx.evaluations,
        "distinct_nontrivial": len(ctx.nontrivial),
        "distinct": len(ctx.seen),
        "rule": rule,
        "samples": ctx.samples[:3] or ["(no generated cases in this run)"],
        "distribution": ctx.dist,
        "correspondence_mismatches": len(ctx.mismatches),
        "known_findings_seen": ctx.known_seen,
        "failing_input_search_ran": ctx.search_ran,
        "driver_calls": ctx.driver.calls,
    }
    cov.update(ctx.notes)
    if extra:
        cov.update(extra)
    ev = {
        "property_id": ctx.prop,
        "tier": ctx.tier,
        "seed": ctx.seed,
        "level": "proof",
        "coverage": cov,
        "assumptions": [
            "the theorems are about the Lean model; the tie to /repo is the regenerated tables plus the correspondence runs of this check",
        ],
        "wall_s": round(time.time() - ctx.t0, 2),
        "violations": violations,
    }
    (EVIDENCE / f"{ctx.prop}.json").write_text(json.dumps(ev, indent=1, ensure_ascii=False, default=str))


# --------------------------------------------------------------------------- decision procedure


def run_check(prop: str, explore, rule: str, matchers: dict | None = None, replay=None, argv=None):
    """
    explore(ctx, budget_factor, bs): generate/enumerate cases; call ctx.record / ctx.fail /
    ctx.mismatch.  Called once with factor 1; called again with a larger factor (the
    failing-input search) when a proof obligation or the correspondence is broken and no
    unlisted oracle failure has been found yet.
    """
    ap = argparse.ArgumentParser()
    ap.add_argument("--tier", default=os.environ.get("VERIF_TIER", "quick"), choices=["quick", "thorough"])
    ap.add_argument("--seed", type=int, default=int(os.environ.get("VERIF_SEED", "0") or 0))
    ap.add_argument("--replay", default=None)
    args = ap.parse_args(argv)
    ctx = Ctx(prop, args.tier, args.seed)
    ctx.matchers = matchers or {}
    bs = BuildStatus()
    try:
        bs = build(prop, args.tier)
        if args.replay:
            if replay is None:
                raise Infra("no replay support for " + prop)
            payload = json.loads(Path(args.replay).read_text())
            ok = replay(ctx, payload, bs)
            print(("REPLAY-OK" if ok else "REPLAY-FAILS") + f" property={prop} replay={args.replay}")
            ctx.driver.close()
            return 0 if ok else 1
        explore(ctx, 1, bs)
        broken = (not bs.proof_ok) or (not bs.tables_ok) or bool(ctx.mismatches)
        if broken and not ctx.failures:
            ctx.search_ran = True
            log(f"[{prop}] proof/correspondence broken -> failing-input search")
            explore(ctx, 8 if ctx.quick() else 4, bs)
        rc = 0
        nviol = 0
        for fid, what in sorted(ctx.known_seen.items()):
            print(f"KNOWN-FINDING: property={prop} {fid} {what}")
        if ctx.failures:
            f = ctx.failures[0]
            path = write_replay(
                ctx,
                "violation",
                {
                    "kind": f.kind,
                    "detail": f.detail,
                    "signature": f.signature,
                    "case": f.case,
                    "extra": f.extra,
                    "other_failures": [
                        {"kind": g.kind, "detail": g.detail, "case": g.case} for g in ctx.failures[1:6]
                    ],
                    "proof_broken": bs.broken_names(),
                    "correspondence_mismatches": ctx.mismatches[:3],
                },
            )
            print(f"VIOLATION property={prop} replay={path}")
            rc, nviol = 1, len(ctx.failures)
        elif broken:
            path = write_replay(
                ctx,
                "unproved",
                {
                    "kind": "no-failing-input-found",
                    "no_longer_checks": bs.broken_names()
                    + [f"correspondence: {m['what']}" for m in ctx.mismatches[:5]],
                    "translator_error": bs.tables_err,
                    "correspondence_mismatches": ctx.mismatches[:5],
                    "build_log_tail": bs.log[-3000:],
                },
            )
            print(f"VIOLATION property={prop} replay={path} no-failing-input-found")
            rc, nviol = 1, 1
        write_evidence(ctx, bs, rule, nviol)
        ctx.driver.close()
        log(f"[{prop}] {ctx.tier} seed={ctx.seed} evals={ctx.evaluations} distinct_nontrivial={len(ctx.nontrivial)} "
            f"proof_ok={bs.proof_ok} mismatches={len(ctx.mismatches)} rc={rc} {time.time()-ctx.t0:.1f}s")
        return rc
    except Infra as e:
        log(f"[{prop}] infrastructure failure: {e}")
        ctx.driver.close()
        return 2
    except Exception:
        log(f"[{prop}] harness crashed:\n{traceback.format_exc()}")
        ctx.driver.close()
        return 2
