"""
Directed generator for the second half of C04: body-control *attributes*.

Small sheets (a few groups / repeats) whose rows combine, per question type, the appearance cell,
custom `body::x` / `rows` / `autoplay` columns, the documented parameter vocabulary of that type (valid
and, with small probability, invalid), and the label / hint / calculation / trigger combinations that
decide whether the row is user-visible.  Every random choice derives from the rng passed in.
"""

from __future__ import annotations

import random

APPEARANCES = {
    "text": ["multiline", "numbers", "url", "ex:com.foo.bar(a=1)", "masked", "w2 multiline", "thousands-sep"],
    "integer": ["thousands-sep", "counter", "bearing", "w1"],
    "decimal": ["bearing", "thousands-sep"],
    "image": ["annotate", "draw", "signature", "new", "new-front", "annotate w3"],
    "photo": ["annotate", "draw", "signature", "new"],
    "audio": ["new", "w1"],
    "video": ["new", "selfie"],
    "file": ["w2"],
    "geopoint": ["maps", "placement-map", "quick"],
    "geotrace": ["maps"],
    "geoshape": ["maps"],
    "range": ["picker", "vertical", "no-ticks", "rating"],
    "barcode": ["front", "hidden-answer"],
    "date": ["no-calendar", "month-year", "year", "ethiopian"],
    "note": ["w4"],
    "acknowledge": ["w1"],
    "select_one": ["minimal", "quick", "columns-pack", "likert", "map", "autocomplete minimal", "label", "list-nolabel"],
    "select_multiple": ["minimal", "columns-2", "no-buttons", "image-map"],
    "rank": ["w3"],
}
GROUP_APPEARANCES = ["field-list", "w3", "field-list w2", "no-collapse", "table-list-not", "compact"]
CUSTOM_COLS = [
    ("body::accuracyThreshold", ["1.5", "7"]), ("body::foo", ["bar", "B a z"]), ("body::rows", ["4"]),
    ("rows", ["6"]), ("autoplay", ["audio", "video"]), ("body::intent", ["org.other.app"]),
    ("body::mediatype", ["text/plain"]), ("body::start", ["3"]), ("body::x-y", ["1"]),
    ("body::unacceptableAccuracyThreshold", ["99"]), ("body::appearance_x", ["q"]),
]
Q_TYPES = [
    "text", "text", "text", "integer", "decimal", "image", "image", "photo", "audio", "video", "file", "geopoint", "geopoint",
    "geotrace", "geoshape", "range", "range", "barcode", "date", "note", "acknowledge", "background-audio", "hidden",
    "calculate", "select_one", "select_multiple", "rank", "phone number", "start", "string", "int", "trigger",
]


# repeat_count cells: constants and expressions get a generated `<repeat>_count` node, a bare reference does not
COUNT_CONST = ["3", "2 + 1", "count-selected('a b')", "int(2.5)"]
COUNT_REFS = ["${cnt0}", "${cnt0}", "${cnt0} + 1", "${cnt0}+1", "${cnt0} * ${cnt0}", "int(${cnt0})", "${cnt0} div 2",
              "if(${cnt0} > 3, 3, ${cnt0})", "1 + ${cnt0}"]
TRUTHY = ["yes", "Yes", "YES", "true", "True", "TRUE", "true()"]
FALSY = ["no", "No", "false", "FALSE", "false()"]


def disabled_noise(rng: random.Random, form: dict) -> dict:
    """Rows marked disabled produce nothing — whatever kind of row carries the mark: questions, selects (even on a
    list that does not exist), audit and other meta-producing rows, begin / end rows (balanced or not: they are not
    seen), repeats with a count expression, rows that would otherwise be rejected (no name, calculate without
    calculation).  A falsy mark (`no`, `false`) on an active row changes nothing.  Also adds, now and then, one
    active audit row (the meta block must then hold exactly one `audit`)."""
    import copy

    form = copy.deepcopy(form)
    rows = form["survey"]
    names = {r.get("name") for r in rows}
    lists = sorted({c.get("list_name") for c in form.get("choices", []) if c.get("list_name")})
    k = [0]
    # one spelling per sheet for the count column (two spellings of one column are a header error)
    count_col = next((c for r in rows for c in ("repeat_count", "count", "jr:count") if c in r), "repeat_count")

    def nm():
        k[0] += 1
        n = f"dz{k[0]}"
        while n in names:
            k[0] += 1
            n = f"dz{k[0]}"
        return n

    def dead():
        kind = rng.choice(["text", "audit", "audit", "select", "select_nolist", "begin", "end", "begin_count", "calc_nocalc",
                           "noname", "badname", "meta", "notype", "pair", "note"])
        d = rng.choice(TRUTHY)
        if kind == "audit":
            r = {"type": "audit"}
            if rng.random() < 0.5:
                r["name"] = rng.choice(["audit", "not_audit"])
            if rng.random() < 0.3:
                r["parameters"] = "track-changes=true"
            return [dict(r, disabled=d)]
        if kind == "select":
            ln = rng.choice(lists) if lists else "nolist"
            return [{"type": f"{rng.choice(['select_one', 'select_multiple', 'rank'])} {ln}" + rng.choice(["", "", " or_other"]),
                     "name": nm(), "label": "x", "disabled": d}]
        if kind == "select_nolist":
            return [{"type": "select_one no_such_list", "name": nm(), "label": "x", "disabled": d}]
        if kind == "begin":
            return [{"type": rng.choice(["begin group", "begin repeat"]), "name": nm(), "label": "x", "disabled": d}]
        if kind == "end":
            return [{"type": rng.choice(["end group", "end repeat"]), "disabled": d}]
        if kind == "begin_count":
            return [{"type": "begin repeat", "name": nm(), "label": "x", count_col: rng.choice(["3", "2 + 1"]), "disabled": d}]
        if kind == "calc_nocalc":
            return [{"type": "calculate", "name": nm(), "disabled": d}]
        if kind == "noname":
            return [{"type": "integer", "label": "x", "disabled": d}]
        if kind == "badname":
            return [{"type": "text", "name": "1 bad name", "label": "x", "disabled": d}]
        if kind == "meta":
            return [{"type": rng.choice(["start", "end", "today", "deviceid", "start-geopoint", "background-audio", "hidden"]),
                     "name": nm(), "disabled": d}]
        if kind == "notype":
            return [{"name": nm(), "label": "x", "disabled": d}]
        if kind == "pair":
            t = rng.choice(["group", "repeat"])
            return [{"type": f"begin {t}", "name": nm(), "label": "x", "disabled": d},
                    {"type": "text", "name": nm(), "label": "inside", "disabled": rng.choice(TRUTHY)},
                    {"type": f"end {t}", "disabled": rng.choice(TRUTHY)}]
        return [{"type": rng.choice(["text", "note", "integer", "image"]), "name": nm(), "label": "x", "disabled": d}]

    out = []
    for row in rows:
        if rng.random() < 0.2:
            out += dead()
        if row and rng.random() < 0.15 and "disabled" not in row:
            row = dict(row, disabled=rng.choice(FALSY))      # a falsy mark: the row stays
        out.append(row)
    if rng.random() < 0.3:
        out += dead()
    if rng.random() < 0.25 and not any(r.get("type") == "audit" and str(r.get("disabled", "no")) in FALSY for r in out):
        out.insert(rng.randint(0, len(out)), {"type": "audit", **({"name": "audit"} if rng.random() < 0.5 else {})})
    form["survey"] = out
    return form


def valid_params(rng: random.Random, t: str) -> dict:
    """A parameter assignment from the documented vocabulary of type `t` (possibly empty)."""
    p = {}
    if t == "text":
        if rng.random() < 0.9:
            p["rows"] = rng.choice(["1", "3", "7", "12", "+2"])
    elif t in ("image", "photo"):
        if rng.random() < 0.6:
            p["max-pixels"] = rng.choice(["640", "1024", "3000"])
        if rng.random() < 0.7:
            p["app"] = rng.choice(["com.jeyluta.timestampcamerafree", "org.example.cam_2", "a.b"])
    elif t in ("audio", "background-audio"):
        if rng.random() < 0.9:
            p["quality"] = rng.choice(["voice-only", "low", "normal"] + (["external"] if t == "audio" else []))
    elif t == "geopoint":
        if rng.random() < 0.6:
            p["capture-accuracy"] = rng.choice(["2", "2.5", "10", ".5"])
        if rng.random() < 0.6:
            p["warning-accuracy"] = rng.choice(["20", "12.5", "100"])
        if rng.random() < 0.4:
            p["allow-mock-accuracy"] = rng.choice(["true", "false"])
    elif t in ("geotrace", "geoshape"):
        if rng.random() < 0.8:
            p["allow-mock-accuracy"] = rng.choice(["true", "false"])
    elif t == "range":
        for k, vs in (("start", ["0", "1", "-5", "0.5"]), ("end", ["5", "10", "100", "7.5"]), ("step", ["1", "2", "0.5", "0.25"])):
            if rng.random() < 0.6:
                p[k] = rng.choice(vs)
    elif t in ("select_one", "select_multiple", "rank"):
        if rng.random() < 0.7:
            p["randomize"] = rng.choice(["true", "true", "false"])
            if rng.random() < 0.5:
                p["seed"] = rng.choice(["1", "42", "3.5"])
    return p


def invalid_params(rng: random.Random, t: str) -> str:
    """A parameters cell that should be rejected (wrong key for the type, wrong value, bad syntax)."""
    return rng.choice([
        "foo=bar" if t in ("text", "image", "photo", "audio", "geopoint", "geotrace", "geoshape", "range", "select_one",
                           "select_multiple", "rank", "background-audio") else "rows",
        "rows", "rows=3;", "=", "rows 3",
        {"text": "rows=abc", "image": "max-pixels=big", "photo": "app=nodots", "audio": "quality=loud",
         "geopoint": "capture-accuracy=near", "geotrace": "allow-mock-accuracy=maybe", "geoshape": "capture-accuracy=3",
         "range": "start=one", "select_one": "seed=3", "select_multiple": "randomize=yes", "rank": "randomize=1",
         "background-audio": "quality=external"}.get(t, "novalue"),
        {"text": "rows=1.5", "image": "app=com..x", "photo": "app=_a.b", "range": "step=1,start=x"}.get(t, "a=1 b"),
    ])


def render_params(rng: random.Random, p: dict) -> str:
    if not p:
        return ""
    items = list(p.items())
    rng.shuffle(items)
    sep = rng.choice([" ", " ", ";", ",", "; ", ", "])
    parts = []
    for k, v in items:
        if rng.random() < 0.15:
            k = k.upper() if rng.random() < 0.5 else k.capitalize()
        if rng.random() < 0.1 and k.lower() not in ("app",):
            v = v.upper()
        parts.append(f"{k}={v}")
    return sep.join(parts)


class AttrGen:
    def __init__(self, rng: random.Random, big: bool = False):
        self.rng = rng
        self.big = big
        self.n = 0
        self.lists = {}
        self.have_src = False
        self.have_cnt = False
        # most sheets are meant to convert; some contain rows that must be rejected
        self.err_mode = rng.random() < 0.15
        # one spelling per sheet for aliased columns (two spellings of one column are a header error)
        self.calc_col = rng.choice(["calculation", "calculation", "calculate"])
        self.count_col = rng.choice(["repeat_count", "count", "jr:count"])
        drop = rng.choice(["rows", "body::rows"])
        self.custom = [c for c in CUSTOM_COLS if c[0] != drop]

    def name(self, p="q"):
        self.n += 1
        return f"{p}{self.n}"

    def question(self, in_repeat: bool) -> dict:
        rng = self.rng
        t = rng.choice(Q_TYPES)
        row = {"name": self.name()}
        base = t
        if t in ("select_one", "select_multiple", "rank"):
            ln = rng.choice(["l1", "l2"])
            self.lists.setdefault(ln, [{"list_name": ln, "name": "a", "label": "A"}, {"list_name": ln, "name": "b", "label": "B"}])
            row["type"] = f"{t} {ln}"
        else:
            row["type"] = t
        invisible_type = t in ("hidden", "calculate", "start", "background-audio")
        # ---- what is shown: label / hint / neither; calculation; trigger
        shown = rng.choices(["label", "hint", "both", "neither", "media"], [5, 2, 2, 1.2, 0.5])[0]
        if invisible_type:
            shown = rng.choice(["neither", "neither", "label", "hint"])
        if shown in ("label", "both"):
            row[rng.choice(["label", "label", "label::en"])] = "L " + row["name"]
        if shown in ("hint", "both"):
            row[rng.choice(["hint", "hint", "hint::en"])] = "H " + row["name"]
        if shown == "media":
            row["image"] = "pic.png"
        r = rng.random()
        if shown == "neither" and not invisible_type and not self.err_mode and t != "phone number":
            r = 0.0  # nothing to show and no calculation would be "has no label or hint"
        if t == "note" and shown == "neither" and not self.err_mode:
            row["label"] = "N " + row["name"]
        if t == "calculate" or (t not in ("start", "background-audio", "note") and r < (0.6 if shown in ("neither", "hint") else 0.2)):
            row[self.calc_col] = rng.choice(["1 + 1", "now()", "concat('a', 'b')"])
        if self.have_src and t not in ("start", "background-audio", "calculate") and rng.random() < (0.3 if shown in ("neither", "hint") else 0.1):
            row["trigger"] = "${src0}"
        # ---- appearance, custom control columns
        if rng.random() < 0.55:
            row["appearance"] = rng.choice(APPEARANCES.get(base, ["w1", "custom-x"]))
        for col, vals in rng.sample(self.custom, rng.choice([0, 0, 1, 1, 2])):
            row[col] = rng.choice(vals)
        # ---- parameters
        r = rng.random()
        if r < 0.6:
            s = render_params(rng, valid_params(rng, "image" if t == "photo" else t))
            if s:
                row["parameters"] = s
        elif r < 0.68 and self.err_mode:
            row["parameters"] = invalid_params(rng, t)
        elif r < 0.74 and (self.err_mode or t in ("integer", "decimal", "video", "file", "barcode", "date", "note", "acknowledge",
                                                   "hidden", "calculate", "phone number", "start", "string", "int", "trigger")):
            row["parameters"] = rng.choice(["foo=bar", "x=1 y=2", "rows=3"])  # free-form: only parsed on types without a block
        if rng.random() < 0.05:
            row["intent"] = "ex:ignored.on.questions"
        return row

    def table_list(self) -> list:
        """A group (sometimes a repeat) with the table-list appearance: selects on one list, now and then another
        row in between, a nested plain group, or (error sheets) a second list / a choice_filter on the first select."""
        rng = self.rng
        kind = rng.choice(["group", "group", "group", "repeat"])
        row = {"type": f"begin {kind}", "name": self.name("t")}
        shown = rng.choice(["label", "hint", "both", "none", "label"])
        if shown in ("label", "both"):
            row[rng.choice(["label", "label::en"])] = "T " + row["name"]
        if shown in ("hint", "both"):
            row["hint"] = "TH " + row["name"]
        row["appearance"] = rng.choice(["table-list", "table-list", "table-list minimal", "w2 table-list", "compact table-list w1"])
        if rng.random() < 0.2:
            row["intent"] = "ex:tl.app"
        ln = rng.choice(["l1", "l2"])
        self.lists.setdefault(ln, [{"list_name": ln, "name": "a", "label": "A"}, {"list_name": ln, "name": "b", "label": "B"}])
        body = []
        for i in range(rng.randint(1, 4)):
            st = rng.choice(["select_one", "select_one", "select_multiple", "rank"])
            q = {"type": f"{st} {ln}", "name": self.name(), "label": "L"}
            if rng.random() < 0.3:
                q["appearance"] = rng.choice(["minimal", "label", "list-nolabel", "w1"])
            if rng.random() < 0.2:
                q["hint"] = "H"
            if rng.random() < 0.12 and st != "rank":
                q["type"] += rng.choice([" or_other", " or other"])
            if rng.random() < 0.1:
                del q["label"]
                q[self.calc_col] = "1 + 1"
            if self.err_mode and rng.random() < 0.15:
                other = "l2" if ln == "l1" else "l1"
                self.lists.setdefault(other, [{"list_name": other, "name": "a", "label": "A"}])
                q["type"] = f"{st} {other}"
            if self.err_mode and rng.random() < 0.1:
                q["choice_filter"] = "true()"
            body.append(q)
            if rng.random() < 0.15:
                body.append({"type": rng.choice(["note", "text", "integer"]), "name": self.name(), "label": "between"})
            if rng.random() < 0.08:
                body += [{"type": "begin group", "name": self.name("g"), "label": "inner"},
                         {"type": f"select_one {ln}", "name": self.name(), "label": "in"},
                         {"type": "end group"},
                         {"type": f"select_one {ln}", "name": self.name(), "label": "after inner"}]
        return [row, *body, {"type": f"end {kind}"}]

    def section(self, depth: int, in_repeat: bool) -> list:
        rng = self.rng
        if rng.random() < 0.12:
            return self.table_list()
        kind = rng.choice(["group", "group", "repeat"])
        row = {"type": f"begin {kind}", "name": self.name("g" if kind == "group" else "r")}
        if rng.random() < 0.6:
            row[rng.choice(["label", "label::en"])] = "S " + row["name"]
        if rng.random() < 0.6:
            row["appearance"] = rng.choice(GROUP_APPEARANCES)
        if rng.random() < 0.3:
            row["intent"] = rng.choice(["org.example.app(a=1)", "ex:do.it", "com.x.y"])
        for col, vals in rng.sample(self.custom, rng.choice([0, 0, 0, 1])):
            row[col] = rng.choice(vals)
        if kind == "repeat" and rng.random() < 0.5:
            row[self.count_col] = rng.choice(COUNT_CONST + (COUNT_REFS if self.have_cnt else []))
        if rng.random() < 0.05:
            row["parameters"] = rng.choice(["foo=bar", "nonsense"] if self.err_mode else ["foo=bar"])
        body = []
        style = rng.random()
        n = rng.randint(1, 4)
        for _ in range(n):
            if depth < (3 if self.big else 2) and rng.random() < 0.25:
                body += self.section(depth + 1, in_repeat or kind == "repeat")
            else:
                q = self.question(in_repeat or kind == "repeat")
                if style < 0.2:
                    # a section whose rows are all not user-visible
                    q = {"type": "calculate", "name": q["name"], self.calc_col: "1 + 1"} if rng.random() < 0.6 else {
                        "type": "text", "name": q["name"], self.calc_col: "2"}
                    if style < 0.1:
                        row.pop("label", None)
                        row.pop("label::en", None)
                body.append(q)
        if self.err_mode and rng.random() < 0.05:
            body = [] if rng.random() < 0.5 else [{"type": "text", "name": self.name(), "label": "off", "disabled": "yes"}]
        return [row, *body, {"type": f"end {kind}"}]

    def form(self) -> dict:
        rng = self.rng
        rows = []
        self.have_cnt = rng.random() < 0.5
        if rng.random() < 0.7:
            self.have_src = True
            rows.append({"type": "text", "name": "src0", "label": "Source"})
        if self.have_cnt:
            rows.append({"type": "integer", "name": "cnt0", "label": "How many"})
        for _ in range(rng.randint(1, 6 if self.big else 4)):
            if rng.random() < 0.35:
                rows += self.section(1, False)
            else:
                rows.append(self.question(False))
        form = {"survey": rows}
        if self.lists:
            form["choices"] = [c for items in self.lists.values() for c in items]
        return form


def attr_form(rng: random.Random, big: bool = False) -> dict:
    return AttrGen(rng, big).form()
