"""
Component-level correspondence for C12: the Lean model functions of Pyxv/Model/Backends.lean against
the Python functions of pyxform/xls2json_backends.py (and CPython's csv module), call for call, on
generated and adversarial texts / typed cell grids.
"""

from __future__ import annotations

import csv
import io
import random

import containers as C

NBSP = "\u00a0"


# --------------------------------------------------------------------------- encodings


def book_json(d: dict):
    out = []
    for k, v in d.items():
        if isinstance(v, list) and all(isinstance(x, str) for x in v) and k == "sheet_names":
            out.append([k, list(v)])
        else:
            out.append([k, [[[kk, vv] for kk, vv in r.items()] for r in v]])
    return out


def py_outcome(fn, *a):
    from pyxform.errors import PyXFormError, PyXFormReadError

    try:
        return {"outcome": "ok", "book": book_json(fn(*a))}
    except PyXFormReadError:
        return {"outcome": "readError"}
    except PyXFormError as e:
        return {"outcome": "dupHeader" if "Duplicate column header" in str(e) else "PyXFormError"}
    except (KeyError, IndexError, TypeError, AttributeError) as e:
        return {"outcome": type(e).__name__}


def cell_json(v):
    if v is None or isinstance(v, str | bool):
        return v
    if isinstance(v, int):
        return {"t": "int", "v": v}
    if isinstance(v, float):
        return {"t": "float", "i": int(v) if v.is_integer() else None, "repr": str(v)}
    raise TypeError(v)


def py_cell_text(v):
    """The three lines of `xlsx_clean_cell` / `xls_clean_cell` around the module-level functions."""
    from pyxform.xls2json_backends import is_empty, xlsx_value_to_str

    if isinstance(v, str):
        v = v.strip()
    if not is_empty(v):
        return xlsx_value_to_str(v)
    return None


def py_cell_text_xls(v):
    from pyxform.xls2json_backends import is_empty, xls_value_to_unicode

    ct, val = C.xls_cell("int" if isinstance(v, int | float) and not isinstance(v, bool) else "bool" if isinstance(v, bool) else "text" if v is not None else "none", v)
    if isinstance(val, str):
        val = val.strip()
    if not is_empty(val):
        return xls_value_to_unicode(val, ct, 0)
    return None


# --------------------------------------------------------------------------- generators

CSV_ATOMS = ["a", "b", ",", ",", '"', '"', '""', "\r\n", "\n", "\r", " ", "x y", "|", "#", "survey", "type", "é", NBSP, "\t", "'"]
MD_ATOMS = ["|", "|", "|", " | ", "\\|", "\\", "#", "-", "--", " ", "  ", "\t", "\n", "\n", "a", "B", "survey", "choices",
            "type", "name", "label", "x y", NBSP, "\r", "é", "Survey", "notes", "| |", "||", "settings"]
HDR_ATOMS = [None, None, "", " ", "  ", "a", "b", " a", "a ", "a  b", "a b", NBSP + "c", "type", "name", "label::en", "\t", "d\te"]
CELL_VALUES = [None, None, "", " ", "x", "Red" + NBSP + NBSP + "apple", "a " + NBSP + "b  c", NBSP + " x  y" + NBSP + " ", " x ", NBSP + "x" + NBSP, "A" + NBSP + "B", "1", "TRUE", True, False, 0, 1, -7, 42, 10**12,
               0.0, 1.0, -3.0, 1.5, 0.1, -2.75, 1e16, 1e22, 123456789.125, 3.14159, 1e-7, 3.141592653589793, 1 / 3, 0.1 + 0.2, -33.86785123456789, 2 ** 0.5, "\n", "a\nb", "  a  b  ", "\t"]


def rand_text(rng: random.Random, atoms, n_max: int) -> str:
    return "".join(rng.choice(atoms) for _ in range(rng.randint(0, n_max)))


def rand_md(rng: random.Random) -> str:
    mode = rng.random()
    if mode < 0.4:
        return rand_text(rng, MD_ATOMS, 40)
    # structured: sheets and rows, then noise
    lines = []
    for _ in range(rng.randint(0, 3)):
        name = rng.choice(["survey", "choices", "settings", "Survey", "notes", "x", "external_choices", " ", ""])
        lines.append(rng.choice(["| ", "|", " | ", ""]) + name + rng.choice([" |", "|", " | ", " | # c", ""]))
        width = rng.randint(0, 4)
        for _r in range(rng.randint(0, 4)):
            w = width + rng.choice([0, 0, 0, 1, -1])
            cells = [rng.choice(["", " ", "a", "b c", "x\\|y", "#", "-", "1", NBSP, "q\\", "type", "name"]) for _ in range(max(0, w))]
            lines.append("|" + rng.choice(["", " ", "  "]) + "|" + "|".join(" " + c + " " for c in cells) + rng.choice(["|", "|", "| ", "", "| #x", "|#"]))
        if rng.random() < 0.3:
            lines.append(rng.choice(["| --- | --- |", "|-|-|", "# comment", "  # c", "", "text", "|---|"]))
    return "\n".join(lines) + rng.choice(["", "\n"])


def rand_csv(rng: random.Random) -> str:
    mode = rng.random()
    if mode < 0.4:
        return rand_text(rng, CSV_ATOMS, 30)
    rows = []
    for _ in range(rng.randint(0, 3)):
        rows.append([rng.choice(["survey", "choices", "Survey", "notes", " settings ", "", "x"])] + ([rng.choice(["", "", "y"])] if rng.random() < 0.2 else []))
        width = rng.randint(0, 4)
        for _r in range(rng.randint(0, 4)):
            w = max(0, width + rng.choice([0, 0, 1, -1]))
            rows.append([rng.choice(["", "", " ", "s"])] + [rng.choice(["", " ", "a", "b,c", 'q"r', "l1\nl2", " pad ", "type", "name", "1", NBSP]) for _ in range(w)])
        if rng.random() < 0.2:
            rows.append([])
    text = C.write_csv(rows, quoting=rng.choice([csv.QUOTE_ALL, csv.QUOTE_MINIMAL]), lineterminator=rng.choice(["\r\n", "\n", "\r"]))
    if rng.random() < 0.3 and text:
        i = rng.randrange(len(text))
        text = text[:i] + rng.choice(['"', ",", "\n", "\r", "x"]) + text[i:]
    return text


def rand_grid(rng: random.Random):
    ncol = rng.randint(0, 6)
    hdr = [rng.choice(HDR_ATOMS) for _ in range(ncol)]
    if rng.random() < 0.3:
        k = rng.choice([19, 20, 21, 22])
        pos = rng.randint(0, len(hdr))
        hdr[pos:pos] = [rng.choice([None, "", " "]) for _ in range(k)]
    rows = []
    for _ in range(rng.randint(0, 6)):
        rows.append([rng.choice(CELL_VALUES) for _ in range(rng.randint(0, len(hdr) + 1))])
    if rng.random() < 0.4:
        k = rng.choice([1, 59, 60, 61, 62, 125])
        pos = rng.randint(0, len(rows))
        rows[pos:pos] = [[rng.choice([None, "", " "]) for _ in range(rng.randint(0, 3))] for _ in range(k)]
    return hdr, rows


# --------------------------------------------------------------------------- comparisons


def compare(ctx, what, case, impl, model):
    if impl != model:
        ctx.mismatch(what, case, impl, model)
        return False
    return True


def csv_read_case(ctx, text: str):
    try:
        py = [list(r) for r in csv.reader(io.StringIO(text, newline=""))]
    except csv.Error as e:
        ctx.count("fn:csv_read:csv.Error")
        return
    lean = ctx.driver.call("be.csv_read", text=text)
    ctx.count("fn:csv_read")
    compare(ctx, "Backends.csvRead vs csv.reader", {"text": text}, py, lean)


def csv_write_case(ctx, rows):
    py = C.write_csv(rows)
    lean = ctx.driver.call("be.csv_write", rows=rows)
    ctx.count("fn:csv_write")
    compare(ctx, "Backends.csvWrite vs csv.writer(QUOTE_ALL)", {"rows": rows}, py, lean)
    if "\x00" not in py:
        back = [list(r) for r in csv.reader(io.StringIO(py, newline=""))]
        compare(ctx, "csv.reader(csv.writer(rows)) = rows (implementation round trip)", {"rows": rows}, back, rows)


def text_to_dict_case(ctx, kind: str, text: str):
    from pyxform import xls2json_backends as b

    fn = b.md_to_dict if kind == "md" else b.csv_to_dict
    try:
        text.encode("utf-8")
    except UnicodeEncodeError:
        return
    py = py_outcome(fn, text.encode("utf-8"))
    lean = ctx.driver.call(f"be.{kind}_to_dict", text=text)
    if lean["outcome"] == "unsupported":
        ctx.count(f"fn:{kind}_to_dict:unsupported")
        return
    ctx.count(f"fn:{kind}_to_dict:{py['outcome']}")
    compare(ctx, f"Backends.{kind}ToDict vs {kind}_to_dict", {"text": text}, py, lean)


def md_structure_case(ctx, text: str):
    from pyxform.xls2json_backends import _md_table_to_ss_structure

    ss = _md_table_to_ss_structure(text)
    py = [[(k if k is not False else None), (False if v is False else [list(r) for r in v])] for k, v in ss.items()]
    lean = ctx.driver.call("be.md_structure", text=text)
    ctx.count("fn:md_structure")
    compare(ctx, "Backends.mdStructure vs _md_table_to_ss_structure", {"text": text}, py, lean)


def cell_text_case(ctx, values):
    py = [py_cell_text(v) for v in values]
    lean = ctx.driver.call("be.cell_text", cells=[cell_json(v) for v in values])
    ctx.count("fn:cell_text", len(values))
    compare(ctx, "Backends.cellText vs xlsx_clean_cell", {"values": [repr(v) for v in values]}, py, lean)
    # xls flavour: numbers are floats, booleans 0/1 with ctype 4
    py2 = [py_cell_text_xls(v) for v in values]
    compare(ctx, "Backends.cellText vs xls_clean_cell", {"values": [repr(v) for v in values]}, py2, lean)


class _V:
    __slots__ = ("value",)

    def __init__(self, v):
        self.value = v


def grid_case(ctx, hdr, rows):
    from pyxform.errors import PyXFormError
    from pyxform.xls2json_backends import get_excel_column_headers, get_excel_rows

    case = {"hdr": hdr, "rows": [[repr(v) for v in r] for r in rows]}
    try:
        ph = get_excel_column_headers(iter(hdr))
        py = {"outcome": "ok", "headers": ph}
    except PyXFormError:
        ph = None
        py = {"outcome": "dupHeader"}
    lean = ctx.driver.call("be.headers", row=hdr)
    ctx.count("fn:headers:" + py["outcome"])
    if not compare(ctx, "Backends.getHeaders vs get_excel_column_headers", case, py, lean) or ph is None:
        return
    prow = get_excel_rows(ph, (tuple(_V(v) for v in r[: len(ph)]) for r in rows), lambda c, r, k: py_cell_text(c.value))
    py_rows = [[[k, v] for k, v in d.items()] for d in prow]
    lean_rows = ctx.driver.call("be.rows", headers=ph, rows=[[cell_json(v) for v in r[: len(ph)]] for r in rows])
    ctx.count("fn:rows")
    compare(ctx, "Backends.getRows vs get_excel_rows", case, py_rows, lean_rows)


def sheet_pipe_case(ctx, grids, which: str):
    """One typed grid through pyxform's own xls / xlsx sheet code against `be.sheet`."""
    from pyxform import xls2json_backends as b

    for g in grids:
        grid = g["grid"]
        if any(not (v is None or isinstance(v, str)) for _t, v in (grid[0] if grid else [])):
            continue
        one = [{"name": "survey", "grid": grid}]
        data = C.to_fake_xls(one) if which == "xls" else C.to_xlsx(one)
        fn = b.xls_to_dict if which == "xls" else b.xlsx_to_dict
        py = py_outcome(fn, data)
        cells = [[cell_json(v if which == "xlsx" else C.xls_cell(t, v)[1] if t != "bool" else bool(v)) for t, v in row] for row in grid]
        lean = ctx.driver.call("be.sheet", grid=cells)
        if py["outcome"] == "ok":
            bk = dict((k, v) for k, v in py["book"])
            py = {"outcome": "ok", "rows": bk.get("survey"), "header": [[k for k, _ in d] for d in bk.get("survey_header", [])]}
        ctx.count(f"pipe:{which}_sheet:{py['outcome']}")
        compare(ctx, f"Backends.getHeaders/getRows/cellText vs {which}_to_dict (one sheet)", {"grid": [[repr(v) for _t, v in r] for r in grid]}, py, lean)


def workbook_pipe_case(ctx, grids, which: str, data: bytes):
    """A whole decoded workbook: `xls_to_dict` / `xlsx_to_dict` against `Backends.excelToDict`
    (the decoder's output = the typed grids the file was written from)."""
    from pyxform import xls2json_backends as b

    fn = b.xls_to_dict if which == "xls" else b.xlsx_to_dict
    py = py_outcome(fn, data)
    sheets = [{"name": g["name"],
               "grid": [[cell_json(v if which == "xlsx" else C.xls_cell(t, v)[1] if t != "bool" else bool(v)) for t, v in row] for row in g["grid"]]}
              for g in grids]
    lean = ctx.driver.call("be.excel_to_dict", sheets=sheets)
    if lean["outcome"] == "unsupported":
        ctx.count(f"pipe:{which}_workbook:unsupported")
        return
    ctx.count(f"pipe:{which}_workbook:{py['outcome']}")
    compare(ctx, f"Backends.excelToDict vs {which}_to_dict (whole workbook)",
            {"sheets": [[g["name"], [[repr(v) for _t, v in r] for r in g["grid"]]] for g in grids]}, py, lean)


NAME_ATOMS = [".", ".", "a", "b", "Form", " ", "-", "md", "csv", "xlsx", "XLSX", "tar", "gz", "é", "v2", "_"]


def path_parts_case(ctx, name: str, rng_dir: str | None = None):
    """`Backends.pathStem` / `pathSuffix` vs pathlib (and vs the harness's own `path_stem`)."""
    from pathlib import PurePosixPath

    if not name or name in (".", "..") or "/" in name or "\x00" in name:
        return
    pp = PurePosixPath("d") / name
    if pp.name != name:
        return
    py = {"stem": pp.stem, "suffix": pp.suffix}
    full = rng_dir + "/" + name if rng_dir is not None else name
    py["name"] = name
    lean = ctx.driver.call("be.path_parts", name=full)
    ctx.count("fn:path_parts")
    compare(ctx, "Backends.pathName/pathStem/pathSuffix vs PurePath.name/stem/suffix", {"path": full}, py, lean)
    compare(ctx, "harness path_stem vs PurePath.stem", {"name": name}, pp.stem, C.path_stem(name))


def get_xlsform_case(ctx, kind: str, text: str, channel: str, file_type, stem: str, scratch, suffix=None):
    """Text containers through a channel: DefinitionData vs `be.get_xlsform`."""
    import dataclasses

    from pyxform.errors import PyXFormError
    from pyxform.xls2json_backends import get_xlsform

    name = stem + suffix if suffix is not None else None
    subdirs = C.unusual_dirs(random.Random(len(text)), C.DIR_KINDS[len(text) % len(C.DIR_KINDS)]) if channel in ("path", "pathlike") else None
    arg, cleanup, gives = C.deliver(kind, text, channel, scratch, stem=stem, name=name, subdirs=subdirs)
    path_str = str(arg) if gives else None
    try:
        try:
            dd = get_xlsform(arg, file_type=file_type)
            book = {}
            for f in dataclasses.fields(dd):
                v = getattr(dd, f.name)
                if v is not None and f.name != "fallback_form_name":
                    book[f.name] = v
            py = {"outcome": "ok", "book": sorted(book_json(book)), "stem": dd.fallback_form_name}
        except PyXFormError:
            py = {"outcome": "readError"}
        except Exception as e:  # noqa: BLE001 - any other exception is an outcome to compare, not a harness error
            py = {"outcome": type(e).__name__}
    finally:
        cleanup()
    lean = ctx.driver.call("be.get_xlsform", text=text, channel="path" if gives else channel.split("_")[0],
                           name=(path_str if gives else "x.md"), file_type=file_type)
    if lean["outcome"] == "unsupported":
        ctx.count("fn:get_xlsform:unsupported")
        return
    if lean["outcome"] == "ok":
        lean["book"] = sorted(lean["book"])
    ctx.count(f"fn:get_xlsform:{py['outcome']}")
    compare(ctx, "Backends.getXlsform vs get_xlsform", {"kind": kind, "text": text, "channel": channel, "file_type": file_type}, py, lean)


def explore_fn(ctx, rng: random.Random, n: int, scratch):
    for _ in range(n):
        t = rand_csv(rng)
        csv_read_case(ctx, t)
        text_to_dict_case(ctx, "csv", t)
        m = rand_md(rng)
        md_structure_case(ctx, m)
        text_to_dict_case(ctx, "md", m)
        text_to_dict_case(ctx, "md", t)
        text_to_dict_case(ctx, "csv", m)
        rows = [[rand_text(rng, CSV_ATOMS, 4) for _ in range(rng.randint(0, 4))] for _ in range(rng.randint(0, 4))]
        csv_write_case(ctx, rows)
        cell_text_case(ctx, [rng.choice(CELL_VALUES) for _ in range(8)] + [rng.randint(-10**6, 10**6), rng.randint(-50, 50) / 4, float(rng.randint(-99, 99)), rng.random(), rng.uniform(-1e6, 1e6), 1 / rng.randint(3, 999)])
        grid_case(ctx, *rand_grid(rng))
        if rng.random() < 0.15:
            kind, text = rng.choice([("md", m), ("csv", t)])
            ch = rng.choice(C.channels_for(kind))
            if ch != "str" or "\x00" not in text:
                sfx = rng.choice([None, None, ".MD", ".Csv", ".txt", "", ".tar.md", ".", ".x.csv"]) if ch in ("path", "pathlike") else None
                get_xlsform_case(ctx, kind, text, ch, rng.choice([None, None, ".md", ".csv"]), rng.choice(["st em", ".hid", "a.b", "x"]), scratch, suffix=sfx)
        path_parts_case(ctx, rand_text(rng, NAME_ATOMS, 6),
                        rng.choice([None, "/tmp/x", "rel/v1.2/forms.md", "/" + "/".join(C.unusual_dirs(rng, rng.choice(C.DIR_KINDS[3:])))]))
