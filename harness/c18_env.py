"""
C18 sandbox: a private directory tree with a scripted stand-in for the `java` executable, a private
TMPDIR, an input and an output directory; and the runner that pushes one case
(form x validator outcome x mode x pre-existing output) through the implementation (/repo's working
tree, in-process) and returns what the property observes.

Layout under one base directory (inside <verif>/.work, removed at the end of the run):
  bin/java     the stand-in (POSIX sh).  Behaviour is read from the control directory $C18_CTL:
                 mode = exit  -> write file `stderr` to stderr, exit with the number in `code`
                 mode = kill  -> write `stderr`, then kill itself with signal number `code`
                 mode = sleep -> exec sleep 30 (the harness shortens the watchdog, see below)
               it also records its argv and copies the file named by its last argument to `seen.xml`
               (what the validator would have read) and always prints noise on stdout.
  nobin/       an empty directory (PATH for "java absent")
  ctl/ tmp/ in/ out/

Nothing here is a copy of pyxform: `convert`, `main_cli`, `check_xform`, `run_popen_with_timeout`,
`ErrorCleaner` are the ones imported from PYXFORM_REPO.  Two wrappers are installed around *calls*
(never replacing logic): `odk_validate.run_popen_with_timeout` is wrapped to record the PopenResult
that `check_xform` received (and, for the `sleep` outcome only, to pass a short timeout instead of the
literal 100 s so that the watchdog path runs in the quick tier), and `Survey.to_xml` is wrapped to
count calls (tells early from late conversion errors).
"""

from __future__ import annotations

import json
import logging
import os
import shutil
import stat
import sys
import tempfile
from pathlib import Path

import vcore

JAVA_SH = r"""#!/bin/sh
# few forks on purpose (the matrix starts this script hundreds of times): `read` instead of `cat` for the control words
PATH=/usr/bin:/bin
d="$C18_CTL"
last=""
for a in "$@"; do last="$a"; done
printf '%s\n' "$@" > "$d/argv"
if [ -f "$last" ]; then cp "$last" "$d/seen.xml"; fi
echo "stand-in stdout noise /data/x/y (Foo.java:1)"
if [ -s "$d/stdout" ]; then cat "$d/stdout"; fi
read -r mode < "$d/mode"
read -r code < "$d/code"
case "$mode" in
  exit) if [ -s "$d/stderr" ]; then cat "$d/stderr" >&2; fi; exit "$code";;
  kill) if [ -s "$d/stderr" ]; then cat "$d/stderr" >&2; fi; kill -"$code" $$; sleep 5;;
  sleep) exec sleep 30;;
esac
exit 97
"""

SHORT_TIMEOUT = 0.25  # seconds; replaces the literal 100 for the `sleep` outcome only
BIG_TIMEOUT = 3.0  # seconds; watchdog for the large-output outcomes (the stand-in returns at once: anything slower is a block)
RUN_BOUND = 2.5  # seconds; wall-clock bound of one validator run with the stand-in (oracle: `validator-run-blocked`)
HARD_DEADLINE = 8.0  # seconds; the harness kills a validator child that is still alive then (a run must never hang the check)


class Sandbox:
    def __init__(self):
        vcore.WORK.mkdir(exist_ok=True)
        self.base = Path(tempfile.mkdtemp(prefix="c18-", dir=str(vcore.WORK)))
        for d in ("bin", "nobin", "ctl", "tmp", "in", "out"):
            (self.base / d).mkdir()
        j = self.base / "bin" / "java"
        j.write_text(JAVA_SH)
        j.chmod(j.stat().st_mode | stat.S_IXUSR | stat.S_IXGRP | stat.S_IXOTH)
        self.saved = None
        self.popen_results = []
        self.to_xml_calls = 0
        self.short_timeout = False
        self.big_output = False
        self.children = []
        self.hard_killed = False

    # ------------------------------------------------------------------ environment
    def __enter__(self):
        from pyxform import survey as survey_mod
        from pyxform import xls2xform
        from pyxform.validators import odk_validate

        self.mods = (odk_validate, survey_mod, xls2xform)
        self.saved = {
            "PATH": os.environ.get("PATH"),
            "TMPDIR": os.environ.get("TMPDIR"),
            "C18_CTL": os.environ.get("C18_CTL"),
            "tempdir": tempfile.tempdir,
            "argv": sys.argv,
            "rpwt": odk_validate.run_popen_with_timeout,
            "to_xml": survey_mod.Survey.to_xml,
            "handlers": list(xls2xform.logger.handlers),
            "propagate": xls2xform.logger.propagate,
        }
        os.environ["TMPDIR"] = str(self.base / "tmp")
        os.environ["C18_CTL"] = str(self.base / "ctl")
        tempfile.tempdir = None
        if tempfile.gettempdir() != str(self.base / "tmp"):
            raise vcore.Infra("private TMPDIR not honoured by tempfile")
        real = self.saved["rpwt"]
        box = self

        def spy(command, timeout):
            import threading
            import time as _time

            t0 = _time.time()
            box.children.clear()
            box.hard_killed = False

            def hard_kill():
                for ch in list(box.children):
                    if ch.poll() is None:
                        box.hard_killed = True
                        ch.kill()

            guard = threading.Timer(HARD_DEADLINE, hard_kill)
            guard.daemon = True
            guard.start()
            try:
                r = real(command, SHORT_TIMEOUT if box.short_timeout else BIG_TIMEOUT if box.big_output else timeout)
            finally:
                guard.cancel()
            box.popen_results.append(
                {"rc": r.return_code, "timeout": bool(r.timeout), "stderr": r.stderr,
                 "command": [str(c) for c in command], "asked_timeout": timeout,
                 "wall_s": round(_time.time() - t0, 3), "hard_killed": box.hard_killed}
            )
            return r

        odk_validate.run_popen_with_timeout = spy
        # record the child processes `run_popen_with_timeout` starts (wrapper around the call of Popen in validators.util)
        from pyxform.validators import util as util_mod

        self.util_mod = util_mod
        self.saved["Popen"] = util_mod.Popen
        real_popen = util_mod.Popen

        def recording_popen(*a, **kw):
            ch = real_popen(*a, **kw)
            box.children.append(ch)
            return ch

        util_mod.Popen = recording_popen
        real_to_xml = self.saved["to_xml"]

        def counting_to_xml(self_, *a, **kw):
            box.to_xml_calls += 1
            return real_to_xml(self_, *a, **kw)

        survey_mod.Survey.to_xml = counting_to_xml
        self.capture = _Capture()
        xls2xform.logger.handlers = [self.capture]
        xls2xform.logger.propagate = False
        return self

    def __exit__(self, *exc):
        odk_validate, survey_mod, xls2xform = self.mods
        s = self.saved
        for k in ("PATH", "TMPDIR", "C18_CTL"):
            if s[k] is None:
                os.environ.pop(k, None)
            else:
                os.environ[k] = s[k]
        tempfile.tempdir = s["tempdir"]
        sys.argv = s["argv"]
        odk_validate.run_popen_with_timeout = s["rpwt"]
        self.util_mod.Popen = s["Popen"]
        survey_mod.Survey.to_xml = s["to_xml"]
        xls2xform.logger.handlers = s["handlers"]
        xls2xform.logger.propagate = s["propagate"]
        self.remove_fault()
        shutil.rmtree(self.base, ignore_errors=True)
        return False

    # ------------------------------------------------------------------ one case
    def script(self, outcome: dict):
        """Program the stand-in.  outcome = {"kind": exit|kill|sleep|absent, "code": int, "stderr": bytes-as-latin1 | str}"""
        ctl = self.base / "ctl"
        for f in ("argv", "seen.xml"):
            (ctl / f).unlink(missing_ok=True)
        kind = outcome["kind"]
        os.environ["PATH"] = str(self.base / ("nobin" if kind == "absent" else "bin"))
        (ctl / "mode").write_text(("exit" if kind == "absent" else kind) + "\n")
        (ctl / "code").write_text(str(outcome.get("code", 0)) + "\n")
        data = outcome.get("stderr", "")
        raw = bytes.fromhex(outcome["stderr_hex"]) if "stderr_hex" in outcome else data.encode("utf-8", "surrogatepass")
        (ctl / "stderr").write_bytes(raw)
        n_out = int(outcome.get("stdout_bytes", 0))
        (ctl / "stdout").write_bytes((b"stdout line of the validator\n" * (n_out // 29 + 1))[:n_out])
        self.short_timeout = kind == "sleep"
        self.big_output = bool(outcome.get("big"))

    def install_fault(self, flavour):
        """Crash-point injection at the call `open(path, mode="w")` of print_xform_to_file (pyxform/survey.py): a name
        `open` in the module's globals shadows the builtin for the duration of one run.  Only opens for writing inside
        the private TMPDIR are affected.  Flavours: `open` = the file is created/truncated, then ENOSPC; `write` = half
        of the text reaches the file, then ENOSPC; `vanish` = the temp file disappears and the open fails with ENOENT."""
        import builtins
        import errno

        survey_mod = self.mods[1]
        tmp = str(self.base / "tmp")

        class Half:
            def __init__(self, fh):
                self.fh = fh

            def __enter__(self):
                return self

            def __exit__(self, *a):
                self.fh.close()
                return False

            def write(self, text):
                self.fh.write(text[: len(text) // 2])
                self.fh.flush()
                raise OSError(errno.ENOSPC, os.strerror(errno.ENOSPC))

        def faulty_open(file, mode="r", *a, **kw):
            if "w" in mode and str(file).startswith(tmp):
                if flavour == "open":
                    builtins.open(file, mode, *a, **kw).close()
                    raise OSError(errno.ENOSPC, os.strerror(errno.ENOSPC))
                if flavour == "vanish":
                    os.unlink(file)
                    raise OSError(errno.ENOENT, os.strerror(errno.ENOENT))
                return Half(builtins.open(file, mode, *a, **kw))
            return builtins.open(file, mode, *a, **kw)

        survey_mod.open = faulty_open

    def remove_fault(self):
        survey_mod = self.mods[1]
        if "open" in vars(survey_mod):
            del survey_mod.open

    def clean_dirs(self):
        for d in ("tmp", "in", "out"):
            p = self.base / d
            shutil.rmtree(p, ignore_errors=True)
            p.mkdir()

    def listing(self, d: str) -> dict:
        out = {}
        root = self.base / d
        for p in sorted(root.rglob("*")):
            if p.is_file():
                try:
                    out[str(p.relative_to(root))] = p.read_bytes().decode("utf-8", "surrogateescape")
                except OSError as e:  # pragma: no cover
                    out[str(p.relative_to(root))] = f"<unreadable {e}>"
        return out

    def run(self, form: dict, outcome: dict, mode: dict, pre: bool) -> dict:
        """
        form: {"md": text} or {"dict": workbook dict};  mode: {"kind": "lib", "validate": bool, "pretty": bool}
        or {"kind": "cli", "json": b, "skip": b, "odk": b, "pretty": b, "out": "given"|"omitted"|<file name>}.
        Returns the observation (see props/c18.py).
        """
        from pyxform.xls2xform import convert, main_cli

        self.clean_dirs()
        self.script(outcome)
        self.popen_results.clear()
        self.to_xml_calls = 0
        self.capture.records.clear()
        in_path = self.base / "in" / "form.md"
        if "md" in form:
            in_path.write_text(form["md"], encoding="utf-8")
        out_name = "form.xml"
        out_dir = "out"
        if mode["kind"] == "cli":
            o = mode.get("out", "given")
            if o == "omitted":
                out_dir = "in"
            elif o != "given":
                out_name = o
        out_path = self.base / out_dir / out_name
        if pre and mode["kind"] == "cli":
            out_path.write_text("STALE")
        obs = {"raised": None, "msg": None, "json": None, "ret": None}
        if form.get("fault"):
            self.install_fault(form["fault"])
        try:
            if mode["kind"] == "lib":
                import copy

                src = str(in_path) if "md" in form else copy.deepcopy(form["dict"])
                r = convert(xlsform=src, validate=mode["validate"], pretty_print=mode.get("pretty", False))
                obs["ret"] = {"xform": r.xform, "warnings": list(r.warnings), "itemsets": r.itemsets}
            else:
                argv = ["xls2xform", str(in_path)]
                if mode.get("out", "given") != "omitted":
                    argv.append(str(out_path))
                if mode.get("json"):
                    argv.append("--json")
                if mode.get("skip"):
                    argv.append("--skip_validate")
                if mode.get("odk"):
                    argv.append("--odk_validate")
                if mode.get("pretty"):
                    argv.append("--pretty_print")
                sys.argv = argv
                main_cli()
        except Exception as e:  # noqa: BLE001  (observed, classified by the caller)
            obs["raised"] = _cls(type(e))
            obs["msg"] = str(e)
        except SystemExit as e:
            raise vcore.Infra(f"argparse rejected the harness's own command line: {e}") from e
        finally:
            self.remove_fault()
        logs = []
        for rec in self.capture.records:
            msg = rec.getMessage()
            exc = _cls(rec.exc_info[0]) if rec.exc_info and rec.exc_info[0] else None
            if mode.get("json") and rec.levelname == "INFO" and msg.startswith("{"):
                try:
                    obs["json"] = json.loads(msg)
                    continue
                except ValueError:
                    pass
            logs.append([rec.levelname, msg, exc])
        obs["logs"] = logs
        obs["tmp"] = sorted(self.listing("tmp"))
        files = {}
        for d in ("in", "out"):
            for k, v in self.listing(d).items():
                if not (d == "in" and k == "form.md"):
                    files[f"{d}/{k}"] = v
        obs["files"] = files
        seen = self.base / "ctl" / "seen.xml"
        obs["seen"] = seen.read_bytes().decode("utf-8", "surrogateescape") if seen.exists() else None
        argvf = self.base / "ctl" / "argv"
        obs["java_argv"] = argvf.read_text().splitlines() if argvf.exists() else None
        obs["popen"] = [dict(p) for p in self.popen_results]
        obs["to_xml_calls"] = self.to_xml_calls
        obs["out_rel"] = f"{out_dir}/{out_name}"
        obs["out_dir_abs"] = str(self.base / out_dir)
        obs["tmp_abs"] = str(self.base / "tmp")
        return obs


def _cls(t) -> str:
    """exception class as the handlers of main_cli see it: every OSError subclass is an OSError"""
    return "OSError" if issubclass(t, OSError) else t.__name__


class _Capture(logging.Handler):
    def __init__(self):
        super().__init__()
        self.records = []

    def emit(self, record):
        self.records.append(record)
