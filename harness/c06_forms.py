"""
C06 helpers: probe forms (every text-bearing cell kind filled with a structured adversarial
cell), the locator that finds each cell's place in the XForm, and the two oracles
(recovery modulo the documented whitespace normalisation; document shape non-interference).

A *cell* is generated as a list of parts so that the expected child structure is known by
construction:   ["t", text] | ["r", name] | ["i", pre, name|None, post]
  t  literal user text (never contains "${")
  r  a reference ${name} to an existing question
  i  an instance() path expression  pre + ("${name}" if name) + post   (label/hint only)
"""

from __future__ import annotations

import re

import gen

# ------------------------------------------------------------------ alphabet

ADV_EXTRA = [
    "&quot;", "&apos;", "&unknown;", "&#0;", "&#x1;", "&#", "&;", "&amp;amp;", "&lt;b&gt;",
    "<?pi x?>", "<?xml version=\"1.0\"?>", "<!DOCTYPE x>", "<!ENTITY e 'v'>", "]]", "]>", "<!", "--",
    "<![CDATA[x]]>", "</label>", "</value>", "<output value=\"/data/a\"/>", "<output/>", "/>", "<a b='c'>",
    "''", '""', "'\"", "{{", "}}", "{a}", "{ }", "$ {a}", "$a", "#{a}",
    "‏", "‮", "‫", "עברית", "العربية", "ال", "\U0001F468‍\U0001F469", "\U00010348",
    "\U0001F1E9\U0001F1EA", "\U000E0001", "�", "﷐", "é", " ", " ", " ", "\u0085",
    "\n", "\t", "\n\n", " x=\"1\"", " xmlns:z=\"u\"", "jr:itext('x')", "jr://images/x.png", "and", " or ", " div ",
    "1 < 2 > 0", "a&b", "AT&T", "<<>>", "&&", "\\n", "%s", "{0}", "\\u0041", "`", "~", "^", "@", "!",
]
# XLSForm / XPath function-name fragments: text that merely MENTIONS a function must stay text in a text cell
FUNC_ATOMS = [
    "pulldata('fruits', 'name', 'key', 'x')", "pulldata(", " pulldata('codes', 'label', 'code', ${a}) ", "search('zz')", "search(",
    "indexed-repeat(", "indexed-repeat(x, y, 1)", "jr:itext('x')", "jr:itext(", "jr:choice-name(", "once(", "now()", "today()",
    "concat('a', 'b')", "current()/..", "selected(., 'a')", "count(/data/x)", "position(..)", "randomize(", "if(", "coalesce(",
    "jr://file-csv/x.csv", "jr://images/", "instance('x')", "instance('fruits')/root/item", "last-saved#", "${", "}",
]
# the ones that are lexically harmless in a cell that goes through insert_output_values (no `${`, no `instance(`:
# those are generated as structured parts `r` / `i`)
FUNC_ATOMS_TEXT = [a for a in FUNC_ATOMS if "${" not in a and "instance(" not in a and a != "}"]
ATOMS = gen.ADV_ATOMS + ADV_EXTRA
PLAIN = ["a", "b", "word", "Label", " ", "x", "1", "?", "é"]

# characters that make the output not well-formed (F4): C0 controls except TAB/LF/CR, U+FFFE, U+FFFF
NON_XML = ["\x01", "\x08", "\x0b", "\x0c", "\x1b", "\x1f", "\x00", "￾", "￿"]


def is_xml_char(c: str) -> bool:
    n = ord(c)
    return n in (9, 10, 13) or 0x20 <= n <= 0xD7FF or 0xE000 <= n <= 0xFFFD or 0x10000 <= n <= 0x10FFFF


def adv(rng, maxlen=6, plain=False) -> str:
    """An adversarial string: no '${' (references are separate parts), no smart quotes
    (clean_text_values replaces them by design), not blank."""
    atoms = PLAIN if plain else ATOMS
    s = "".join(rng.choice(FUNC_ATOMS_TEXT) if (not plain and rng.random() < 0.12) else rng.choice(atoms)
                for _ in range(rng.randint(1, maxlen)))
    while "${" in s:
        s = s.replace("${", "$ {")
    if not s.strip():
        s += rng.choice(["t", "<", "&"])
    return s


def many_ref_parts(rng, refs, n, plain=False):
    """a cell with exactly n references: t0 ${r1} t1 … ${rn} tn (short literal chunks, some empty)"""
    parts = []
    for i in range(n):
        if rng.random() < 0.8 or i == 0:
            parts.append(["t", (adv(rng, 2, plain) if rng.random() < 0.5 else rng.choice(["v=", ", ", " ", "(", "<", "&"]))])
        parts.append(["r", rng.choice(refs)])
    parts.append(["t", rng.choice([")", " end", "", " ]]>"])])
    # adjacent text parts never occur; an empty trailing text is dropped
    return [p for p in parts if not (p[0] == "t" and p[1] == "")]


REF_COUNTS = (1, 2, 15, 16, 17, 40)


def cell_text(parts) -> str:
    out = []
    for p in parts:
        if p[0] == "t":
            out.append(p[1])
        elif p[0] == "r":
            out.append("${" + p[1] + "}")
        else:
            out.append(p[1] + ("${" + p[2] + "}" if p[2] else "") + p[3])
    return "".join(out)


def placeholder_parts(parts):
    """The same reference skeleton with every literal text replaced by a benign word."""
    out = []
    for p in parts:
        if p[0] == "t":
            core = p[1].strip()
            if core:
                i = p[1].index(core[0])
                out.append(["t", p[1][:i] + "x" + p[1][i + len(core):]])
            else:
                out.append(["t", p[1]])
        elif p[0] == "r":
            out.append(p)
        else:
            out.append(["i", "instance('l')/root/item[name = ", p[2], "]/label"] if p[2] else ["i", "instance('l')/root/item[name = 1]/label", None, ""])
    return out


INST_PRE = ["instance('l')/root/item[name = ", "instance('l')/root/item[name < ", "instance('l')/root/item[x = \"&\" and y > ",
            "instance('l')/root/item[name='c1' and n != "]
INST_POST = ["]/label", "]/extra", "]/a/b"]


def gen_parts(rng, refs, with_ref: bool, allow_instance: bool, plain=False):
    """Parts of one cell.  with_ref: at least one ${ref}.  Text parts are separated from an
    instance expression by a space (whitespace terminates the path, instance_expression.py docstring)."""
    parts = []
    n = rng.randint(1, 3) if with_ref else 1
    kinds = []
    if with_ref and refs:
        shape = rng.choice(["tr", "rt", "trt", "r", "rr", "trtrt", "rtr"])
        kinds = list(shape)
    else:
        kinds = ["t"]
    if allow_instance and rng.random() < 0.15:
        kinds.insert(rng.randint(0, len(kinds)), "i")
    for i, k in enumerate(kinds):
        if k == "t":
            s = adv(rng, 5, plain)
            # spaces around references are common in real forms; vary
            if rng.random() < 0.6 and i > 0:
                s = " " + s
            if rng.random() < 0.6 and i < len(kinds) - 1:
                s = s + " "
            parts.append(["t", s])
        elif k == "r":
            parts.append(["r", rng.choice(refs)])
        else:
            if parts and parts[-1][0] != "t":
                parts.append(["t", " "])
            elif parts:
                parts[-1][1] = parts[-1][1].rstrip(" ") + " "
                # text directly before `instance(` must not glue to it lexically (a NAME before would form another token)
            inner = rng.choice(refs) if refs and rng.random() < 0.5 else None
            pre = rng.choice(INST_PRE)
            post = rng.choice(INST_POST)
            if inner is None:
                pre = pre + rng.choice(["1", "'a&b'", "\"<x>\"", "3"])
            parts.append(["i", pre, inner, post])
            if i < len(kinds) - 1:
                parts.append(["t", " "])
    del n
    return parts


# ------------------------------------------------------------------ probe forms

TRANSLATABLE = {"label", "hint", "guidance_hint", "constraint_message", "required_message", "no_app_error_string"}
# attribute channels whose value goes through insert_xpaths: a ${ref} is replaced by the xpath inside the value
XPATH_ATTR_CHANNELS = {"no_app_error_string", "bind::foo", "bind::jr:noAppErrorString", "appearance", "body::bar"}
REF_CHANNELS = ["label", "hint", "guidance_hint", "constraint_message", "required_message", "choice_label", "group_label"]
SURVEY_CHANNELS = ["label", "hint", "guidance_hint", "constraint_message", "required_message", "no_app_error_string", "default",
                   "appearance", "bind::foo", "body::bar"]
ALL_CHANNELS = [*SURVEY_CHANNELS, "group_label", "choice_label", "choice_extra", "form_title", "version"]


def gen_probe_form(rng, langs, p_ref=0.35, plain=False, only=None, p_instance=True, only_style=None, media=None):
    """A form whose text-bearing cells are probes.  Returns (form, probes);
    probe = {"id", "chan", "where": {...}, "lang", "parts", "sheet", "row", "col"}."""
    probes = []
    refs = ["a", "b2"]
    survey = [
        {"type": "text", "name": "a", "label" if not langs else f"label::{langs[0]}": "A"},
        {"type": "integer", "name": "b2", "label" if not langs else f"label::{langs[0]}": "B"},
    ]
    in_group = rng.random() < 0.4
    base = "/data"
    want = (lambda ch: only is None or ch in only)

    def add_probe(sheet, row_idx, row, col, chan, where, lang, with_ref, allow_inst=False):
        parts = gen_parts(rng, refs, with_ref, allow_inst and p_instance, plain)
        row[col] = cell_text(parts)
        probes.append({"id": len(probes), "chan": chan, "where": where, "lang": lang, "parts": parts,
                       "sheet": sheet, "row": row_idx, "col": col})

    def lang_cols(sheet, row_idx, row, col, chan, where, refable, allow_inst=False):
        # each cell of a row chooses its own style, independently of the cells it shares an itext id with
        # (label / hint / guidance_hint / media): plain only, per language, or both
        style = "plain" if not langs else rng.choice(["lang", "lang", "lang", "both", "plain", "plain"])
        if only_style is not None and langs:
            style = only_style.get(chan, style)
        use = list(langs) if style != "plain" else []
        if use and len(use) > 1 and rng.random() < 0.25:
            use = [rng.choice(langs)]                       # a language with a missing translation
        if style in ("plain", "both"):
            add_probe(sheet, row_idx, row, col, chan, where, None, refable and rng.random() < p_ref, allow_inst)
        for lg in use:
            add_probe(sheet, row_idx, row, f"{col}::{lg}", chan, where, lg, refable and rng.random() < p_ref, allow_inst)

    if in_group:
        g = {"type": "begin group", "name": "g"}
        survey.append(g)
        if want("group_label"):
            lang_cols("survey", len(survey) - 1, g, "label", "group_label", {"xpath": "/data/g"}, True)
        base = "/data/g"
    nq = rng.randint(1, 3)
    for i in range(nq):
        name = f"q{i}"
        xp = f"{base}/{name}"
        row = {"type": rng.choice(["text", "text", "text", "note", "integer"]), "name": name}
        survey.append(row)
        ri = len(survey) - 1
        where = {"xpath": xp}
        chans = [c for c in SURVEY_CHANNELS if want(c) and rng.random() < (0.55 if only is None else 1.0)]
        if "label" not in chans and only is None:
            row["label" if not langs else f"label::{langs[0]}"] = "L"
        for ch in chans:
            if ch in TRANSLATABLE:
                lang_cols("survey", ri, row, ch, ch, where, True, allow_inst=ch in ("label", "hint"))
            elif ch == "default":
                if row["type"] == "note":
                    continue
                add_probe("survey", ri, row, ch, ch, where, None, False)
                # a default is an expression cell when dynamic: `pulldata(` there declares the csv instance by design
                for part in probes[-1]["parts"]:
                    part[1] = part[1].replace("pulldata(", "pulldata (")
                row[ch] = cell_text(probes[-1]["parts"])
            else:
                add_probe("survey", ri, row, ch, ch, where, None, ch in XPATH_ATTR_CHANNELS and rng.random() < p_ref)
        m = media if media is not None else (rng.random() < 0.15)
        if m and row["type"] in ("text", "note", "integer"):
            # a media cell shares the label's itext id and forces the label into itext: plain or per language
            if langs and (m == "lang" or (m is True and rng.random() < 0.5)):
                row[f"image::{rng.choice(langs) if m is True else langs[0]}"] = "a.png"
            else:
                row["image"] = "a.png"
        if "constraint_message" in chans and rng.random() < 0.7:
            row["constraint"] = ". != ''"
        if "required_message" in chans and rng.random() < 0.7:
            row["required"] = "yes"
    if in_group:
        survey.append({"type": "end group"})
    choices = []
    if want("choice_label") or want("choice_extra"):
        sel = {"type": rng.choice(["select_one l", "select_multiple l"]), "name": "s",
               "label" if not langs else f"label::{langs[0]}": "S"}
        survey.append(sel)
        extra_cols = rng.choice([[], ["extra"], ["extra", "other_col"]]) if want("choice_extra") else []
        n_choices = rng.randint(1, 3)
        # a choice without any label (accepted with a warning): itext ids of a list are positional, so the
        # labels AFTER an unlabelled choice must still be found at their own position (seeded C06-12)
        unlabelled = rng.randrange(n_choices - 1) if n_choices > 1 and want("choice_label") and rng.random() < 0.3 else None
        for ci in range(n_choices):
            c = {"list_name": "l", "name": f"c{ci}"}
            choices.append(c)
            where = {"list": "l", "index": ci, "name": f"c{ci}"}
            if ci == unlabelled:
                continue
            if want("choice_label"):
                lang_cols("choices", ci, c, "label", "choice_label", where, True)
            else:
                c["label"] = "C"
            for ec in extra_cols:
                if rng.random() < 0.8:
                    w = dict(where)
                    w["col"] = ec
                    # F35: a ${ref} typed here is emitted verbatim (by design): generate it as literal text
                    add_probe("choices", ci, c, ec, "choice_extra", w, None, False)
                    if rng.random() < 0.08:
                        probes[-1]["parts"].append(["t", " ${a}"])
                        c[ec] = cell_text(probes[-1]["parts"])
    form = {"survey": survey}
    if choices:
        form["choices"] = choices
    st = {}
    if want("form_title") and rng.random() < 0.7:
        add_probe("settings", 0, st, "form_title", "form_title", {}, None, False)
    if want("version") and rng.random() < 0.7:
        add_probe("settings", 0, st, "version", "version", {}, None, False)
    if st:
        st["form_id"] = "f"
        form["settings"] = [st]
    return form, probes


def with_cells(form, probes, parts_of):
    """A copy of the form with each probe cell rewritten from parts_of(probe)."""
    import copy

    f = copy.deepcopy(form)
    for p in probes:
        f[p["sheet"]][p["row"]][p["col"]] = cell_text(parts_of(p))
    return f


# ------------------------------------------------------------------ reading the XForm (driver tree encoding)


def kids(el, tag=None):
    return [k for k in el["k"] if "t" in k and (tag is None or k["t"] == tag)]


def child(el, tag):
    ks = kids(el, tag)
    return ks[0] if ks else None


def attr(el, name):
    for k, v in el["a"]:
        if k == name:
            return v
    return None


def walk(el):
    yield el
    for k in el["k"]:
        if "t" in k:
            yield from walk(k)


def shape(el):
    """tags + attribute names (document order of children, attribute names sorted), no text"""
    return [el["t"], sorted(k for k, _ in el["a"]), [shape(k) for k in el["k"] if "t" in k]]


def shape_diff(a, b, path=""):
    p = f"{path}/{a[0]}"
    if a[0] != b[0]:
        return f"{path}: element <{a[0]}> vs <{b[0]}>"
    if a[1] != b[1]:
        return f"{p}: attributes {a[1]} vs {b[1]}"
    if len(a[2]) != len(b[2]):
        return f"{p}: children {[x[0] for x in a[2]]} vs {[x[0] for x in b[2]]}"
    for x, y in zip(a[2], b[2]):
        d = shape_diff(x, y, p)
        if d:
            return d
    return None


RE_ITEXT = re.compile(r"^jr:itext\('(.*)'\)$", re.S)


class Doc:
    def __init__(self, tree):
        self.root = tree
        head = child(tree, "h:head")
        self.head = head
        self.body = child(tree, "h:body")
        self.model = child(head, "model") if head else None
        self.itext = {}
        it = child(self.model, "itext") if self.model else None
        if it:
            for tr in kids(it, "translation"):
                d = self.itext.setdefault(attr(tr, "lang"), {})
                for tx in kids(tr, "text"):
                    d.setdefault(attr(tx, "id"), []).extend(kids(tx, "value"))
        self.instances = kids(self.model, "instance") if self.model else []
        self.binds = {attr(b, "nodeset"): b for b in kids(self.model, "bind")} if self.model else {}
        self.controls = {}
        if self.body:
            for el in walk(self.body):
                r = attr(el, "ref") or attr(el, "nodeset")
                if r and el["t"] in ("input", "select", "select1", "group", "repeat", "upload", "trigger", "range", "odk:rank"):
                    self.controls.setdefault(r, el)

    def primary(self):
        for i in self.instances:
            if attr(i, "id") is None:
                ks = kids(i)
                return ks[0] if ks else None
        return None

    def instance_node(self, xpath):
        cur = self.primary()
        segs = xpath.strip("/").split("/")
        if cur is None or cur["t"] != segs[0]:
            return None
        for s in segs[1:]:
            cur = child(cur, s)
            if cur is None:
                return None
        return cur

    def secondary(self, list_name):
        for i in self.instances:
            if attr(i, "id") == list_name:
                r = child(i, "root")
                return kids(r, "item") if r else None
        return None

    def itext_value(self, lang, tid, form=None):
        tr = self.itext.get(lang if lang is not None else "default")
        if tr is None and lang is None and len(self.itext) == 1:
            tr = next(iter(self.itext.values()))
        if tr is None:
            return None
        for v in tr.get(tid, []):
            if attr(v, "form") == form:
                return v
        return None


def content(el):
    """children of a text-bearing element as chunks: ["t", text] | ["o", value] | ["e", description]"""
    out = []
    for k in el["k"]:
        if "x" in k:
            out.append(["t", k["x"]])
        elif k["t"] == "output" and [a for a, _ in k["a"]] == ["value"] and not k["k"]:
            out.append(["o", k["a"][0][1]])
        else:
            out.append(["e", f"<{k['t']} {' '.join(a for a, _ in k['a'])}> with {len(k['k'])} children"])
    return out


def locate(doc: Doc, probe):
    """-> (kind, payload): ("content", chunks) | ("attr", string) | ("missing", why)"""
    ch, w, lang = probe["chan"], probe["where"], probe["lang"]

    def via_ref(el, sub, form=None):
        if el is None:
            return ("missing", f"no control for {w}")
        e = child(el, sub)
        if e is None:
            return ("missing", f"no <{sub}> in control {w}")
        ref = attr(e, "ref")
        m = RE_ITEXT.match(ref) if ref else None
        if m and not e["k"]:
            v = doc.itext_value(lang, m.group(1), form)
            if v is None:
                return ("missing", f"no itext value lang={lang} id={m.group(1)} form={form}")
            return ("content", content(v))
        if form is not None:
            return ("missing", f"<{sub}> has no itext ref for form={form}")
        if lang is not None:
            return ("missing", f"<{sub}> is not an itext ref although the cell is translated")
        return ("content", content(e))

    if ch in ("label", "group_label"):
        return via_ref(doc.controls.get(w["xpath"]), "label")
    if ch == "hint":
        return via_ref(doc.controls.get(w["xpath"]), "hint")
    if ch == "guidance_hint":
        return via_ref(doc.controls.get(w["xpath"]), "hint", "guidance")
    if ch in ("constraint_message", "required_message", "no_app_error_string"):
        b = doc.binds.get(w["xpath"])
        an = {"constraint_message": "jr:constraintMsg", "required_message": "jr:requiredMsg",
              "no_app_error_string": "jr:noAppErrorString"}[ch]
        v = attr(b, an) if b else None
        if v is None:
            return ("missing", f"no {an} on bind {w['xpath']}")
        m = RE_ITEXT.match(v)
        if m and doc.itext_value(lang, m.group(1)) is not None:
            return ("content", content(doc.itext_value(lang, m.group(1))))
        if lang is not None:
            return ("missing", f"{an} is not an itext ref although the cell is translated")
        return ("attr", v)
    if ch == "default":
        n = doc.instance_node(w["xpath"])
        if n is None:
            return ("missing", f"no instance node {w['xpath']}")
        if n["k"]:
            return ("content", content(n))
        for sv in walk(doc.root):
            if sv["t"] == "setvalue" and attr(sv, "ref") == w["xpath"] and attr(sv, "value") is not None:
                return ("attr-dynamic", attr(sv, "value"))
        return ("missing", "default neither in the instance nor in a setvalue")
    if ch == "appearance":
        c = doc.controls.get(w["xpath"])
        v = attr(c, "appearance") if c else None
        return ("attr", v) if v is not None else ("missing", "no appearance attribute")
    if ch.startswith("bind::"):
        b = doc.binds.get(w["xpath"])
        v = attr(b, ch[6:]) if b else None
        return ("attr", v) if v is not None else ("missing", f"no {ch[6:]} on bind")
    if ch.startswith("body::"):
        c = doc.controls.get(w["xpath"])
        v = attr(c, ch[6:]) if c else None
        return ("attr", v) if v is not None else ("missing", f"no {ch[6:]} on control")
    if ch in ("choice_label", "choice_extra"):
        items = doc.secondary(w["list"])
        if items is None or w["index"] >= len(items):
            return ("missing", f"no item {w['index']} in instance {w['list']}")
        it = items[w["index"]]
        nm = child(it, "name")
        if nm is None or content(nm) != [["t", w["name"]]]:
            return ("missing", f"item {w['index']} is not choice {w['name']}")
        if ch == "choice_extra":
            e = child(it, w["col"])
            return ("content", content(e)) if e is not None else ("missing", f"no <{w['col']}> in item")
        e = child(it, "label")
        if e is not None:
            if lang is not None:
                return ("missing", "choice label is inline although the cell is translated")
            return ("content", content(e))
        tid = child(it, "itextId")
        if tid is None:
            return ("missing", "item has neither label nor itextId")
        tc = content(tid)
        if len(tc) != 1 or tc[0][0] != "t":
            return ("missing", "itextId is not plain text")
        v = doc.itext_value(lang, tc[0][1])
        return ("content", content(v)) if v is not None else ("missing", f"no itext value lang={lang} id={tc[0][1]}")
    if ch == "form_title":
        t = child(doc.head, "h:title") if doc.head else None
        return ("content", content(t)) if t is not None else ("missing", "no h:title")
    if ch == "version":
        p = doc.primary()
        v = attr(p, "version") if p else None
        return ("attr", v) if v is not None else ("missing", "no version attribute")
    return ("missing", f"unknown channel {ch}")


# ------------------------------------------------------------------ the documented whitespace normalisation

RE_SPACES = re.compile(r"( )+")


def ws_norm_text(s: str) -> str:
    """What the property exempts for character data: XML line-end normalisation (CR LF / CR -> LF),
    clean_text_values (strip(); runs of U+0020 -> one), the boundary spaces writexml adds around mixed content."""
    s = s.replace("\r\n", "\n").replace("\r", "\n")
    return RE_SPACES.sub(" ", s.strip())


def ws_norm_attr(s: str) -> str:
    """... for attribute values: XML attribute-value normalisation (TAB/LF/CR -> space), then as above."""
    s = s.replace("\r\n", " ").replace("\r", " ").replace("\n", " ").replace("\t", " ")
    return RE_SPACES.sub(" ", s.strip())


def expected_chunks(parts, xpath_of):
    """The child structure the parts prescribe: text | output(value)."""
    out = []
    for p in parts:
        if p[0] == "t":
            if out and out[-1][0] == "t":
                out[-1][1] += p[1]
            else:
                out.append(["t", p[1]])
        elif p[0] == "r":
            out.append(["o", f" {xpath_of[p[1]]} "])
        else:
            out.append(["o", p[1] + (f" {xpath_of[p[2]]} " if p[2] else "") + p[3]])
    return out


def expected_attr(parts, xpath_of):
    """an attribute value after insert_xpaths: every ${name} replaced by ` xpath `"""
    return "".join(p[1] if p[0] == "t" else f" {xpath_of[p[1]]} " for p in parts)


def flat(chunks):
    """chunks as one string with outputs written `\x00value\x00` (NUL never occurs in a cell that converts)"""
    return "".join(c[1] if c[0] == "t" else "\x00" + (c[1] if c[0] == "o" else "?" + c[1]) + "\x00" for c in chunks)


def kinds(chunks):
    return [c[0] if c[0] != "o" else "o:" + ws_norm_attr(c[1]) for c in chunks if not (c[0] == "t" and not c[1].strip())]
