"""Observations of an XForm (instance tree, bind nodesets, body refs …) and canonical cells for the
Lean form model."""

from __future__ import annotations

import xml.etree.ElementTree as ET

NS = {
    "h": "http://www.w3.org/1999/xhtml",
    "x": "http://www.w3.org/2002/xforms",
    "jr": "http://openrosa.org/javarosa",
    "odk": "http://www.opendatakit.org/xforms",
    "orx": "http://openrosa.org/xforms",
    "ev": "http://www.w3.org/2001/xml-events",
    "ent": "http://www.opendatakit.org/xforms/entities",
}
XF = "{http://www.w3.org/2002/xforms}"
JR_TEMPLATE = "{http://openrosa.org/javarosa}template"

# the harness's own copy of the header canonicalisation (independent of /repo on purpose)
CANON = {
    "relevant": "bind::relevant", "relevance": "bind::relevant", "required": "bind::required",
    "constraint": "bind::constraint", "constraint_message": "bind::jr:constraintMsg",
    "required_message": "bind::jr:requiredMsg", "calculation": "bind::calculate",
    "calculate": "bind::calculate", "read_only": "bind::readonly", "readonly": "bind::readonly",
    "repeat_count": "control::jr:count", "appearance": "control::appearance",
    "save_to": "bind::entities:saveto", "image": "media::image", "audio": "media::audio",
    "video": "media::video", "big-image": "media::big-image",
    # control columns (aliases.survey_header): body::x, autoplay, rows, count / jr:count
    "body": "control", "autoplay": "control::autoplay", "rows": "control::rows",
    "count": "control::jr:count", "jr:count": "control::jr:count",
}


def canon_cells(row: dict) -> list:
    out = []
    for k, v in row.items():
        if v in (None, ""):
            continue
        base, sep, rest = k.partition("::")
        ck = CANON.get(base, base)
        out.append([ck + (sep + rest if sep else ""), str(v)])
    return out


def local(tag: str) -> str:
    return tag.split("}", 1)[1] if "}" in tag else tag


def name_tree(el) -> dict:
    return {"n": local(el.tag), "t": JR_TEMPLATE in el.attrib, "k": [name_tree(c) for c in el]}


PREFIX_OF = {v: k for k, v in {
    "jr": "http://openrosa.org/javarosa", "odk": "http://www.opendatakit.org/xforms",
    "orx": "http://openrosa.org/xforms", "entities": "http://www.opendatakit.org/xforms/entities",
}.items()}


def name_tree_attrs(el) -> dict:
    """Instance tree in which every attribute is an extra pseudo-child named `@name` (for namespaced
    attributes `@prefix:local` with the conventional prefix), so that attribute paths such as
    /data/meta/entity/@id resolve by the same child lookup as element paths."""
    kids = []
    for a in el.attrib:
        if a == JR_TEMPLATE:
            continue
        if "}" in a:
            ns, loc = a[1:].split("}", 1)
            kids.append({"n": "@" + PREFIX_OF.get(ns, "ns") + ":" + loc, "t": False, "k": []})
        else:
            kids.append({"n": "@" + a, "t": False, "k": []})
    return {"n": local(el.tag), "t": JR_TEMPLATE in el.attrib, "k": kids + [name_tree_attrs(c) for c in el]}


def nt_eq(a, b) -> bool:
    return a["n"] == b["n"] and bool(a["t"]) == bool(b["t"]) and len(a["k"]) == len(b["k"]) and all(
        nt_eq(x, y) for x, y in zip(a["k"], b["k"])
    )


def nt_str(a, depth=0) -> str:
    s = a["n"] + ("*" if a["t"] else "")
    if a["k"]:
        s += "(" + ",".join(nt_str(k) for k in a["k"]) + ")"
    return s


CONTROL_TAGS = {"input", "select", "select1", "upload", "trigger", "range", "group", "repeat", "rank"}


def observe(xform: str) -> dict:
    """Structure-level observation of an XForm text (namespace-aware ElementTree)."""
    root = ET.fromstring(xform)
    model = root.find("h:head/x:model", NS)
    body = root.find("h:body", NS)
    inst = model.find("x:instance", NS)
    prim = list(inst)[0]
    binds = [b.get("nodeset") for b in model.findall("x:bind", NS)]
    body_refs = []
    setvalue_refs = []
    ctl = []
    for el in body.iter():
        t = local(el.tag)
        if t in CONTROL_TAGS:
            # a control's reference is @ref; @nodeset is a reference only on <repeat> (a user-supplied
            # `nodeset` attribute on another control is an inert extra attribute, outside C02's statement)
            for a in ("ref", "nodeset"):
                if a in el.attrib and (a == "ref" or t == "repeat"):
                    body_refs.append(el.get(a))
                    ctl.append(["odk:rank" if t == "rank" else t, el.get(a)])
        elif t in ("setvalue", "setgeopoint"):
            if "ref" in el.attrib:
                setvalue_refs.append(el.get("ref"))
    for el in model:
        t = local(el.tag)
        if t in ("setvalue", "setgeopoint", "recordaudio") and "ref" in el.attrib:
            setvalue_refs.append(el.get("ref"))
    return {
        "instance": name_tree(prim),
        "instance_attrs": name_tree_attrs(prim),
        "binds": binds,
        "body": body_refs,
        "setvalues": setvalue_refs,
        "ctl": ctl,
    }


def attr_name(a: str) -> str:
    if "}" in a:
        ns, loc = a[1:].split("}", 1)
        return PREFIX_OF.get(ns, "ns") + ":" + loc
    return a


def observe_controls(xform: str) -> list:
    """Body controls in document order as [tag, ref-or-nodeset, {attribute: value}] — every attribute
    except `ref` / `nodeset`; label / hint / item / itemset / setvalue children are not part of it.
    `jr:count` is reduced to `${<last path segment>}` (which node it names; the path form is C03's)."""
    root = ET.fromstring(xform)
    body = root.find("h:body", NS)
    out = []
    for el in body.iter():
        t = local(el.tag)
        if t in CONTROL_TAGS:
            # a control's reference is @ref; @nodeset is a reference only on <repeat> (a user-supplied
            # `nodeset` attribute on another control is an inert extra attribute, outside C02's statement)
            for a in ("ref", "nodeset"):
                if a in el.attrib and (a == "ref" or t == "repeat"):
                    attrs = {attr_name(k): v for k, v in el.attrib.items() if k not in ("ref", "nodeset")}
                    if "jr:count" in attrs:
                        attrs["jr:count"] = "${" + attrs["jr:count"].strip().split("/")[-1] + "}"
                    out.append(["odk:rank" if t == "rank" else t, el.get(a), attrs])
    return out
