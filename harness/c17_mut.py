"""
C17 stream A — the catalogue of breaking mutations (DESIGN appendix B).

Each mutation is `(id, sites(form) -> [site], apply(form, site) -> (form', expect))`.
`expect` is what the property demands of the diagnosis, no more than appendix B's "must cite" column:

  row    : n      the message must contain `[row : n]`            (row-level checks)
  sheet  : name   ... and name that sheet                          (only where the catalogue says so)
  cites  : [s..]  every s occurs in the message (case-insensitively)
  any    : [[..]] at least one alternative list is fully cited
  model  : bool   the Lean form model covers this mutation -> its error (kind, row) must agree

Survey row numbers: header = row 1, first data row = row 2 (dict input keeps blank rows, so
index i of the list is row i + 2).
"""

from __future__ import annotations

import copy

BEGIN = {"begin group": "group", "begin repeat": "repeat"}
END = {"end group": "group", "end repeat": "repeat"}
LABEL_KEYS = ("label", "label::en", "label::fr")


def clone(form):
    return copy.deepcopy(form)


def rtype(row):
    return row.get("type", "")


def is_begin(row):
    return rtype(row) in BEGIN


def is_end(row):
    return rtype(row) in END


def is_question(row):
    return bool(rtype(row)) and not is_begin(row) and not is_end(row)


def has_label(row):
    return any(k == "label" or k.startswith("label::") for k in row)


def struct_expect(rows):
    """Independent reading of the begin/end discipline: the first `end` row that does not close the
    innermost open control of its own kind is cited by row; otherwise the innermost control left
    open is named."""
    stack = []
    for i, row in enumerate(rows):
        t = rtype(row)
        if t in BEGIN:
            stack.append((BEGIN[t], row.get("name", "")))
        elif t in END:
            if not stack or stack[-1][0] != END[t]:
                return {"row": i + 2, "cites": ["end"], "model": True}
            stack.pop()
    if stack:
        return {"cites": [stack[-1][1], stack[-1][0]], "model": True}
    return None


def parents(rows):
    """index -> index of the enclosing begin row (or -1)"""
    out, stack = {}, []
    for i, row in enumerate(rows):
        if is_end(row):
            if stack:
                stack.pop()
            out[i] = stack[-1] if stack else -1
            continue
        out[i] = stack[-1] if stack else -1
        if is_begin(row):
            stack.append(i)
    return out


def in_repeat(rows, i):
    par = parents(rows)
    j = par[i]
    while j != -1:
        if rtype(rows[j]) == "begin repeat":
            return True
        j = par[j]
    return False


def fresh(form, base="zz_new"):
    names = {str(r.get("name", "")).lower() for r in form["survey"]}
    k = 0
    while f"{base}{k}" in names:
        k += 1
    return f"{base}{k}"


def positions(form):
    return list(range(len(form["survey"]) + 1))


def insert_row(form, pos, row):
    f = clone(form)
    f["survey"].insert(pos, row)
    return f


def lists_of(form):
    out = {}
    for j, c in enumerate(form.get("choices") or []):
        out.setdefault(c.get("list_name"), []).append(j)
    return out


# ------------------------------------------------------------------ structure


def s_drop_end(form):
    return [i for i, r in enumerate(form["survey"]) if is_end(r)]


def a_drop_end(form, i):
    f = clone(form)
    del f["survey"][i]
    return f, struct_expect(f["survey"])


def s_stray_end(form):
    return [(p, k) for p in positions(form) for k in ("end group", "end repeat")]


def a_stray_end(form, site):
    p, k = site
    f = insert_row(form, p, {"type": k})
    return f, struct_expect(f["survey"])


def a_swap_end(form, i):
    f = clone(form)
    f["survey"][i]["type"] = "end repeat" if rtype(f["survey"][i]) == "end group" else "end group"
    e = struct_expect(f["survey"])
    assert e and e.get("row") == i + 2
    return f, e


def s_unclosed_begin(form):
    return [(p, k) for p in positions(form) for k in ("begin group", "begin repeat")]


def a_unclosed_begin(form, site):
    p, k = site
    f = insert_row(form, p, {"type": k, "name": fresh(form, "open"), "label": "G"})
    return f, struct_expect(f["survey"])


# ------------------------------------------------------------------ row level: type / name


def s_blank_type(form):
    return [i for i, r in enumerate(form["survey"]) if rtype(r) and ("name" in r or has_label(r))]


def a_blank_type(form, i):
    f = clone(form)
    del f["survey"][i]["type"]
    return f, {"row": i + 2, "cites": ["type"], "model": True}


def s_blank_name(form):
    return [i for i, r in enumerate(form["survey"])
            if "name" in r and (is_begin(r) or (is_question(r) and rtype(r) not in ("note", "audit")))]


def a_blank_name(form, i):
    f = clone(form)
    del f["survey"][i]["name"]
    return f, {"row": i + 2, "cites": ["name"], "model": True}


BAD_NAMES = ["1abc", "a b", "$a", "a/b", "-x", "a:b:c"]


def s_invalid_name(form):
    return [(i, n) for i, r in enumerate(form["survey"]) if "name" in r and (is_begin(r) or is_question(r)) for n in BAD_NAMES]


def a_invalid_name(form, site):
    i, n = site
    f = clone(form)
    f["survey"][i]["name"] = n
    return f, {"row": i + 2, "cites": [n], "model": True}


def s_unknown_type(form):
    return [(i, t) for i, r in enumerate(form["survey"]) if is_question(r) and "name" in r
            for t in ("foo", "select_one", "texts", "select_multiple")]


def a_unknown_type(form, site):
    i, t = site
    f = clone(form)
    f["survey"][i]["type"] = t
    # raised by the builder ("Unknown question type 'foo'."): no row, the type name
    return f, {"cites": [t], "model": True}


def a_calc_no_calculation(form, p):
    f = insert_row(form, p, {"type": "calculate", "name": fresh(form, "calc")})
    return f, {"row": p + 2, "cites": ["calculation"], "model": True}


def s_calc_strip(form):
    return [i for i, r in enumerate(form["survey"]) if rtype(r) == "calculate" and "calculation" in r]


def a_calc_strip(form, i):
    f = clone(form)
    del f["survey"][i]["calculation"]
    f["survey"][i].pop("default", None)
    return f, {"row": i + 2, "cites": ["calculation"], "model": True}


def a_audit_named(form, p):
    f = insert_row(form, p, {"type": "audit", "name": "my_audit"})
    return f, {"row": p + 2, "cites": ["audit"], "model": True}


# ------------------------------------------------------------------ tree level: duplicate names


def sibling_pairs(form):
    rows = form["survey"]
    par = parents(rows)
    named = [i for i, r in enumerate(rows) if "name" in r and (is_begin(r) or is_question(r)) and rtype(r) != "audit"]
    out = []
    for a in named:
        for b in named:
            if a != b and par[a] == par[b]:
                out.append((a, b))
                break  # one partner per row keeps the site count linear
    return out


def s_dup_sibling(form):
    return [(a, b, v) for a, b in sibling_pairs(form) for v in ("same", "case")]


def a_dup_sibling(form, site):
    a, b, v = site
    f = clone(form)
    other = str(f["survey"][b]["name"])
    new = other if v == "same" else other.swapcase()
    if v == "case" and new == other:
        new = other
    f["survey"][a]["name"] = new
    return f, {"cites": [other.lower()], "lower": True, "model": True}


def s_dup_section(form):
    rows = form["survey"]
    par = parents(rows)
    secs = [i for i, r in enumerate(rows) if is_begin(r)]
    return [(a, b) for a in secs for b in secs if a != b and par[a] != par[b]]


def a_dup_section(form, site):
    a, b = site
    f = clone(form)
    f["survey"][a]["name"] = f["survey"][b]["name"]
    return f, {"cites": [str(f["survey"][b]["name"])], "model": True}


def s_section_named_form(form):
    return [i for i, r in enumerate(form["survey"]) if is_begin(r)]


def a_section_named_form(form, i):
    f = clone(form)
    f["survey"][i]["name"] = "data"
    return f, {"cites": ["data"], "model": True}


# ------------------------------------------------------------------ references

REF_COLS = ["relevant", "constraint", "required", "calculation", "label", "hint", "default", "read_only",
            "constraint_message", "required_message", "choice_filter", "repeat_count"]


def ref_sites(form):
    out = []
    for i, r in enumerate(form["survey"]):
        t = rtype(r)
        if is_end(r) or not t or "name" not in r:
            continue
        if is_begin(r):
            cols = ["relevant", "label"] + (["repeat_count"] if t == "begin repeat" else [])
        elif t in ("xml-external", "csv-external", "audit"):
            continue
        else:
            cols = ["relevant", "constraint", "required", "calculation", "read_only"]
            if has_label(r):
                cols += ["label", "hint", "constraint_message", "required_message"]
            if t.split(" ")[0] in ("text", "integer", "decimal", "string", "int"):
                cols.append("default")
            if t.startswith(("select_one ", "select_multiple ")) and "or_other" not in t and " or " not in t:
                cols.append("choice_filter")
        out += [(i, c) for c in cols]
    return out


def put_expr(row, col, expr):
    """write `expr` to the column (or to the first existing translated variant of it)"""
    if col in ("label", "hint"):
        keys = [k for k in row if k == col or k.startswith(col + "::")]
        k = keys[0] if keys else col
        row[k] = "see " + expr + " here"
        return k
    if col in ("constraint_message", "required_message"):
        row[col] = "msg " + expr
        if col == "constraint_message":
            row.setdefault("constraint", ". != ''")
        else:
            row.setdefault("required", "yes")
        return col
    if col == "choice_filter":
        row[col] = "name = " + expr
        return col
    if col == "default":
        row[col] = expr + " + 1"
        return col
    if col in ("required", "read_only"):
        row[col] = expr + " = 'x'"
        return col
    row[col] = expr + " > 1" if col != "repeat_count" else expr
    return col


REF_FORMS = ("plain", "last-saved")


def ref_text(name, how):
    return "${" + name + "}" if how == "plain" else "${last-saved#" + name + "}"


def s_unknown_ref(form):
    return [(i, c, how) for (i, c) in ref_sites(form) for how in REF_FORMS]


def a_unknown_ref(form, site):
    i, c, how = site
    f = clone(form)
    put_expr(f["survey"][i], c, ref_text("nosuch_q", how))
    return f, {"cites": [ref_text("nosuch_q", how)], "model": False}


def s_ambiguous_ref(form):
    # 2, 3, 4, 5 … elements of the same name: every count >= 2 is ambiguous (not only "seen twice")
    return [(i, c, k, how) for (i, c) in ref_sites(form) for k in (2, 3, 4, 5) for how in REF_FORMS]


def a_ambiguous_ref(form, site):
    """k questions `twin` in k different sections (an existing section if there is one, the root, and new
    groups), referenced from `site`"""
    i, c, k, how = site
    f = clone(form)
    put_expr(f["survey"][i], c, ref_text("twin", how))
    rows = f["survey"]
    placed = 0
    b = next((j for j, r in enumerate(rows) if is_begin(r)), None)
    if b is not None:
        rows.insert(b + 1, {"type": "text", "name": "twin", "label": "T"})
        placed += 1
    rows.append({"type": "text", "name": "twin", "label": "T"})
    placed += 1
    j = 0
    while placed < k:
        g = fresh(f, "tw_g")
        kind = "group" if j % 2 == 0 else "repeat"
        rows += [{"type": f"begin {kind}", "name": g, "label": "G"}, {"type": "text", "name": "twin", "label": "T"},
                 {"type": f"end {kind}"}]
        placed += 1
        j += 1
    return f, {"cites": [ref_text("twin", how)], "model": False}


def s_ambiguous_mixed(form):
    return [(p, k, how) for p in positions(form) for k in (2, 3, 4) for how in REF_FORMS]


def a_ambiguous_mixed(form, site):
    """the repeated name is carried by sections and questions alike (k elements named `twin` in total:
    a group named twin at the insertion point plus questions in new groups)"""
    p, k, how = site
    f = clone(form)
    block = [{"type": "begin group", "name": "twin", "label": "G"}, {"type": "text", "name": fresh(f, "tq"), "label": "T"},
             {"type": "end group"}]
    f["survey"][p:p] = block
    for _ in range(k - 1):
        g = fresh(f, "tw_g")
        f["survey"] += [{"type": "begin group", "name": g, "label": "G"}, {"type": "text", "name": "twin", "label": "T"},
                        {"type": "end group"}]
    f["survey"].append({"type": "calculate", "name": fresh(f, "tc"), "calculation": "concat(" + ref_text("twin", how) + ", 'x')"})
    return f, {"cites": [ref_text("twin", how)], "model": False}


MALFORMED = ["${a", "${a b}", "${${a}}", "${}", "${a}}${", "${ a }x${"]


def s_malformed_ref(form):
    return [(i, c, m) for (i, c) in ref_sites(form) for m in MALFORMED[:4]]


def a_malformed_ref(form, site):
    i, c, m = site
    f = clone(form)
    k = put_expr(f["survey"][i], c, m)
    return f, {"row": i + 2, "sheet": "survey", "cites": [f"'{k}'"], "model": False}


PRIME_COLS = ("label", "hint", "relevant", "constraint_message")


def s_malformed_ref_primed(form):
    rows = [i for i, r in enumerate(form["survey"]) if is_question(r) and "name" in r and has_label(r)
            and rtype(r) in ("text", "integer", "decimal", "date", "string", "int", "note")]
    return [(i, c, m, w) for i in rows for c in PRIME_COLS for m in MALFORMED[:3]
            for w in ("same-row-name", "earlier-row-name", "earlier-row-type")]


def _label_key(row, col):
    if col in ("label", "hint"):
        keys = [k for k in row if k == col or k.startswith(col + "::")]
        return keys[0] if keys else col
    return col


def a_malformed_ref_primed(form, site):
    """cross-column priming: the very same malformed text stands first in a column the reference check skips (survey
    `name` / `type`) and then in a checked column — the checked cell is rejected all the same"""
    i, c, m, where = site
    f = clone(form)
    row = f["survey"][i]
    key = _label_key(row, c)
    if c == "constraint_message":
        row.setdefault("constraint", ". != ''")
    shift = 0
    if where == "same-row-name":
        # key order of the row decides the order of the cells: name before the checked cell
        newrow = {}
        for k2, v2 in row.items():
            if k2 == key:
                continue
            newrow[k2] = m if k2 == "name" else v2
        newrow[key] = m
        f["survey"][i] = newrow
    else:
        row[key] = m
        first = {"type": "text", "name": m, "label": "P"} if where == "earlier-row-name" else {"type": m, "name": fresh(form, "prm"), "label": "P"}
        f["survey"].insert(0, first)
        shift = 1
    return f, {"row": i + 2 + shift, "sheet": "survey", "cites": [f"'{key}'"], "model": False}


def s_malformed_ref_choice_primed(form):
    ls = lists_of(form)
    return [(idx[k], m, w) for ln, idx in ls.items() for k in range(len(idx)) for m in MALFORMED[:3]
            for w in ("earlier-choice-name", "same-row-name", "earlier-list-name")]


def a_malformed_ref_choice_primed(form, site):
    """the same on the choices sheet: `name` / `list_name` are skipped by the reference check, labels are not"""
    j, m, where = site
    f = clone(form)
    ch = f["choices"]
    key = next((k for k in ch[j] if k == "label" or k.startswith("label::")), "label")
    shift = 0
    if where == "same-row-name":
        new = {}
        for k2, v2 in ch[j].items():
            if k2 == key:
                continue
            new[k2] = m if k2 == "name" else v2
        new[key] = m
        ch[j] = new
    elif where == "earlier-choice-name":
        ch[j][key] = m
        first = {"list_name": ch[j]["list_name"], "name": m}
        for k2 in [k for k in ch[j] if k == "label" or k.startswith("label::")]:
            first[k2] = "P"
        ch.insert(0, first)
        shift = 1
    else:
        ch[j][key] = m
        first = {"list_name": m, "name": "p1"}
        for k2 in [k for k in ch[j] if k == "label" or k.startswith("label::")]:
            first[k2] = "P"
        ch.insert(0, first)
        shift = 1
    return f, {"row": j + 2 + shift, "sheet": "choices", "cites": [f"'{key}'"], "model": False}


def s_blank_rows_before(form):
    return [(i, k, via) for i in s_blank_type(form) for k in (1, 3) for via in ("dict", "md")]


def a_blank_rows_before(form, site):
    """interior blank rows keep their row numbers in every container format (xls/xlsx always did; md/csv since 26e02dc)"""
    i, k, via = site
    f = clone(form)
    del f["survey"][i]["type"]
    f["survey"][i:i] = [{} for _ in range(k)]
    return f, {"row": i + 2 + k, "cites": ["type"], "model": False, "via": via}


def s_labelled_questions(form):
    return [i for i, r in enumerate(form["survey"]) if is_question(r) and "name" in r and has_label(r)
            and rtype(r) in ("text", "integer", "decimal", "date", "string", "int")]


def a_body_ref_question(form, i):
    f = clone(form)
    f["survey"][i]["body::ref"] = "/data/elsewhere"
    return f, {"cites": [str(f["survey"][i]["name"]), "ref"], "model": False}


def s_body_ref_repeat(form):
    return [(i, a) for i, r in enumerate(form["survey"]) if rtype(r) == "begin repeat" for a in ("ref", "nodeset")]


def a_body_ref_repeat(form, site):
    i, a = site
    f = clone(form)
    f["survey"][i]["body::" + a] = "/data/elsewhere"
    return f, {"cites": [str(f["survey"][i]["name"]), a], "model": False}


def a_action_ref(form, p):
    n = fresh(form, "act")
    f = insert_row(form, p, {"type": "background-audio", "name": n, "action::ref": "/data/elsewhere"})
    return f, {"cites": [n, "ref"], "model": False}


def s_flat_clash(form):
    return [(p, v) for p in positions(form) for v in ("same", "case", "nested")]


def a_flat_clash(form, site):
    """a question inside a group marked `flat` shares the instance level of the group's siblings"""
    p, v = site
    n, g = fresh(form, "fq"), fresh(form, "fg")
    inner = {"type": "text", "name": n.upper() if v == "case" else n, "label": "I"}
    block = [{"type": "text", "name": n, "label": "O"}, {"type": "begin group", "name": g, "label": "G", "flat": "yes"}]
    if v == "nested":
        block += [{"type": "begin group", "name": g + "_in", "label": "G", "flat": "yes"}, inner, {"type": "end group"}]
    else:
        block.append(inner)
    block.append({"type": "end group"})
    f = clone(form)
    f["survey"][p:p] = block
    return f, {"cites": [n], "lower": True, "model": False}


def s_malformed_ref_choice(form):
    return [(j, m) for j, ch in enumerate(form.get("choices") or []) for m in MALFORMED[:4]]


def a_malformed_ref_choice(form, site):
    j, m = site
    f = clone(form)
    ch = f["choices"][j]
    k = next((k for k in ch if k == "label" or k.startswith("label::")), "label")
    ch[k] = "x " + m
    return f, {"row": j + 2, "sheet": "choices", "cites": [f"'{k}'"], "model": False}


# ------------------------------------------------------------------ selects / choices


def a_list_missing(form, site):
    p, cmd = site
    f = insert_row(form, p, {"type": f"{cmd} nolist_x", "name": fresh(form, "sel"), "label": "S"})
    if f.get("choices"):
        return f, {"row": p + 2, "cites": ["nolist_x"], "model": True}
    return f, {"cites": ["choices"], "model": True}


def s_list_missing(form):
    return [(p, c) for p in positions(form) for c in ("select_one", "select_multiple", "rank")]


def s_no_choices_sheet(form):
    return [0] if form.get("choices") and any(rtype(r).startswith(("select_", "rank ")) for r in form["survey"]) else []


def a_no_choices_sheet(form, _):
    f = clone(form)
    del f["choices"]
    return f, {"cites": ["choices sheet"], "model": False}


def s_choice_rows(form):
    return list(range(len(form.get("choices") or [])))


def a_choice_no_name(form, j):
    f = clone(form)
    del f["choices"][j]["name"]
    if all("name" not in c for c in f["choices"]):
        return f, {"sheet": "choices", "cites": ["name"], "model": False}  # the column itself is gone
    return f, {"row": j + 2, "sheet": "choices", "cites": ["name"], "model": False}


DUP_CHOICE_VARIANTS = ("labelled", "dup-unlabelled", "orig-unlabelled", "dup-image-only", "both-unlabelled")


def s_dup_choice(form):
    out = []
    for ln, idx in lists_of(form).items():
        out += [(idx[k], idx[k - 1], v) for k in range(1, len(idx)) for v in DUP_CHOICE_VARIANTS]
        # non-adjacent duplicates (first and last choice of the list)
        if len(idx) > 2:
            out += [(idx[-1], idx[0], v) for v in DUP_CHOICE_VARIANTS]
    return out


def _strip_labels(ch):
    for k in [k for k in ch if k == "label" or k.startswith("label::")]:
        del ch[k]


def a_dup_choice(form, site):
    """choice j gets the name of choice k of the same list; in the variants one (or both) of the two rows has
    no label cell at all (left blank, or a picture-only choice) — the duplicate is refused all the same"""
    j, k, v = site
    f = clone(form)
    f["choices"][j]["name"] = f["choices"][k]["name"]
    if v in ("dup-unlabelled", "both-unlabelled", "dup-image-only"):
        _strip_labels(f["choices"][j])
    if v in ("orig-unlabelled", "both-unlabelled"):
        _strip_labels(f["choices"][k])
    if v == "dup-image-only":
        f["choices"][j]["image"] = "pic.png"
    return f, {"row": j + 2, "sheet": "choices", "cites": ["name"], "model": False}


def s_select_multiple_space(form):
    used = {rtype(r).split(" ")[1] for r in form["survey"] if rtype(r).startswith("select_multiple ") and len(rtype(r).split(" ")) > 1}
    return [j for j, c in enumerate(form.get("choices") or []) if c.get("list_name") in used]


def a_select_multiple_space(form, j):
    f = clone(form)
    f["choices"][j]["name"] = "sp ace"
    return f, {"cites": ["sp ace", f["choices"][j]["list_name"]], "model": False}


PRIMERS = ("select_one", "rank", "select_one-or_other", "select_multiple-filtered")


def s_primed(form):
    """(choice row j, primer kind, where): a row that legitimately uses list L comes first, the offending row later"""
    return [(j, pk, w) for j in range(len(form.get("choices") or [])) for pk in PRIMERS for w in ("adjacent", "far", "in-group")]


def _primer_row(form, ln, pk, name):
    row = {"type": f"select_one {ln}", "name": name, "label": "P"}
    if pk == "rank":
        row["type"] = f"rank {ln}"
    elif pk == "select_one-or_other":
        row["type"] = f"select_one {ln} or_other"
    elif pk == "select_multiple-filtered":
        row["type"] = f"select_multiple {ln}"
        row["choice_filter"] = "name != 'zz'"
    return row


def _place_primed(form, primer, offender, where):
    f = clone(form)
    if where == "adjacent":
        f["survey"] += [primer, offender]
    elif where == "far":
        f["survey"].insert(0, primer)
        f["survey"].append(offender)
    else:
        g = fresh(form, "prg")
        f["survey"].insert(0, primer)
        f["survey"] += [{"type": "begin group", "name": g, "label": "G"}, offender, {"type": "end group"}]
    return f


def a_select_multiple_space_primed(form, site):
    """the list of a select_multiple has a choice name with a space — and an earlier select_one / rank / … on the same
    list (for which such names are fine, or which was checked before the name existed in that row's view) comes first"""
    j, pk, where = site
    ln = form["choices"][j].get("list_name")
    if pk == "select_multiple-filtered":
        return None, None  # a select_multiple primer is itself the offender
    f = _place_primed(form, _primer_row(form, ln, pk, fresh(form, "prim")),
                      {"type": f"select_multiple {ln}", "name": fresh(form, "offm"), "label": "M"}, where)
    f["choices"][j]["name"] = "sp ace"
    if any(rtype(r).startswith(("select_multiple " + str(ln),)) for r in form["survey"]):
        pass  # an existing select_multiple on the list is rejected first: same error, same citation
    return f, {"cites": ["sp ace", ln], "model": False}


def a_or_other_filter_primed(form, site):
    j, pk, where = site
    ln = form["choices"][j].get("list_name")
    f = _place_primed(form, _primer_row(form, ln, pk, fresh(form, "prim")),
                      {"type": f"select_one {ln} or_other", "name": fresh(form, "offo"), "label": "O", "choice_filter": "name != 'x'"}, where)
    n = len(f["survey"]) + 1 if where != "in-group" else len(f["survey"])
    return f, {"row": n, "cites": ["or_other"], "model": False}


def a_select_params_primed(form, site):
    j, pk, where = site
    ln = form["choices"][j].get("list_name")
    f = _place_primed(form, _primer_row(form, ln, pk, fresh(form, "prim")),
                      {"type": f"select_one {ln}", "name": fresh(form, "offp"), "label": "O", "parameters": "randomize=maybe"}, where)
    return f, {"cites": ["randomize"], "model": False}


def a_dup_sibling_primed(form, site):
    """a name legitimately used in one section first, then twice among the siblings of a later section"""
    j, pk, where = site
    if pk != "select_one" or where == "adjacent":
        return None, None
    f = clone(form)
    g1, g2, n = fresh(form, "dsa"), fresh(form, "dsb"), fresh(form, "dsn")
    f["survey"] += [{"type": "begin group", "name": g1, "label": "G"}, {"type": "text", "name": n + "_only", "label": "T"}, {"type": "end group"},
                    {"type": "begin group", "name": g2, "label": "G"}, {"type": "text", "name": n, "label": "T"},
                    {"type": "integer", "name": n.upper() if where == "far" else n, "label": "T"}, {"type": "end group"}]
    return f, {"cites": [n], "lower": True, "model": False}


def s_or_other_filter(form):
    ls = lists_of(form)
    return [i for i, r in enumerate(form["survey"])
            if rtype(r).startswith(("select_one ", "select_multiple ")) and len(rtype(r).split(" ")) == 2
            and rtype(r).split(" ")[1] in ls]


def a_or_other_filter(form, i):
    f = clone(form)
    f["survey"][i]["type"] += " or_other"
    f["survey"][i]["choice_filter"] = "name != 'x'"
    return f, {"row": i + 2, "cites": ["or_other"], "model": True}


def _two_lists(form):
    f = clone(form)
    ch = f.setdefault("choices", [])
    langs = sorted({k for c in ch for k in c if k.startswith("label::")})
    for ln in ("tl_a", "tl_b"):
        row = {"list_name": ln, "name": "o1"}
        for k in langs or ["label"]:
            row[k] = "O"
        ch.append(row)
    return f


def a_table_list_mismatch(form, p):
    f = _two_lists(form)
    g = fresh(form, "tl")
    f["survey"][p:p] = [
        {"type": "begin group", "name": g, "label": "T", "appearance": "table-list"},
        {"type": "select_one tl_a", "name": g + "_1", "label": "A"},
        {"type": "select_one tl_b", "name": g + "_2", "label": "B"},
        {"type": "end group"},
    ]
    return f, {"row": p + 4, "cites": ["tl_a", "tl_b"], "model": False}


def a_table_list_filter(form, p):
    f = _two_lists(form)
    g = fresh(form, "tl")
    f["survey"][p:p] = [
        {"type": "begin group", "name": g, "label": "T", "appearance": "table-list"},
        {"type": "select_one tl_a", "name": g + "_1", "label": "A", "choice_filter": "name != 'x'"},
        {"type": "end group"},
    ]
    return f, {"row": p + 3, "cites": ["table-list"], "model": False}


# ------------------------------------------------------------------ parameters

PARAM_CASES = [
    # (type, parameters, must-cite, row demanded?)  — "row where the code gives one"
    ("text", "foo=1", ["foo"], False),
    ("text", "rows", ["parameter"], False),
    ("text", "rows=abc", ["rows"], True),
    ("select_one LIST", "randomize=maybe", ["randomize"], False),
    ("select_one LIST", "seed=3", ["seed"], False),
    ("select_one LIST", "randomize=true seed=abc", ["seed"], False),
    ("select_multiple LIST", "foo=1", ["foo"], False),
    ("select_one LIST", "value=name", ["value"], False),
    ("select_multiple LIST", "label=title", ["label"], False),
    ("rank LIST", "value=name label=title", ["label", "value"], False),
    ("select_one LIST", "randomize=true value=name", ["value"], False),
    ("select_one_from_file f.csv", "value=1v", ["value"], True),
    ("select_one_from_file f.csv", "label=a*", ["label"], True),
    ("range", "start=a", ["start"], False),
    ("range", "end=1e", ["end"], False),
    # (step=0 / step larger than the span are NOT in the pinned catalogue: accepted by design — an oracle
    #  demanding their rejection would be stricter than the property's "documented catalogue")
    ("range", "foo=1", ["foo"], False),
    ("audio", "quality=bad", ["quality"], False),
    ("background-audio", "quality=external", ["quality"], False),
    ("geopoint", "capture-accuracy=x", ["capture-accuracy"], False),
    ("geopoint", "warning-accuracy=x", ["warning-accuracy"], False),
    ("geopoint", "allow-mock-accuracy=x", ["allow-mock-accuracy"], False),
    ("geotrace", "capture-accuracy=1", ["capture-accuracy"], False),
    ("image", "max-pixels=a", ["max-pixels"], False),
    ("image", "app=1bad", ["app"], True),
    ("image", "foo=1", ["foo"], False),
    ("audit", "track-changes=maybe", ["track-changes"], False),
    ("audit", "location-priority=balanced", ["location-min-interval"], False),
    ("audit", "location-priority=x location-min-interval=1 location-max-age=2", ["location-priority"], False),
    ("audit", "location-priority=balanced location-min-interval=5 location-max-age=2", ["location-max-age"], False),
    ("audit", "foo=1", ["foo"], False),
]


def s_params(form):
    return [(p, k) for p in positions(form) for k in range(len(PARAM_CASES))]


def a_params(form, site):
    p, k = site
    typ, params, cites, with_row = PARAM_CASES[k]
    f = clone(form)
    if "LIST" in typ:
        f = _two_lists(f)
        typ = typ.replace("LIST", "tl_a")
    row = {"type": typ, "parameters": params}
    if typ != "audit":
        row["name"] = fresh(form, "par")
        if typ != "background-audio":
            row["label"] = "P"
    f["survey"].insert(p, row)
    e = {"cites": cites, "model": False}
    if with_row:
        e["row"] = p + 2
    return f, e


# ------------------------------------------------------------------ headers


def s_once(form):
    return [0]


def a_alias_clash_survey(form, _):
    f = clone(form)
    f["survey"][0]["relevant"] = "true()"
    f["survey"][0]["bind::relevant"] = "true()"
    return f, {"sheet": "survey", "cites": ["relevant", "bind::relevant"], "model": False}


def a_alias_clash_survey2(form, _):
    f = clone(form)
    f["survey"][0]["calculation"] = "1"
    f["survey"][0]["calculate"] = "1"
    return f, {"sheet": "survey", "cites": ["calculation", "calculate"], "model": False}


def s_has_choices(form):
    return [0] if form.get("choices") else []


def a_alias_clash_choices(form, _):
    f = clone(form)
    f["choices"][0]["value"] = "v"
    return f, {"sheet": "choices", "cites": ["name", "value"], "model": False}


def a_missing_type_col(form, _):
    f = clone(form)
    for r in f["survey"]:
        r.pop("type", None)
    return f, {"sheet": "survey", "cites": ["type"], "model": False}


def a_missing_choice_name_col(form, _):
    f = clone(form)
    for r in f["choices"]:
        r.pop("name", None)
    return f, {"sheet": "choices", "cites": ["name"], "model": False}


# ------------------------------------------------------------------ question-type specific


def a_bg_geopoint_no_trigger(form, p):
    f = insert_row(form, p, {"type": "background-geopoint", "name": fresh(form, "bg")})
    return f, {"row": p + 2, "cites": ["trigger"], "model": False}


def s_bg_with_target(form):
    if not any(is_question(r) and "name" in r and has_label(r) and rtype(r) == "text" for r in form["survey"]):
        return []
    return positions(form)


def _target(form):
    return next(r["name"] for r in form["survey"] if is_question(r) and "name" in r and has_label(r) and rtype(r) == "text")


def a_bg_geopoint_calculation(form, p):
    f = insert_row(form, p, {"type": "background-geopoint", "name": fresh(form, "bg"),
                             "trigger": "${%s}" % _target(form), "calculation": "1"})
    return f, {"row": p + 2, "cites": ["calculation"], "model": False}


def a_bg_geopoint_bad_trigger(form, p):
    f = insert_row(form, p, {"type": "background-geopoint", "name": fresh(form, "bg"), "trigger": "${nosuch_q}"})
    return f, {"row": p + 2, "cites": ["trigger"], "model": False}


def a_trigger_unknown(form, p):
    f = insert_row(form, p, {"type": "calculate", "name": fresh(form, "trg"), "calculation": "1", "trigger": "${nosuch_q}"})
    return f, {"cites": ["${nosuch_q}"], "model": False}


def a_from_file_no_ext(form, site):
    p, ln = site
    f = insert_row(form, p, {"type": f"select_one_from_file {ln}", "name": fresh(form, "sff"), "label": "S"})
    return f, {"row": p + 2, "cites": [ln], "model": False}


def s_from_file_no_ext(form):
    return [(p, ln) for p in positions(form) for ln in ("cities", "cities.txt", "a.b.csv")]


def a_search_from_file(form, p):
    f = insert_row(form, p, {"type": "select_one_from_file cities.csv", "name": fresh(form, "sff"), "label": "S",
                             "appearance": "search('cities')"})
    return f, {"any": [["row", p + 2], [fresh(form, "sff")]], "cites": ["search"], "model": False}


def a_search_shared_list(form, p):
    f = _two_lists(form)
    n1, n2 = fresh(form, "sa"), fresh(form, "sb")
    f["survey"][p:p] = [
        {"type": "select_one tl_a", "name": n1, "label": "S", "appearance": "search('cities')"},
        {"type": "select_one tl_a", "name": n2, "label": "S"},
    ]
    return f, {"any": [[n1], [n2], ["tl_a"]], "cites": ["search"], "model": False}


def a_instance_clash(form, p):
    n = fresh(form, "inst")
    f = clone(form)
    f["survey"][p:p] = [
        {"type": "xml-external", "name": n},
        {"type": "select_one_from_file %s.csv" % n, "name": n + "_sel", "label": "S"},
    ]
    if in_repeat(f["survey"], p):
        return None, None  # F32: external instance rows inside a repeat crash (known finding, directed case)
    return f, {"cites": [n], "model": False}


def a_dup_external(form, p):
    """two xml-external rows of the same name in different sections"""
    n = fresh(form, "ext")
    f = clone(form)
    f["survey"][p:p] = [{"type": "xml-external", "name": n}]
    f["survey"] += [{"type": "begin group", "name": n + "_g", "label": "G"}, {"type": "xml-external", "name": n},
                    {"type": "text", "name": n + "_t", "label": "T"}, {"type": "end group"}]
    if in_repeat(f["survey"], p):
        return None, None
    return f, {"cites": [n], "model": False}


FILE_SELECTS = ("select_one_from_file", "select_multiple_from_file")
FILE_EXT_PAIRS = ((".csv", ".xml"), (".csv", ".geojson"), (".xml", ".geojson"), (".xml", ".csv"))


def s_file_stem_clash(form):
    return [(p, a, b, e, w) for p in positions(form) for a in (0, 1) for b in (0, 1) for e in range(len(FILE_EXT_PAIRS))
            for w in ("adjacent", "far", "in-group")]


def a_file_stem_clash(form, site):
    """two selects from file whose file names share the stem (= the instance id) but not the extension
    (= the URI): same id, different source — an instance clash like any other"""
    p, a, b, e, where = site
    stem = fresh(form, "places")
    e1, e2 = FILE_EXT_PAIRS[e]
    r1 = {"type": f"{FILE_SELECTS[a]} {stem}{e1}", "name": stem + "_s1", "label": "S1"}
    r2 = {"type": f"{FILE_SELECTS[b]} {stem}{e2}", "name": stem + "_s2", "label": "S2"}
    f = clone(form)
    if where == "adjacent":
        f["survey"][p:p] = [r1, r2]
    elif where == "far":
        f["survey"].insert(p, r1)
        f["survey"].append(r2)
    else:
        f["survey"].insert(p, r1)
        f["survey"] += [{"type": "begin group", "name": stem + "_g", "label": "G"}, r2, {"type": "end group"}]
    return f, {"cites": [stem], "model": False}


def s_file_vs_other_clash(form):
    return [(p, v) for p in positions(form) for v in ("csv-external", "xml-external", "pulldata", "choices-list")]


def a_file_vs_other_clash(form, site):
    """a select from file against another source of the same instance id"""
    p, v = site
    stem = fresh(form, "places")
    f = clone(form)
    if v == "csv-external":
        rows = [{"type": "csv-external", "name": stem}, {"type": f"select_one_from_file {stem}.xml", "name": stem + "_s", "label": "S"}]
    elif v == "xml-external":
        rows = [{"type": "xml-external", "name": stem}, {"type": f"select_one_from_file {stem}.geojson", "name": stem + "_s", "label": "S"}]
    elif v == "pulldata":
        rows = [{"type": "calculate", "name": stem + "_c", "calculation": f"pulldata('{stem}', 'a', 'b', 'c')"},
                {"type": f"select_one_from_file {stem}.xml", "name": stem + "_s", "label": "S"}]
    else:
        ch = f.setdefault("choices", [])
        langs = sorted({k for c in ch for k in c if k.startswith("label::")})
        row = {"list_name": stem, "name": "o1"}
        for k in langs or ["label"]:
            row[k] = "O"
        ch.append(row)
        rows = [{"type": f"select_one {stem}", "name": stem + "_l", "label": "L"},
                {"type": f"select_one_from_file {stem}.xml", "name": stem + "_s", "label": "S"}]
    f["survey"][p:p] = rows
    if in_repeat(f["survey"], p) and v in ("csv-external", "xml-external"):
        pass  # external instances inside a repeat are legal since e11ec61
    return f, {"cites": [stem], "model": False}


# ------------------------------------------------------------------ entities


def _with_entities(form, **row):
    f = clone(form)
    base = {"dataset": "trees", "label": "concat('a', 'b')"}
    base.update(row)
    f["entities"] = [{k: v for k, v in base.items() if v is not None}]
    return f


def a_entities_two_rows(form, _):
    f = _with_entities(form)
    f["entities"].append({"dataset": "shrubs", "label": "'x'"})
    return f, {"cites": ["entit"], "model": False}


def a_entities_unknown_col(form, _):
    return _with_entities(form, what="x"), {"cites": ["what"], "model": False}


def s_entities_bad_dataset(form):
    return ["__trees", "tre.es", "1trees", "tr ees"]


def a_entities_bad_dataset(form, n):
    return _with_entities(form, dataset=n), {"cites": [n], "model": False}


def a_entities_no_label(form, _):
    return _with_entities(form, label=None), {"cites": ["label"], "model": False}


def a_entities_update_no_id(form, _):
    return _with_entities(form, update_if="true()"), {"cites": ["entity_id"], "model": False}


def a_entities_create_id_no_update(form, _):
    return _with_entities(form, create_if="true()", entity_id="'x'"), {"cites": ["update"], "model": False}


def s_save_to_plain(form):
    return [i for i, r in enumerate(form["survey"])
            if is_question(r) and "name" in r and rtype(r) in ("text", "integer", "decimal", "date") and not in_repeat(form["survey"], i)]


def a_save_to_no_sheet(form, i):
    f = clone(form)
    f["survey"][i]["save_to"] = "prop"
    return f, {"cites": ["entities sheet"], "model": False}


def s_save_to_bad_name(form):
    return [(i, n) for i in s_save_to_plain(form) for n in ("name", "LABEL", "__x", "1a", "a b")]


def a_save_to_bad_name(form, site):
    i, n = site
    f = _with_entities(form)
    f["survey"][i]["save_to"] = n
    return f, {"row": i + 2, "cites": [n], "model": False}


def s_save_to_in_repeat(form):
    return [i for i, r in enumerate(form["survey"])
            if is_question(r) and "name" in r and rtype(r) in ("text", "integer", "decimal", "date") and in_repeat(form["survey"], i)]


def a_save_to_in_repeat(form, i):
    f = _with_entities(form)
    f["survey"][i]["save_to"] = "prop"
    return f, {"row": i + 2, "cites": ["repeat"], "model": False}


def s_save_to_deep(form):
    return [(p, d, v) for p in positions(form) for d in (0, 1, 2, 3) for v in ("inside", "after-closed-group")]


def a_save_to_deep(form, site):
    """a new repeat with `d` groups nested inside it; the save_to question sits in the innermost group
    (`inside`: repeat > group^d > question) or directly in the repeat after a closed inner group"""
    p, d, v = site
    f = _with_entities(form)
    r = fresh(form, "srep")
    q = {"type": "text", "name": r + "_q", "label": "Q", "save_to": "prop"}
    block = [{"type": "begin repeat", "name": r, "label": "R"}]
    if v == "inside":
        for j in range(d):
            block.append({"type": "begin group", "name": f"{r}_g{j}", "label": "G"})
        block.append(q)
        block += [{"type": "end group"}] * d
    else:
        for j in range(d):
            block.append({"type": "begin group", "name": f"{r}_g{j}", "label": "G"})
        block.append({"type": "text", "name": r + "_f", "label": "F"})
        block += [{"type": "end group"}] * d
        block.append(q)
    block.append({"type": "end repeat"})
    f["survey"][p:p] = block
    row = p + block.index(q) + 2
    return f, {"row": row, "cites": ["repeat"], "model": False}


def s_save_to_existing_deep(form):
    """existing sections that lie below a repeat: a save_to question is added as their first child"""
    return [i for i, r in enumerate(form["survey"]) if is_begin(r) and (rtype(r) == "begin repeat" or in_repeat(form["survey"], i))]


def a_save_to_existing_deep(form, i):
    f = _with_entities(form)
    f["survey"].insert(i + 1, {"type": "text", "name": fresh(form, "sq"), "label": "Q", "save_to": "prop"})
    return f, {"row": i + 3, "cites": ["repeat"], "model": False}


# ------------------------------------------------------------------ repaired crash classes: now located rejections


def s_empty_section(form):
    return [(p, k, v) for p in positions(form) for k in ("group", "repeat") for v in ("bare", "disabled-only")]


def a_empty_section(form, site):
    p, k, v = site
    n = fresh(form, "empt")
    block = [{"type": f"begin {k}", "name": n, "label": "G"}]
    if v == "disabled-only":
        block.append({"type": "text", "name": n + "_q", "label": "Q", "disabled": "yes"})
    block.append({"type": f"end {k}"})
    f = clone(form)
    f["survey"][p:p] = block
    return f, {"cites": [n], "model": True}


def s_table_list_unlisted(form):
    return [(p, v) for p in positions(form) for v in ("from-file", "from-repeat", "after-text")]


def a_table_list_unlisted(form, site):
    """the first select of a table-list group has no list on the choices sheet (from a file / from a repeat)"""
    p, v = site
    g = fresh(form, "tlu")
    f = clone(form)
    sel = {"type": "select_one_from_file %s.csv" % g, "name": g + "_s", "label": "S"}
    block = [{"type": "begin group", "name": g, "label": "T", "appearance": "table-list"}]
    if v == "from-repeat":
        sel["type"] = "select_one ${%s_src}" % g
        f["survey"] += [{"type": "begin repeat", "name": g + "_r", "label": "R"}, {"type": "text", "name": g + "_src", "label": "Q"},
                        {"type": "end repeat"}]
    if v == "after-text":
        block.append({"type": "text", "name": g + "_t", "label": "T"})
    block += [sel, {"type": "end group"}]
    f["survey"][p:p] = block
    if v == "from-repeat" and in_repeat(f["survey"], p):
        return None, None
    return f, {"row": p + block.index(sel) + 2, "cites": ["table-list"], "model": False}


def a_osm_unlisted(form, p):
    f = insert_row(form, p, {"type": "osm nolist_osm", "name": fresh(form, "osmq"), "label": "O"})
    f["osm"] = [{"list_name": "buildings", "name": "building", "label": "B"}]
    return f, {"row": p + 2, "cites": ["nolist_osm"], "model": False}


def a_entities_no_dataset(form, _):
    f = clone(form)
    f["entities"] = [{"label": "concat('a', 'b')"}]
    return f, {"cites": ["list_name"], "model": False}


def s_search_no_choices(form):
    return [(p, v) for p in positions(form) for v in ("from-repeat", "randomize")]


def a_search_no_choices(form, site):
    p, v = site
    n = fresh(form, "srch")
    if v == "from-repeat":
        f = clone(form)
        f["survey"][p:p] = [{"type": "select_one ${%s_src}" % n, "name": n, "label": "S", "appearance": "search('x')"}]
        f["survey"] += [{"type": "begin repeat", "name": n + "_r", "label": "R"}, {"type": "text", "name": n + "_src", "label": "Q"},
                        {"type": "end repeat"}]
    else:
        f = _two_lists(form)
        f["survey"][p:p] = [{"type": "select_one tl_a", "name": n, "label": "S", "appearance": "search('x')", "parameters": "randomize=true"}]
    if in_repeat(f["survey"], p) and v == "from-repeat":
        return None, None
    return f, {"cites": [n, "search"], "model": False}


BAD_TRIGGERS = ["${T}, ${T}", "x ${T}", "${T} ${T}", "T"]


def s_bad_trigger(form):
    if not any(is_question(r) and "name" in r and has_label(r) and rtype(r) == "text" for r in form["survey"]):
        return []
    return [(p, k) for p in positions(form) for k in range(len(BAD_TRIGGERS) + 2)]


def a_bad_trigger(form, site):
    """a triggered calculation whose trigger is not exactly one reference to a visible question"""
    p, k = site
    t = _target(form)
    n = fresh(form, "trg")
    f = clone(form)
    if k < len(BAD_TRIGGERS):
        trig = BAD_TRIGGERS[k].replace("T", t)
        cites = ["trigger"]
    elif k == len(BAD_TRIGGERS):  # a group is not a question
        g = fresh(form, "trgg")
        f["survey"] += [{"type": "begin group", "name": g, "label": "G"}, {"type": "text", "name": g + "_q", "label": "Q"}, {"type": "end group"}]
        trig, cites = "${%s}" % g, ["trigger", g]
    else:  # a question without a body control
        h = fresh(form, "trgh")
        f["survey"].append({"type": "hidden", "name": h})
        trig, cites = "${%s}" % h, ["trigger", h]
    f["survey"].insert(p, {"type": "calculate", "name": n, "calculation": "1 + 1", "trigger": trig})
    return f, {"cites": cites, "model": False}


XML_NAME_CASES = [
    # (where, column / name, must cite)
    ("survey-col", "bind::1x", ["1x"]),
    ("survey-col", "instance::a b", ["a b"]),
    ("survey-col", "bind::foo:bar", ["foo"]),
    ("survey-col", "body::x:y", ["x"]),
    ("choice-col", "1abc", ["1abc"]),
    ("name", "zz:b", ["zz"]),
    ("char", "\x01", ["U+0001"]),
    ("char", "\x0b", ["U+000B"]),
    ("char", "\ufffe", ["U+FFFE"]),
]


def s_xml_names(form):
    out = []
    for k, (where, _, _) in enumerate(XML_NAME_CASES):
        if where == "choice-col":
            used = {rtype(r).split(" ")[1] for r in form["survey"] if rtype(r).startswith(("select_one ", "select_multiple ")) and len(rtype(r).split(" ")) > 1}
            out += [(j, k) for j, c in enumerate(form.get("choices") or []) if c.get("list_name") in used]
        else:
            out += [(i, k) for i, r in enumerate(form["survey"]) if is_question(r) and "name" in r and has_label(r)
                    and rtype(r) in ("text", "integer", "decimal", "date", "string", "int")]
    return out


def a_xml_names(form, site):
    """names / characters that would make the XForm not well-formed (rejected by the generated-document check)"""
    i, k = site
    where, what, cites = XML_NAME_CASES[k]
    f = clone(form)
    if where == "survey-col":
        f["survey"][i][what] = "v"
    elif where == "choice-col":
        f["choices"][i][what] = "v"
    elif where == "name":
        f["survey"].insert(i + 1, {"type": "text", "name": what, "label": "P"})
    else:
        key = next(kk for kk in f["survey"][i] if kk == "label" or kk.startswith("label::"))
        f["survey"][i][key] = "bad " + what + " char"
    return f, {"cites": cites, "model": False}


def s_save_to_on_section(form):
    return [i for i, r in enumerate(form["survey"]) if is_begin(r) and not in_repeat(form["survey"], i)]


def a_save_to_on_section(form, i):
    f = _with_entities(form)
    f["survey"][i]["save_to"] = "prop"
    return f, {"row": i + 2, "cites": ["group"], "model": False}


# ------------------------------------------------------------------ settings / sheets


def a_omit_iid_public_key(form, _):
    f = clone(form)
    st = f.get("settings") or [{}]
    st[0]["omit_instanceID"] = "yes"
    st[0]["public_key"] = "MIIB"
    f["settings"] = st
    return f, {"cites": ["instanceID"], "model": False}


def a_empty_survey(form, _):
    f = clone(form)
    # a survey sheet with neither rows nor a header row (a header-only sheet is accepted by design: the
    # form then consists of the meta block)
    f["survey"] = []
    f.pop("survey_cols", None)
    return f, {"cites": ["survey"], "model": False}


def a_missing_survey(form, _):
    f = clone(form)
    del f["survey"]
    f.setdefault("choices", [{"list_name": "l", "name": "a", "label": "A"}])
    return f, {"cites": ["survey"], "model": False}


def a_misspelled_survey(form, _):
    """survey sheet spelled `surveys`: only expressible as a raw dict"""
    f = clone(form)
    return f, {"cites": ["survey", "surveys"], "model": False, "raw_rename": {"survey": "surveys"}}


CATALOGUE = [
    # id, sites, apply
    ("drop_end", s_drop_end, a_drop_end),
    ("stray_end", s_stray_end, a_stray_end),
    ("swap_end", s_drop_end, a_swap_end),
    ("unclosed_begin", s_unclosed_begin, a_unclosed_begin),
    ("blank_type", s_blank_type, a_blank_type),
    ("blank_name", s_blank_name, a_blank_name),
    ("invalid_name", s_invalid_name, a_invalid_name),
    ("unknown_type", s_unknown_type, a_unknown_type),
    ("calc_no_calculation", positions, a_calc_no_calculation),
    ("calc_strip", s_calc_strip, a_calc_strip),
    ("audit_named", positions, a_audit_named),
    ("dup_sibling", s_dup_sibling, a_dup_sibling),
    ("dup_section", s_dup_section, a_dup_section),
    ("section_named_form", s_section_named_form, a_section_named_form),
    ("unknown_ref", s_unknown_ref, a_unknown_ref),
    ("ambiguous_ref", s_ambiguous_ref, a_ambiguous_ref),
    ("ambiguous_mixed", s_ambiguous_mixed, a_ambiguous_mixed),
    ("malformed_ref", s_malformed_ref, a_malformed_ref),
    ("malformed_ref_choice", s_malformed_ref_choice, a_malformed_ref_choice),
    ("malformed_ref_primed", s_malformed_ref_primed, a_malformed_ref_primed),
    ("malformed_ref_choice_primed", s_malformed_ref_choice_primed, a_malformed_ref_choice_primed),
    ("blank_rows_before", s_blank_rows_before, a_blank_rows_before),
    ("body_ref_question", s_labelled_questions, a_body_ref_question),
    ("body_ref_repeat", s_body_ref_repeat, a_body_ref_repeat),
    ("action_ref", positions, a_action_ref),
    ("flat_clash", s_flat_clash, a_flat_clash),
    ("list_missing", s_list_missing, a_list_missing),
    ("no_choices_sheet", s_no_choices_sheet, a_no_choices_sheet),
    ("choice_no_name", s_choice_rows, a_choice_no_name),
    ("dup_choice", s_dup_choice, a_dup_choice),
    ("select_multiple_space", s_select_multiple_space, a_select_multiple_space),
    ("or_other_filter", s_or_other_filter, a_or_other_filter),
    ("select_multiple_space_primed", s_primed, a_select_multiple_space_primed),
    ("or_other_filter_primed", s_primed, a_or_other_filter_primed),
    ("select_params_primed", s_primed, a_select_params_primed),
    ("dup_sibling_primed", s_primed, a_dup_sibling_primed),
    ("table_list_mismatch", positions, a_table_list_mismatch),
    ("table_list_filter", positions, a_table_list_filter),
    ("params", s_params, a_params),
    ("alias_clash_survey", s_once, a_alias_clash_survey),
    ("alias_clash_survey2", s_once, a_alias_clash_survey2),
    ("alias_clash_choices", s_has_choices, a_alias_clash_choices),
    ("missing_type_col", s_once, a_missing_type_col),
    ("missing_choice_name_col", s_has_choices, a_missing_choice_name_col),
    ("bg_geopoint_no_trigger", positions, a_bg_geopoint_no_trigger),
    ("bg_geopoint_calculation", s_bg_with_target, a_bg_geopoint_calculation),
    ("bg_geopoint_bad_trigger", positions, a_bg_geopoint_bad_trigger),
    ("trigger_unknown", positions, a_trigger_unknown),
    ("from_file_no_ext", s_from_file_no_ext, a_from_file_no_ext),
    ("search_from_file", positions, a_search_from_file),
    ("search_shared_list", positions, a_search_shared_list),
    ("instance_clash", positions, a_instance_clash),
    ("dup_external", positions, a_dup_external),
    ("file_stem_clash", s_file_stem_clash, a_file_stem_clash),
    ("file_vs_other_clash", s_file_vs_other_clash, a_file_vs_other_clash),
    ("entities_two_rows", s_once, a_entities_two_rows),
    ("entities_unknown_col", s_once, a_entities_unknown_col),
    ("entities_bad_dataset", s_entities_bad_dataset, a_entities_bad_dataset),
    ("entities_no_label", s_once, a_entities_no_label),
    ("entities_update_no_id", s_once, a_entities_update_no_id),
    ("entities_create_id_no_update", s_once, a_entities_create_id_no_update),
    ("save_to_no_sheet", s_save_to_plain, a_save_to_no_sheet),
    ("save_to_bad_name", s_save_to_bad_name, a_save_to_bad_name),
    ("save_to_in_repeat", s_save_to_in_repeat, a_save_to_in_repeat),
    ("save_to_on_section", s_save_to_on_section, a_save_to_on_section),
    ("save_to_deep", s_save_to_deep, a_save_to_deep),
    ("save_to_existing_deep", s_save_to_existing_deep, a_save_to_existing_deep),
    ("empty_section", s_empty_section, a_empty_section),
    ("entities_no_dataset", s_once, a_entities_no_dataset),
    ("table_list_unlisted", s_table_list_unlisted, a_table_list_unlisted),
    ("osm_unlisted", positions, a_osm_unlisted),
    ("search_no_choices", s_search_no_choices, a_search_no_choices),
    ("bad_trigger", s_bad_trigger, a_bad_trigger),
    ("xml_names", s_xml_names, a_xml_names),
    ("omit_iid_public_key", s_once, a_omit_iid_public_key),
    ("empty_survey", s_once, a_empty_survey),
    ("missing_survey", s_once, a_missing_survey),
]
BY_ID = {m[0]: m for m in CATALOGUE}


def located(expect: dict, msg: str) -> tuple[bool, str]:
    """Does `msg` locate the problem as the catalogue demands?"""
    low = msg.lower()
    if "row" in expect and f"[row : {expect['row']}]" not in msg:
        return False, f"does not cite [row : {expect['row']}]"
    if "sheet" in expect and expect["sheet"] not in low:
        return False, f"does not name the sheet {expect['sheet']!r}"
    for s in expect.get("cites", []):
        if str(s).lower() not in low:
            return False, f"does not cite {s!r}"
    alts = expect.get("any")
    if alts:
        ok = False
        for alt in alts:
            if alt and alt[0] == "row":
                ok = ok or f"[row : {alt[1]}]" in msg
            else:
                ok = ok or all(str(s).lower() in low for s in alt)
        if not ok:
            return False, f"cites none of {alts!r}"
    return True, ""
