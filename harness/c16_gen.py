"""
Generator for C16: forms of the general generator (gen.FormGen) decorated with everything the
property names — group logic (bind columns, messages, custom bind::/instance::/body:: columns,
appearances on groups and repeats), extra choice columns (used by choice filters or not),
per-type parameters, translations (labels, hints, guidance, messages, media), media columns
on questions and choices, settings (header fields, attribute::, namespaces, public key …),
triggers, dynamic defaults, or_other, select-from-file, type-table entries that carry their own
hint/action.  Entities-free.  Every random choice derives from the rng passed in.
"""

from __future__ import annotations

import random

import gen

HINT_TYPES = [
    "number of days in last month", "number of days in last six months", "phone number",
    "number of days in last year",
]
EXTRA_TYPES = ["range", "calculate", "start-geopoint", "background-geopoint"]
EXTRA_CHOICE_COLS = ["population", "state", "code2", "geometry_x", "cf", "Weight"]

_SLOT_LIKE = None


def slot_like_choice_cols() -> list[str]:
    """Extra choices-sheet columns named like the structural keys / slots of the element classes (read from the
    classes of the tree under test): `parent` (the usual name of a cascade column), `extra_data`, `children`,
    `type`, `choices`, `itemset`, `bind`, … — a column that collides with a slot name must still travel through
    `to_json_dict` and back.  Left out: the real columns (`name`, `label`, `list_name`) and names that the
    converter itself does not accept as an extra column (probed once per run: they raise in a direct conversion,
    which is not this property's business)."""
    global _SLOT_LIKE
    if _SLOT_LIKE is None:
        import impl
        from pyxform.question import OPTION_FIELDS, SELECT_QUESTION_FIELDS
        from pyxform.section import SECTION_FIELDS
        from pyxform.survey_element import SURVEY_ELEMENT_SLOTS

        cand = [n for n in dict.fromkeys([*OPTION_FIELDS, *SURVEY_ELEMENT_SLOTS, *SELECT_QUESTION_FIELDS, *SECTION_FIELDS])
                if n not in ("name", "label", "list_name")]
        ok = []
        for n in cand:
            r = impl.run({"survey": [{"type": "select_one l", "name": "s", "label": "S"}],
                          "choices": [{"list_name": "l", "name": "a", "label": "A", n: "x"}]})
            if r["ok"]:
                ok.append(n)
        _SLOT_LIKE = ok
    return _SLOT_LIKE
MEDIA_COLS = ["image", "audio", "video", "big-image"]

# feature tags (for the evidence distribution and for matchers)
F_GROUP_BIND = "group-bind"
F_GROUP_MSG = "group-bind-message"
F_EXTRA_CHOICE = "extra-choice-column"
F_QTD_HINT = "hint-on-type-with-table-hint"


def _langs_cols(rng, row, base, langs, text, p=0.8):
    if not langs:
        row[base] = text()
        return
    put = False
    for lg in langs:
        if rng.random() < p:
            row[f"{base}::{lg}"] = text()
            put = True
    if not put:
        row[f"{base}::{langs[0]}"] = text()


def c16_form(rng: random.Random, big: bool = False, adversarial_text: bool = False, **kw) -> dict:
    langs = rng.choice([[], [], ["en"], ["en", "fr"], ["English (en)", "fr", "de"]])
    k = dict(
        langs=langs,
        n=(1, 30 if big else 12),
        max_depth=rng.choice([1, 2, 3, 5]),
        p_group=rng.choice([0.1, 0.25]),
        p_repeat=rng.choice([0.05, 0.2]),
        p_select=rng.choice([0.2, 0.4]),
        p_logic=rng.choice([0.2, 0.5]),
        p_hint=0.3,
        p_default=0.2,
        p_settings=0.0,
        p_ref_in_label=0.15,
        plain_text=not adversarial_text,
        types=gen.SIMPLE_TYPES + HINT_TYPES + ["range", "calculate", "start-geopoint"],
        adversarial_names=rng.random() < 0.6,
    )
    k.update(kw)
    g = gen.FormGen(rng, **k)
    form = g.form()
    text = g.text
    feats = set()
    survey = form["survey"]
    qnames = [q.name for q in g.questions if q.kind == "q" and q.type not in ("xml-external", "csv-external")]

    extra_cols_by_list = {}
    # ---- choices: extra columns, media, or sparse translations
    if form.get("choices"):
        for ln in g.lists:
            if rng.random() < 0.45:
                extra_cols_by_list[ln] = rng.sample(EXTRA_CHOICE_COLS, rng.randint(1, 2))
                if rng.random() < 0.4 and slot_like_choice_cols():
                    extra_cols_by_list[ln][rng.randrange(len(extra_cols_by_list[ln]))] = rng.choice(slot_like_choice_cols())
        for row in form["choices"]:
            for c in extra_cols_by_list.get(row["list_name"], []):
                if rng.random() < 0.85:
                    row[c] = rng.choice(["1", "ny", "x y", "12.5", text()])
                    feats.add(F_EXTRA_CHOICE)
            if rng.random() < 0.15:
                mc = rng.choice(MEDIA_COLS[:3])
                if langs and rng.random() < 0.5:
                    row[f"media::{mc}::{rng.choice(langs)}"] = "c_" + row["name"] + ".png"
                else:
                    row[f"media::{mc}"] = "c_" + row["name"] + ".png"

    # ---- survey rows
    for row in survey:
        t = row.get("type", "")
        base = t.split(" ")[0]
        if t in ("begin group", "begin repeat"):
            if rng.random() < 0.25:
                row["relevant"] = g.expr(None)
            if t == "begin group" and rng.random() < 0.12:
                row["read_only"] = rng.choice(["yes", "true()"])
            if rng.random() < 0.1:
                row["required"] = rng.choice(["yes", "true()"])
                if rng.random() < 0.5:
                    _langs_cols(rng, row, "required_message", langs if rng.random() < 0.7 else [], text)
            if rng.random() < 0.08:
                row["constraint"] = "true()"
                _langs_cols(rng, row, "constraint_message", langs if rng.random() < 0.7 else [], text)
            if rng.random() < 0.08:
                row["bind::" + rng.choice(["foo", "odk:length", "jr:x"])] = rng.choice(["1", "bar"])
            if rng.random() < 0.15:
                row["appearance"] = rng.choice(["field-list", "table-list", "compact"]) if t == "begin group" else rng.choice(["field-list", "compact"])
            if rng.random() < 0.06:
                row["instance::" + rng.choice(["a", "jr:x"])] = rng.choice(["v", "${" + rng.choice(qnames) + "}"]) if qnames else "v"
            if rng.random() < 0.06:
                row["body::" + rng.choice(["accuracyThreshold", "x"])] = "1.5"
            if rng.random() < 0.06 and not langs:
                row["hint"] = text()
            if rng.random() < 0.05:
                row["media::image"] = "g.png"
            if any(c in row for c in ("relevant", "read_only", "required", "constraint")) or any(c.startswith("bind::") for c in row):
                feats.add(F_GROUP_BIND)
            if any(c.startswith(("required_message", "constraint_message")) for c in row):
                feats.add(F_GROUP_MSG)
            continue
        if not t or t.startswith("end"):
            continue
        # questions
        if base in HINT_TYPES and any(c == "hint" or c.startswith("hint::") for c in row):
            feats.add(F_QTD_HINT)
        if base == "range":
            if rng.random() < 0.7:
                row["parameters"] = rng.choice(["start=1 end=10 step=1", "start=0 end=1 step=0.1", "end=5", "start=2 end=12 step=2"])
        elif base == "calculate":
            row["calculation"] = g.expr(None)
            for c in [c for c in row if c.startswith(("label", "hint", "constraint", "required", "relevant", "read_only", "default"))]:
                del row[c]
        elif base in ("select_one", "select_multiple", "rank"):
            ln = t.split(" ")[1]
            r = rng.random()
            if r < 0.25 and base != "rank":
                row["parameters"] = rng.choice(["randomize=true", "randomize=true seed=42", "randomize=false"])
            elif r < 0.3:
                row["parameters"] = "randomize=true"
            if rng.random() < 0.3:
                cols = extra_cols_by_list.get(ln)
                if cols:
                    row["choice_filter"] = f"{cols[0]} = '1'"
                elif qnames and rng.random() < 0.5:
                    row["choice_filter"] = "name != ${" + rng.choice(qnames) + "}"
            if rng.random() < 0.12 and "choice_filter" not in row and base != "rank" and not (len(langs) > 1):
                row["type"] = t + " or_other"
            if rng.random() < 0.2:
                row["appearance"] = rng.choice(["minimal", "compact", "likert", "label", "list-nolabel", "quick"])
            elif rng.random() < 0.04 and base != "rank" and "choice_filter" not in row and "parameters" not in row:
                row["appearance"] = "search('fruits')"
        elif base in ("text", "string"):
            if rng.random() < 0.15:
                row["parameters"] = rng.choice(["rows=3", "rows=5"])
            if rng.random() < 0.1:
                row["appearance"] = rng.choice(["multiline", "numbers", "url"])
        elif base in ("geopoint", "geotrace", "geoshape"):
            if rng.random() < 0.3:
                row["parameters"] = rng.choice(["allow-mock-accuracy=true", "capture-accuracy=10 warning-accuracy=20"] if base == "geopoint" else ["allow-mock-accuracy=true"])
        elif base == "image":
            if rng.random() < 0.3:
                row["parameters"] = rng.choice(["max-pixels=640", "app=com.x.y"])
                if "app=" in row["parameters"]:
                    row["appearance"] = "annotate"
        elif base == "audio":
            if rng.random() < 0.3:
                row["parameters"] = rng.choice(["quality=low", "quality=voice-only", "quality=normal"])
        if base not in ("calculate", "hidden", "xml-external", "csv-external", "background-audio", "start-geopoint") and base not in gen.META_TYPES:
            if rng.random() < 0.12:
                _langs_cols(rng, row, "guidance_hint", langs, text)
            if rng.random() < 0.12:
                mc = rng.choice(MEDIA_COLS)
                if langs and rng.random() < 0.6:
                    row[f"media::{mc}::{rng.choice(langs)}"] = "m_" + row["name"] + ".png"
                else:
                    row[f"media::{mc}"] = "m_" + row["name"] + ".png"
            if "required" in row and rng.random() < 0.4:
                _langs_cols(rng, row, "required_message", langs if rng.random() < 0.6 else [], text)
            if "constraint" in row and langs and rng.random() < 0.4:
                row.pop("constraint_message", None)
                _langs_cols(rng, row, "constraint_message", langs, text)
            if rng.random() < 0.06:
                row["bind::" + rng.choice(["foo", "odk:length", "jr:preload"])] = rng.choice(["1", "bar"])
            if rng.random() < 0.05:
                row["instance::" + rng.choice(["a", "jr:x"])] = "v"
            if rng.random() < 0.05:
                row["body::" + rng.choice(["accuracyThreshold", "x"])] = "1.5"
        if base in ("text", "integer", "decimal", "calculate", "note", "date") and qnames and rng.random() < 0.12:
            cand = [q.name for q in g.questions if q.kind == "q" and q.name != row["name"]
                    and q.type.split(" ")[0] in ("text", "integer", "decimal", "select_one", "date", "string", "int")]
            if cand:
                row["trigger"] = "${" + rng.choice(cand) + "}"
                if base != "note":
                    row["calculation"] = rng.choice(["now()", "1 + 1", "${" + rng.choice(cand) + "} + 1"])
        if rng.random() < 0.04 and base in ("text", "integer"):
            row["default"] = "${" + rng.choice(qnames) + "}" if qnames else "1"

    # ---- settings
    if rng.random() < 0.6:
        st = {}
        opts = [
            ("form_title", lambda: text()), ("form_id", lambda: rng.choice(["my_form", "f1", "id-2"])),
            ("version", lambda: rng.choice(["1", "2024010101", "v3"])),
            ("default_language", lambda: rng.choice(langs) if langs else "default"),
            ("public_key", lambda: "MIIBIjANBg" + text().strip()),
            ("submission_url", lambda: "https://example.org/s?a=1&b=2"),
            ("style", lambda: rng.choice(["pages", "theme-grid", "pages theme-grid"])),
            ("instance_name", lambda: rng.choice(["concat('x', 'y')", "uuid()"] + (["${" + qnames[0] + "}"] if qnames and False else []))),
            ("auto_send", lambda: rng.choice(["true", "false"])), ("auto_delete", lambda: rng.choice(["true", "false"])),
            ("namespaces", lambda: rng.choice(['ex="http://example.org/ns"', 'ex="http://example.org/ns" q="urn:q"'])),
            ("attribute::" + rng.choice(["xyz", "odk:abc"]), lambda: "1234"),
            ("instance_xmlns", lambda: "http://example.org/xmlns"),
            ("allow_choice_duplicates", lambda: rng.choice(["yes", "no"])),
            ("name", lambda: rng.choice(["root1", "my-root"])),
            ("omit_instanceID", lambda: rng.choice(["yes", "true"])),
            ("clean_text_values", lambda: rng.choice(["yes", "no"])),
            ("sms_keyword", lambda: "kw"),
            ("add_none_option", lambda: rng.choice(["yes", "no", "true"])),
        ]
        for key, fn in opts:
            if rng.random() < 0.25:
                st[key] = fn()
        if "attribute::odk:abc" in st and "namespaces" not in st:
            del st["attribute::odk:abc"]
        if "name" in st and st["name"].lower() in {r.get("name", "").lower() for r in survey}:
            del st["name"]
        if st:
            form["settings"] = [st]
    # ---- entities (create / update / upsert, save_to on questions outside repeats)
    if rng.random() < 0.15:
        in_rep, outside = 0, []
        for row in survey:
            t = row.get("type", "")
            if t == "begin repeat":
                in_rep += 1
            elif t == "end repeat":
                in_rep -= 1
            elif in_rep == 0 and t and not t.startswith(("begin", "end")) and t.split(" ")[0] in (
                    "text", "integer", "decimal", "date", "string", "int", "select_one", "geopoint", "note"):
                outside.append(row)
        if outside:
            mode = rng.choice(["create", "create", "update", "upsert"])
            ref = "${" + outside[0]["name"] + "}"
            ent = {"dataset": rng.choice(["trees", "people", "hh_members"])}
            if mode in ("create", "upsert"):
                ent["label"] = rng.choice([ref, f"concat({ref}, ' x')", "plain label"])
            if mode in ("update", "upsert"):
                ent["entity_id"] = ref
            if mode == "upsert" or rng.random() < 0.3:
                if mode != "update":
                    ent["create_if"] = f"{ref} != ''"
                if mode != "create":
                    ent["update_if"] = f"{ref} = 'u'"
            form["entities"] = [ent]
            for i, row in enumerate(rng.sample(outside, min(len(outside), rng.randint(0, 3)))):
                if row["type"].split(" ")[0] != "note":
                    row["save_to"] = f"prop{i}"
            feats.add("entities:" + mode)
    form["_features"] = sorted(feats)
    return form


DYN_DEFAULTS = ["today()", "now()", "1 + 2", "uuid()", "concat('a', 'b')", "random()"]


def nest_form(rng: random.Random) -> dict:
    """Section nests (repeat in repeat, directly or through groups, groups in repeats, depth 2–4) in which every
    level carries questions with dynamic defaults (expressions and ${references}), static defaults, triggers
    and calculations: the output of code that walks the element tree and decides by an element's `type`
    (dynamic-default setvalues per repeat, templates, trigger setvalues) — placed so that a wrong decision at
    one level shows up as a moved / duplicated / missing action."""
    rows, names, n = [], [], [0]

    def fresh(p):
        n[0] += 1
        return f"{p}{n[0]}"

    def question(in_repeat, in_loop=False):
        t = rng.choice(["text", "integer", "date", "dateTime", "decimal", "text"])
        row = {"type": t, "name": fresh("q"), "label": "L" + str(n[0]) + (" %(label)s" if in_loop and rng.random() < 0.5 else "")}
        r = rng.random()
        if r < 0.45:
            if t in ("date",):
                row["default"] = rng.choice(["today()", "2020-01-01"])
            elif t == "dateTime":
                row["default"] = "now()"
            elif names and rng.random() < 0.35:
                row["default"] = "${" + rng.choice(names) + "}"
            else:
                row["default"] = rng.choice(DYN_DEFAULTS if t == "text" else ["1 + 2", "random()", "7"])
        elif r < 0.6 and names:
            row["trigger"] = "${" + rng.choice(names) + "}"
            row["calculation"] = rng.choice(["now()", "1 + 1", "${" + rng.choice(names) + "}"])
        elif r < 0.7:
            row["default"] = rng.choice(["abc", "5"]) if t == "text" else "5"
        if in_loop:
            # loop children are copied once per choice: they cannot be referenced or trigger anything
            row.pop("trigger", None)
            if "trigger" not in row and "calculation" in row:
                row.pop("calculation")
        else:
            names.append(row["name"])
        return row

    used_loop = [False]

    def section(depth, in_repeat, in_loop=False):
        kind = rng.choice(["repeat", "repeat", "group", "loop"]) if depth > 0 else "repeat"
        if kind == "loop" and (in_loop or used_loop[0]):
            kind = "group"   # one loop per form: its per-choice groups are named after the choices
        if kind == "loop":
            # legacy `begin loop over <list>`: a GroupedSection of type `loop`, one group per choice
            used_loop[0] = True
            row = {"type": "begin loop over lp", "name": fresh("l"), "label": "S" + str(n[0])}
        else:
            row = {"type": f"begin {kind}", "name": fresh("r" if kind == "repeat" else "g"), "label": "S" + str(n[0])}
        if kind == "repeat" and rng.random() < 0.2:
            row["repeat_count"] = rng.choice(["2", "${" + names[0] + "}"]) if names else "2"
        rows.append(row)
        inner = in_repeat or kind == "repeat"
        lp = in_loop or kind == "loop"
        for _ in range(rng.randint(1, 2)):
            rows.append(question(inner, lp))
        if depth < rng.randint(1, 3) and not lp:   # sections inside a loop would be duplicated per choice
            for _ in range(rng.randint(1, 2)):
                section(depth + 1, inner, lp)
                if rng.random() < 0.5:
                    rows.append(question(inner, lp))
        rows.append({"type": f"end {kind}"})

    rows.append(question(False))
    for _ in range(rng.randint(1, 2)):
        section(0, False)
    # triggers must point at visible questions defined anywhere; integer/… names were collected in order
    form = {"survey": rows, "_features": ["nest"]}
    if used_loop[0]:
        form["choices"] = [{"list_name": "lp", "name": "maize", "label": "Maize"}, {"list_name": "lp", "name": "rice", "label": "Rice"}]
        form["_features"].append("nest-loop")
    return form


def strip_meta(form: dict) -> dict:
    return {k: v for k, v in form.items() if not k.startswith("_")}
